"""(T) translator for C08: regenerates coq/Gen/C08_tables.v from /repo/src/_griffe.

Fail closed: any AST shape outside the whitelist raises TranslatorError.
Translated:
  * expressions.py: every `@dataclass class ExprX(Expr)` with its fields (name, default | required), fields sorted by
    name as `_expr_as_dict` sorts them (`parent` kept in the table, flagged by the model);
  * enumerations.py: the values of `Kind` and `ParameterKind`;
  * models.py: keyword parameters of `Docstring.__init__` and `Decorator.__init__` with required-ness;
  * encoders.py: the keys of `_loader_map` (must be exactly the five Kind members) and the dispatch order of
    `json_decoder` (`isinstance(obj_dict.get("cls"), str)` before `isinstance(obj_dict.get("kind"), str)`).
Second file coq/Gen/C08_text_tables.v (translate_text_tables): CPython's JSON string escapes and white space, str.isspace
on Latin-1, the keyword arguments of json.dumps in SerializationMixin.as_json and of the serialisation calls of cli.dump,
and the full-only keys of Object / Alias / Docstring.as_dict.
"""
from __future__ import annotations

import ast
from pathlib import Path

from harness.common.framework import REPO, VERIF, TranslatorError


def _coq_str(s: str) -> str:
    if any(ord(c) < 32 or ord(c) > 126 for c in s):
        raise TranslatorError(f"non-printable string constant {s!r}")
    return '"' + s.replace('"', '""') + '"'


def _enum_values(tree: ast.Module, name: str) -> dict[str, str]:
    cls = [n for n in tree.body if isinstance(n, ast.ClassDef) and n.name == name]
    if len(cls) != 1:
        raise TranslatorError(f"enum {name} not found")
    out = {}
    for n in cls[0].body:
        if isinstance(n, ast.Assign):
            if not (len(n.targets) == 1 and isinstance(n.targets[0], ast.Name) and isinstance(n.value, ast.Constant) and isinstance(n.value.value, str)):
                raise TranslatorError(f"unexpected member in enum {name}: {ast.unparse(n)}")
            out[n.targets[0].id] = n.value.value
        elif isinstance(n, ast.Expr) and isinstance(n.value, ast.Constant) and isinstance(n.value.value, str):
            continue
        else:
            raise TranslatorError(f"unexpected statement in enum {name}: {ast.unparse(n)[:80]}")
    if not out:
        raise TranslatorError(f"enum {name} has no members")
    return out


def _is_dataclass_deco(d) -> bool:
    f = d.func if isinstance(d, ast.Call) else d
    return isinstance(f, ast.Name) and f.id == "dataclass"


def _default(node, pkinds) -> str:
    if isinstance(node, ast.Constant):
        if node.value is None:
            return "DfNone"
        if node.value is False:
            return "DfFalse"
        if node.value is True:
            return "DfTrue"
    if isinstance(node, ast.Constant) and type(node.value) is int:
        return f"DfInt ({node.value})"
    if isinstance(node, ast.UnaryOp) and isinstance(node.op, ast.USub) and isinstance(node.operand, ast.Constant) and type(node.operand.value) is int:
        return f"DfInt (-{node.operand.value})"
    if isinstance(node, ast.Attribute) and isinstance(node.value, ast.Name) and node.value.id == "ParameterKind" and node.attr in pkinds:
        return f"DfEnum {_coq_str(pkinds[node.attr])}"
    raise TranslatorError(f"dataclass field default outside the whitelist: {ast.unparse(node)}")


def _expr_classes(tree: ast.Module, pkinds) -> list[tuple[str, list[tuple[str, str]]]]:
    out = []
    for n in tree.body:
        if not isinstance(n, ast.ClassDef) or not n.name.startswith("Expr") or n.name == "Expr":
            continue
        if not (len(n.bases) == 1 and isinstance(n.bases[0], ast.Name) and n.bases[0].id == "Expr"):
            raise TranslatorError(f"{n.name}: expected the single base Expr, got {[ast.unparse(b) for b in n.bases]}")
        if not any(_is_dataclass_deco(d) for d in n.decorator_list):
            raise TranslatorError(f"{n.name} is not a dataclass")
        fields = []
        for s in n.body:
            if isinstance(s, ast.AnnAssign):
                if not isinstance(s.target, ast.Name):
                    raise TranslatorError(f"{n.name}: unexpected field target {ast.unparse(s.target)}")
                fields.append((s.target.id, "DfRequired" if s.value is None else _default(s.value, pkinds)))
            elif isinstance(s, ast.Assign):
                raise TranslatorError(f"{n.name}: un-annotated class attribute {ast.unparse(s)[:60]} (would not be a dataclass field)")
        seen_default = False
        for f, d in fields:
            if d != "DfRequired":
                seen_default = True
            elif seen_default:
                raise TranslatorError(f"{n.name}: required field {f} after a defaulted one")
        if not fields:
            raise TranslatorError(f"{n.name}: no fields")
        out.append((n.name, sorted(fields)))      # `_expr_as_dict` sorts fields by name
    if len(out) < 20:
        raise TranslatorError(f"only {len(out)} expression classes found")
    return out


def _init_params(tree: ast.Module, cls_name: str) -> list[tuple[str, bool]]:
    cls = [n for n in tree.body if isinstance(n, ast.ClassDef) and n.name == cls_name]
    if len(cls) != 1:
        raise TranslatorError(f"class {cls_name} not found in models.py")
    init = [n for n in cls[0].body if isinstance(n, ast.FunctionDef) and n.name == "__init__"]
    if len(init) != 1:
        raise TranslatorError(f"{cls_name}.__init__ not found")
    a = init[0].args
    if a.vararg or a.kwarg or a.posonlyargs:
        raise TranslatorError(f"{cls_name}.__init__ has variadic/positional-only parameters")
    out = []
    pos = a.args[1:]
    ndef = len(a.defaults)
    for i, p in enumerate(pos):
        out.append((p.arg, i < len(a.args) - 1 - ndef))
    for p, d in zip(a.kwonlyargs, a.kw_defaults):
        out.append((p.arg, d is None))
    return out


def _decoder_shape(tree: ast.Module, kinds) -> None:
    lm = [n for n in tree.body if isinstance(n, ast.AnnAssign) and isinstance(n.target, ast.Name) and n.target.id == "_loader_map"]
    if len(lm) != 1 or not isinstance(lm[0].value, ast.Dict):
        raise TranslatorError("_loader_map not found or not a dict literal")
    keys = []
    for k, v in zip(lm[0].value.keys, lm[0].value.values):
        if not (isinstance(k, ast.Attribute) and isinstance(k.value, ast.Name) and k.value.id == "Kind" and isinstance(v, ast.Name)):
            raise TranslatorError(f"_loader_map entry outside the whitelist: {ast.unparse(k)}")
        if v.id != "_load_" + kinds[k.attr]:
            raise TranslatorError(f"_loader_map maps Kind.{k.attr} to {v.id}")
        keys.append(k.attr)
    if sorted(keys) != sorted(kinds):
        raise TranslatorError(f"_loader_map keys {keys} differ from Kind members {sorted(kinds)}")
    fn = [n for n in tree.body if isinstance(n, ast.FunctionDef) and n.name == "json_decoder"]
    if len(fn) != 1:
        raise TranslatorError("json_decoder not found")
    tests = []
    for s in fn[0].body:
        if isinstance(s, ast.If):
            t = s.test
            # isinstance(obj_dict.get("<key>"), str)
            ok = (isinstance(t, ast.Call) and isinstance(t.func, ast.Name) and t.func.id == "isinstance" and len(t.args) == 2
                  and isinstance(t.args[1], ast.Name) and t.args[1].id == "str"
                  and isinstance(t.args[0], ast.Call) and isinstance(t.args[0].func, ast.Attribute) and t.args[0].func.attr == "get"
                  and isinstance(t.args[0].func.value, ast.Name) and t.args[0].func.value.id == "obj_dict"
                  and len(t.args[0].args) == 1 and isinstance(t.args[0].args[0], ast.Constant))
            if not ok:
                raise TranslatorError(f"json_decoder test outside the whitelist: {ast.unparse(t)}")
            tests.append(t.args[0].args[0].value)
    if tests != ["cls", "kind"]:
        raise TranslatorError(f"json_decoder dispatches on {tests}, the model assumes ['cls', 'kind'] (both required to be str)")


def _call_keywords(fn: ast.FunctionDef, callee: str) -> list[list[str]]:
    """keyword names (None = **kwargs) of every call `json.dumps(...)` / `<x>.as_json(...)` in a function body."""
    out = []
    for n in ast.walk(fn):
        if isinstance(n, ast.Call) and isinstance(n.func, ast.Attribute) and n.func.attr == callee:
            out.append([k.arg if k.arg is not None else "**" for k in n.keywords])
    return out


def _method(tree: ast.Module, cls_name: str, name: str) -> ast.FunctionDef:
    cls = [n for n in tree.body if isinstance(n, ast.ClassDef) and n.name == cls_name]
    if len(cls) != 1:
        raise TranslatorError(f"class {cls_name} not found")
    fn = [n for n in cls[0].body if isinstance(n, ast.FunctionDef) and n.name == name]
    if len(fn) != 1:
        raise TranslatorError(f"{cls_name}.{name} not found")
    return fn[0]


def _full_keys(fn: ast.FunctionDef, what: str) -> list[str]:
    """the keys added under `if full:` in an as_dict method, in order: either `base.update({...})` or `base[k] = v`."""
    ifs = [s for s in fn.body if isinstance(s, ast.If) and isinstance(s.test, ast.Name) and s.test.id == "full"]
    if len(ifs) != 1 or ifs[0].orelse:
        raise TranslatorError(f"{what}: expected exactly one `if full:` without else")
    keys = []
    for s in ifs[0].body:
        if isinstance(s, ast.Expr) and isinstance(s.value, ast.Call) and isinstance(s.value.func, ast.Attribute) and s.value.func.attr == "update" \
                and len(s.value.args) == 1 and isinstance(s.value.args[0], ast.Dict):
            for k, v in zip(s.value.args[0].keys, s.value.args[0].values):
                if not (isinstance(k, ast.Constant) and isinstance(k.value, str) and isinstance(v, ast.Attribute) and isinstance(v.value, ast.Name)
                        and v.value.id == "self" and v.attr == k.value):
                    raise TranslatorError(f"{what}: full-only entry outside the whitelist: {ast.unparse(k)}: {ast.unparse(v)}")
                keys.append(k.value)
        elif isinstance(s, ast.Assign) and len(s.targets) == 1 and isinstance(s.targets[0], ast.Subscript) and isinstance(s.targets[0].slice, ast.Constant) \
                and isinstance(s.value, ast.Attribute) and isinstance(s.value.value, ast.Name) and s.value.value.id == "self" and s.value.attr == s.targets[0].slice.value:
            keys.append(s.targets[0].slice.value)
        else:
            raise TranslatorError(f"{what}: statement under `if full:` outside the whitelist: {ast.unparse(s)[:80]}")
    return keys


def _from_json_shape(fn: ast.FunctionDef) -> None:
    """SerializationMixin.from_json must be exactly: set the default object_hook, json.loads, isinstance test, return --
    the model (Model/C08_entry.v from_json_text) has no other step, in particular no pass over the decoded tree."""
    body = [s for s in fn.body if not (isinstance(s, ast.Expr) and isinstance(s.value, ast.Constant))]     # docstring
    body = [s for s in body if not isinstance(s, ast.ImportFrom)]
    want = ["kwargs.setdefault('object_hook', json_decoder)", "obj = json.loads(json_string, **kwargs)"]
    got = [ast.unparse(s) for s in body]
    ok = (len(body) == 4 and got[:2] == want
          and isinstance(body[2], ast.If) and ast.unparse(body[2].test) == "not isinstance(obj, cls)"
          and len(body[2].body) == 1 and isinstance(body[2].body[0], ast.Raise) and not body[2].orelse
          and ast.unparse(body[2].body[0].exc).startswith("TypeError(")
          and got[3] == "return obj")
    if not ok:
        raise TranslatorError(f"SerializationMixin.from_json is not `setdefault object_hook; json.loads; isinstance; return`: {got}")


def translate_text_tables() -> Path:
    """coq/Gen/C08_text_tables.v: what the text-level and full-mode models take from CPython (json, str) and from
    mixins.py / models.py / cli.py, regenerated on every run; the proofs re-establish by computation that the model's
    own definitions agree with these tables."""
    import json.decoder
    import json.encoder
    src = REPO / "src/_griffe"
    esc = []
    for n in range(256):
        text = json.encoder.py_encode_basestring_ascii(chr(n))
        if not (text.startswith('"') and text.endswith('"')):
            raise TranslatorError("json.encoder.py_encode_basestring_ascii no longer quotes")
        esc.append([ord(c) for c in text[1:-1]])
        if any(c > 126 or c < 32 for c in esc[-1]):
            raise TranslatorError("escaped text is not printable ASCII")
    ws = sorted(ord(c) for c in json.decoder.WHITESPACE_STR)
    spaces = [n for n in range(256) if chr(n).isspace()]
    mixins = ast.parse((src / "mixins.py").read_text())
    as_json = _method(mixins, "SerializationMixin", "as_json")
    calls = _call_keywords(as_json, "dumps")
    if calls != [["cls", "full", "**"]]:
        raise TranslatorError(f"SerializationMixin.as_json: json.dumps keywords {calls}, the text-level model assumes cls, full, **kwargs (default separators, ensure_ascii)")
    _from_json_shape(_method(mixins, "SerializationMixin", "from_json"))
    models = ast.parse((src / "models.py").read_text())
    obj_keys = _full_keys(_method(models, "Object", "as_dict"), "Object.as_dict")
    alias_keys = _full_keys(_method(models, "Alias", "as_dict"), "Alias.as_dict")
    doc_keys = _full_keys(_method(models, "Docstring", "as_dict"), "Docstring.as_dict")
    cli = ast.parse((src / "cli.py").read_text())
    dump = [n for n in cli.body if isinstance(n, ast.FunctionDef) and n.name == "dump"]
    if len(dump) != 1:
        raise TranslatorError("cli.dump not found")
    cli_calls = sorted(sorted(k) for k in _call_keywords(dump[0], "dumps") + _call_keywords(dump[0], "as_json"))
    if cli_calls != [["cls", "full", "indent", "sort_keys"], ["full", "indent", "sort_keys"]]:
        raise TranslatorError(f"cli.dump serialises with keywords {cli_calls}: expected indent, full, sort_keys (+cls)")
    lst = lambda l: "[" + "; ".join(str(x) for x in l) + "]"
    out = ["(* GENERATED by harness/translate/c08_tables.py (translate_text_tables) from CPython's json / str and from",
           "   /repo/src/_griffe/{mixins,models,cli}.py -- do not edit *)",
           "From Coq Require Import List String.", "Import ListNotations.", "Open Scope string_scope.", "",
           "(* json.encoder.py_encode_basestring_ascii(chr(n)) without the quotes, as character codes, for n = 0..255 *)",
           "Definition json_escape_table : list (list nat) :=", "  [" + ";\n   ".join(lst(e) for e in esc) + "].", "",
           "(* json.decoder.WHITESPACE_STR *)", f"Definition json_whitespace : list nat := {lst(ws)}.", "",
           "(* the code points below 256 for which str.isspace() holds (str.rstrip / lstrip without argument) *)",
           f"Definition latin1_space : list nat := {lst(spaces)}.", "",
           "(* keys that as_dict adds under `if full:`, in order (models.py) *)",
           "Definition full_object_keys : list string := [" + "; ".join(_coq_str(k) for k in obj_keys) + "].",
           "Definition full_alias_keys : list string := [" + "; ".join(_coq_str(k) for k in alias_keys) + "].",
           "Definition full_docstring_keys : list string := [" + "; ".join(_coq_str(k) for k in doc_keys) + "].", ""]
    p = VERIF / "coq/Gen/C08_text_tables.v"
    text = "\n".join(out)
    if not p.exists() or p.read_text() != text:
        p.write_text(text)
    return p


def translate(ctx=None) -> Path:
    translate_text_tables()
    src = REPO / "src/_griffe"
    enums = ast.parse((src / "enumerations.py").read_text())
    kinds = _enum_values(enums, "Kind")
    pkinds = _enum_values(enums, "ParameterKind")
    classes = _expr_classes(ast.parse((src / "expressions.py").read_text()), pkinds)
    models = ast.parse((src / "models.py").read_text())
    doc_params = _init_params(models, "Docstring")
    deco_params = _init_params(models, "Decorator")
    _decoder_shape(ast.parse((src / "encoders.py").read_text()), kinds)

    out = ["(* GENERATED by harness/translate/c08_tables.py from /repo/src/_griffe/{expressions,enumerations,models,encoders}.py -- do not edit *)",
           "From Coq Require Import List String ZArith.", "Import ListNotations.", "Open Scope string_scope.", "",
           "(* default of a dataclass field: required, None, False, True, a ParameterKind member (by value), or an int *)",
           "Inductive c08_default := DfRequired | DfNone | DfFalse | DfTrue | DfEnum (v : string) | DfInt (z : Z).", "",
           "(* expression dataclasses: fields sorted by name, `parent` included *)",
           "Definition expr_classes : list (string * list (string * c08_default)) :="]
    rows = []
    for name, fields in classes:
        rows.append("  (" + _coq_str(name) + ", [" + "; ".join(f"({_coq_str(f)}, {d}%Z)" if d.startswith("DfInt") else f"({_coq_str(f)}, {d})" for f, d in fields) + "])")
    out.append("  [\n" + ";\n".join(rows) + "\n  ].")
    out += ["", "Definition kind_values : list string := [" + "; ".join(_coq_str(v) for v in kinds.values()) + "].",
            "Definition parameter_kind_values : list string := [" + "; ".join(_coq_str(v) for v in pkinds.values()) + "].",
            "Definition pk_var_positional : string := " + _coq_str(pkinds["var_positional"]) + ".",
            "Definition pk_var_keyword : string := " + _coq_str(pkinds["var_keyword"]) + ".",
            "(* keyword parameters of Docstring.__init__ / Decorator.__init__ : (name, required) *)",
            "Definition docstring_init : list (string * bool) := [" + "; ".join(f"({_coq_str(n)}, {'true' if r else 'false'})" for n, r in doc_params) + "].",
            "Definition decorator_init : list (string * bool) := [" + "; ".join(f"({_coq_str(n)}, {'true' if r else 'false'})" for n, r in deco_params) + "].", ""]
    for k in ("MODULE", "CLASS", "FUNCTION", "ATTRIBUTE", "ALIAS"):
        if k not in kinds:
            raise TranslatorError(f"Kind.{k} missing")
        out.append(f"Definition kind_{k.lower()} : string := {_coq_str(kinds[k])}.")
    out.append("")
    p = VERIF / "coq/Gen/C08_tables.v"
    text = "\n".join(out)
    if not p.exists() or p.read_text() != text:
        p.write_text(text)
    return p


if __name__ == "__main__":
    print(translate().read_text())
