"""(T) translator for C11: regenerates coq/Gen/C11_ladder.v from /repo/src/_griffe/mixins.py and /repo/src/_griffe/diff.py.

Fail closed: any AST shape outside the whitelist raises TranslatorError.

From mixins.py (class ObjectAliasMixin): the properties `is_special`, `is_private`, `is_imported` and the decision ladder
`is_public` (a sequence of `if <test>: return <expr>` closed by a `return`), translated statement by statement into Coq boolean
functions over the name / the record `facts` of Model/C11_base.v.
From diff.py: the seen_paths guard and the if/elif dispatch of `_type_based_yield` (which comparison runs for which kind of
pair), the public filter and the removal rule of `_member_incompatibilities`, the removed-base test of
`_class_incompatibilities` and whether the members are still compared afterwards, the value test of
`_attribute_incompatibilities`, and `_returns_are_compatible`.
The shapes the hand-written part of the model relies on (iteration over `old_obj.all_members`, lookup in
`new_obj.all_members`, which object each breakage is attached to, `_alias_incompatibilities` catching both resolution errors,
`find_breaking_changes` delegating to `_member_incompatibilities`) are compared as normalised source text.
"""
from __future__ import annotations

import ast
from pathlib import Path

from harness.common.framework import REPO, VERIF, TranslatorError


def _u(node) -> str:
    return ast.unparse(node)


def _lit(node) -> str:
    if isinstance(node, ast.Constant) and isinstance(node.value, str) and node.value.isascii() and '"' not in node.value:
        return '"' + node.value + '"'
    raise TranslatorError(f"not an ASCII string literal: {_u(node)}")


# ---- mixins.py ----------------------------------------------------------------------------------------------------
FACT_ATOMS = {
    "self.is_alias": "(f_is_alias x)", "self.is_module": "(f_is_module x)", "self.parent": "(f_has_parent x)",
    "self.parent.is_module": "(f_parent_is_module x)", "self.parent.exports is not None": "(f_parent_has_exports x)",
    "self.name in self.parent.exports": "(f_in_parent_exports x)", "self.name in self.parent.imports": "(f_in_parent_imports x)",
    "self.public is not None": "(f_public_set x)", "self.public": "(f_public_val x)",
    "self.is_private": "(is_private_gen (f_name x))", "self.is_special": "(is_special_gen (f_name x))", "self.is_imported": "(is_imported_gen x)",
}
NAME_ATOMS = {"self.is_special": "(is_special_gen name)", "self.is_private": "(is_private_gen name)"}


def _mexp(node, name_only: bool) -> str:
    """Boolean expression of a mixins.py property -> Coq."""
    if isinstance(node, ast.Constant) and node.value in (True, False):
        return "true" if node.value else "false"
    if isinstance(node, ast.BoolOp):
        op = " && " if isinstance(node.op, ast.And) else " || "
        return "(" + op.join(_mexp(v, name_only) for v in node.values) + ")"
    if isinstance(node, ast.UnaryOp) and isinstance(node.op, ast.Not):
        return f"(negb {_mexp(node.operand, name_only)})"
    if isinstance(node, ast.Call) and isinstance(node.func, ast.Name) and node.func.id == "bool" and len(node.args) == 1 and not node.keywords:
        return _mexp(node.args[0], name_only)
    if (isinstance(node, ast.Call) and isinstance(node.func, ast.Attribute) and node.func.attr in ("startswith", "endswith")
            and _u(node.func.value) == "self.name" and len(node.args) == 1 and not node.keywords):
        fn = "starts_with" if node.func.attr == "startswith" else "ends_with"
        return f"({fn} {_lit(node.args[0])} {'name' if name_only else '(f_name x)'})"
    s = _u(node)
    table = NAME_ATOMS if name_only else FACT_ATOMS
    if s in table:
        return table[s]
    raise TranslatorError(f"mixins.py: expression outside the whitelist: {s}")


def _ladder(fn: ast.FunctionDef, name_only: bool) -> str:
    body = list(fn.body)
    if body and isinstance(body[0], ast.Expr) and isinstance(body[0].value, ast.Constant) and isinstance(body[0].value.value, str):
        body = body[1:]
    if not body or not isinstance(body[-1], ast.Return) or body[-1].value is None:
        raise TranslatorError(f"mixins.py:{fn.name}: does not end with `return <expr>`")
    out = []
    for st in body[:-1]:
        if not (isinstance(st, ast.If) and not st.orelse and len(st.body) == 1 and isinstance(st.body[0], ast.Return) and st.body[0].value is not None):
            raise TranslatorError(f"mixins.py:{fn.name}: statement is not `if <test>: return <expr>`: {_u(st)[:120]}")
        out.append(f"  if {_mexp(st.test, name_only)} then {_mexp(st.body[0].value, name_only)} else")
    out.append(f"  {_mexp(body[-1].value, name_only)}.")
    return "\n".join(out)


def _mixin_props(tree):
    cls = [n for n in tree.body if isinstance(n, ast.ClassDef) and n.name == "ObjectAliasMixin"]
    if len(cls) != 1:
        raise TranslatorError("mixins.py: class ObjectAliasMixin not found")
    props = {}
    for n in cls[0].body:
        if isinstance(n, ast.FunctionDef) and n.name in ("is_public", "is_private", "is_special", "is_imported"):
            if not any(_u(d) == "property" for d in n.decorator_list):
                raise TranslatorError(f"mixins.py:{n.name} is not a property")
            props[n.name] = n
    missing = [k for k in ("is_public", "is_private", "is_special", "is_imported") if k not in props]
    if missing:
        raise TranslatorError(f"mixins.py: properties not found: {missing}")
    return props


# ---- diff.py ------------------------------------------------------------------------------------------------------
def _fn(tree, name) -> ast.FunctionDef:
    f = [n for n in tree.body if isinstance(n, ast.FunctionDef) and n.name == name]
    if len(f) != 1:
        raise TranslatorError(f"diff.py: function {name} not found")
    return f[0]


def _strip(body):
    """Drop the docstring, comments are gone already, logger.debug(...) calls and the no-op `yield from ()`."""
    out = []
    for st in body:
        if isinstance(st, ast.Expr):
            v = st.value
            if isinstance(v, ast.Constant) and isinstance(v.value, str):
                continue
            if isinstance(v, ast.Call) and _u(v.func) == "logger.debug":
                continue
            if isinstance(v, ast.YieldFrom) and _u(v.value) == "()":
                continue
        out.append(st)
    return out


def _dexp(node, atoms: dict) -> str:
    if isinstance(node, ast.BoolOp):
        op = " && " if isinstance(node.op, ast.And) else " || "
        return "(" + op.join(_dexp(v, atoms) for v in node.values) + ")"
    if isinstance(node, ast.UnaryOp) and isinstance(node.op, ast.Not):
        return f"(negb {_dexp(node.operand, atoms)})"
    s = _u(node)
    if s in atoms:
        return atoms[s]
    raise TranslatorError(f"diff.py: expression outside the whitelist: {s}")


DISPATCH_ATOMS = {
    "old_member.is_alias": "old_alias", "new_member.is_alias": "new_alias",
    "new_member.kind != old_member.kind": "kind_differs", "old_member.kind != new_member.kind": "kind_differs",
    "new_member.kind is not old_member.kind": "kind_differs", "old_member.kind is not new_member.kind": "kind_differs",
    "old_member.is_module": "(okind_eqb k KModule)", "old_member.is_class": "(okind_eqb k KClass)",
    "old_member.is_function": "(okind_eqb k KFunction)", "old_member.is_attribute": "(okind_eqb k KAttribute)",
}
CALLEES = {"_alias_incompatibilities": ("AAlias", True), "_member_incompatibilities": ("AMembers", True),
           "_class_incompatibilities": ("AClass", True), "_function_incompatibilities": ("AFunction", False),
           "_attribute_incompatibilities": ("AAttribute", False)}


def _action(body) -> str:
    body = _strip(body)
    if len(body) != 1 or not isinstance(body[0], ast.Expr):
        raise TranslatorError(f"diff.py:_type_based_yield: branch is not a single yield: {[_u(s)[:60] for s in body]}")
    v = body[0].value
    if isinstance(v, ast.YieldFrom) and isinstance(v.value, ast.Call) and isinstance(v.value.func, ast.Name) and v.value.func.id in CALLEES:
        call = v.value
        act, wants_seen = CALLEES[call.func.id]
        if [_u(a) for a in call.args] != ["old_member", "new_member"]:
            raise TranslatorError(f"diff.py:_type_based_yield: {call.func.id} is not called on (old_member, new_member): {_u(call)}")
        kw = {k.arg: _u(k.value) for k in call.keywords}
        if kw != ({"seen_paths": "seen_paths"} if wants_seen else {}):
            raise TranslatorError(f"diff.py:_type_based_yield: unexpected keywords in {_u(call)}")
        return act
    if isinstance(v, ast.Yield) and v.value is not None and _u(v.value) == "ObjectChangedKindBreakage(new_member, old_member.kind, new_member.kind)":
        return "AKindChanged"
    raise TranslatorError(f"diff.py:_type_based_yield: branch outside the whitelist: {_u(body[0])[:160]}")


def _type_based_yield(fn):
    body = _strip(fn.body)
    # seen_paths guard: [key = <expr>;] if <key> in seen_paths: return; seen_paths.add(<key>)
    bound = {}
    while body and isinstance(body[0], ast.Assign) and len(body[0].targets) == 1 and isinstance(body[0].targets[0], ast.Name):
        bound[body[0].targets[0].id] = _u(body[0].value)
        body = body[1:]
    if len(body) < 3:
        raise TranslatorError("diff.py:_type_based_yield: guard / dispatch not found")
    g, add, chain = body[0], body[1], body[2:]
    if not (isinstance(g, ast.If) and not g.orelse and len(g.body) == 1 and isinstance(g.body[0], ast.Return) and g.body[0].value is None
            and isinstance(g.test, ast.Compare) and len(g.test.ops) == 1 and isinstance(g.test.ops[0], ast.In)
            and _u(g.test.comparators[0]) == "seen_paths"):
        raise TranslatorError(f"diff.py:_type_based_yield: no `if <key> in seen_paths: return` guard: {_u(g)[:120]}")
    key = _u(g.test.left)
    if not (isinstance(add, ast.Expr) and isinstance(add.value, ast.Call) and _u(add.value.func) == "seen_paths.add"
            and len(add.value.args) == 1 and _u(add.value.args[0]) == key):
        raise TranslatorError(f"diff.py:_type_based_yield: the guard key is not added to seen_paths right after the test: {_u(add)[:120]}")
    key = bound.get(key, key)
    keys = {"(old_member.path, new_member.path)": "SeenPair", "old_member.path": "SeenOld", "new_member.path": "SeenNew"}
    if key not in keys:
        raise TranslatorError(f"diff.py:_type_based_yield: seen_paths key outside the whitelist: {key}")
    if len(chain) != 1 or not isinstance(chain[0], ast.If):
        raise TranslatorError("diff.py:_type_based_yield: the dispatch is not a single if/elif chain")
    lines, node = [], chain[0]
    while True:
        lines.append(f"  if {_dexp(node.test, DISPATCH_ATOMS)} then {_action(node.body)} else")
        if len(node.orelse) == 1 and isinstance(node.orelse[0], ast.If):
            node = node.orelse[0]
        elif not node.orelse:
            lines.append("  ANothing.")
            break
        else:
            lines.append(f"  {_action(node.orelse)}.")
            break
    return keys[key], "\n".join(lines)


MEMBER_ATOMS = {"old_member.is_alias": "is_alias", "old_member.is_module": "is_module", "old_member.is_public": "is_public"}


def _member_incompat(fn):
    body = _strip(fn.body)
    if body and isinstance(body[0], ast.Assign) and _u(body[0]) == "seen_paths = set() if seen_paths is None else seen_paths":
        body = body[1:]
    if not (len(body) == 1 and isinstance(body[0], ast.For) and _u(body[0].target) == "(name, old_member)"
            and _u(body[0].iter) == "old_obj.all_members.items()" and not body[0].orelse):
        raise TranslatorError("diff.py:_member_incompatibilities: not a single `for name, old_member in old_obj.all_members.items()` loop")
    loop = _strip(body[0].body)
    if len(loop) != 2:
        raise TranslatorError(f"diff.py:_member_incompatibilities: loop body is not [public filter, try]: {[_u(s)[:50] for s in loop]}")
    flt, tr = loop
    if not (isinstance(flt, ast.If) and not flt.orelse and [type(s) for s in _strip(flt.body)] == [ast.Continue]):
        raise TranslatorError(f"diff.py:_member_incompatibilities: first statement is not `if <test>: continue`: {_u(flt)[:120]}")
    skipped = _dexp(flt.test, MEMBER_ATOMS)
    if not (isinstance(tr, ast.Try) and not tr.finalbody and len(tr.handlers) == 1 and _u(tr.handlers[0].type) == "KeyError"
            and [_u(s) for s in tr.body] == ["new_member = new_obj.all_members[name]"]
            and [_u(s) for s in _strip(tr.orelse)] == ["yield from _type_based_yield(old_member, new_member, seen_paths=seen_paths)"]):
        raise TranslatorError("diff.py:_member_incompatibilities: try / except KeyError / else shape changed")
    h = _strip(tr.handlers[0].body)
    if not (len(h) == 1 and isinstance(h[0], ast.If) and not h[0].orelse
            and [_u(s) for s in _strip(h[0].body)] == ["yield ObjectRemovedBreakage(old_member, old_member, None)"]):
        raise TranslatorError("diff.py:_member_incompatibilities: removal rule is not `if <test>: yield ObjectRemovedBreakage(old_member, old_member, None)`")
    return skipped, _dexp(h[0].test, MEMBER_ATOMS)


CLASS_ATOMS = {"new_class.bases != old_class.bases": "bases_differ", "old_class.bases != new_class.bases": "bases_differ",
               "len(new_class.bases) < len(old_class.bases)": "fewer", "len(old_class.bases) > len(new_class.bases)": "fewer"}


def _class_incompat(fn):
    body = _strip(fn.body)
    if not (len(body) == 2 and isinstance(body[0], ast.If) and not body[0].orelse
            and _u(body[1]) == "yield from _member_incompatibilities(old_class, new_class, seen_paths=seen_paths)"):
        raise TranslatorError("diff.py:_class_incompatibilities: not [if <removed base>: ..., yield from _member_incompatibilities(old_class, new_class, ...)]")
    ib = [_u(s) for s in _strip(body[0].body)]
    y = "yield ClassRemovedBaseBreakage(new_class, old_class.bases, new_class.bases)"
    if ib == [y]:
        always = "true"
    elif ib == [y, "return"]:
        always = "false"
    else:
        raise TranslatorError(f"diff.py:_class_incompatibilities: removed-base branch outside the whitelist: {ib}")
    return _dexp(body[0].test, CLASS_ATOMS), always


def _attribute_incompat(fn):
    body = _strip(fn.body)
    if not (len(body) == 1 and isinstance(body[0], ast.If) and not body[0].orelse):
        raise TranslatorError("diff.py:_attribute_incompatibilities: not a single `if`")
    test = _dexp(body[0].test, {"old_attribute.value != new_attribute.value": "values_differ", "new_attribute.value != old_attribute.value": "values_differ"})

    def all_yield(stmts):
        stmts = _strip(stmts)
        if len(stmts) != 1:
            return False
        s = stmts[0]
        if isinstance(s, ast.If):
            return bool(s.orelse) and all_yield(s.body) and all_yield(s.orelse)
        return (isinstance(s, ast.Expr) and isinstance(s.value, ast.Yield) and isinstance(s.value.value, ast.Call)
                and _u(s.value.value.func) == "AttributeChangedValueBreakage" and _u(s.value.value.args[0]) == "new_attribute")
    if not all_yield(body[0].body):
        raise TranslatorError("diff.py:_attribute_incompatibilities: some path of the `if` does not yield AttributeChangedValueBreakage(new_attribute, ...)")
    return test


RETURN_ATOMS = {"old_function.returns is None": "old_none", "new_function.returns is None": "new_none",
                "new_function.returns == old_function.returns": "equal", "old_function.returns == new_function.returns": "equal"}


def _returns_compat(fn):
    lines = []

    def seq(stmts, last):
        stmts = _strip(stmts)
        for k, st in enumerate(stmts):
            final = last and k == len(stmts) - 1
            if isinstance(st, ast.If) and not st.orelse and len(st.body) == 1 and isinstance(st.body[0], ast.Return) \
                    and isinstance(st.body[0].value, ast.Constant) and st.body[0].value.value in (True, False) and not final:
                lines.append(f"  if {_dexp(st.test, RETURN_ATOMS)} then {'true' if st.body[0].value.value else 'false'} else")
            elif isinstance(st, ast.With) and len(st.items) == 1 and _u(st.items[0].context_expr) == "contextlib.suppress(AttributeError)" and not final:
                seq(st.body, False)
            elif final and isinstance(st, ast.Return) and isinstance(st.value, ast.Constant) and st.value.value in (True, False):
                lines.append(f"  {'true' if st.value.value else 'false'}.")
            else:
                raise TranslatorError(f"diff.py:_returns_are_compatible: statement outside the whitelist: {_u(st)[:120]}")
    seq(fn.body, True)
    return "\n".join(lines)


SKELETON = {
    "_alias_incompatibilities": (
        "try:\n    old_member = old_obj.target if old_obj.is_alias else old_obj\n    new_member = new_obj.target if new_obj.is_alias else new_obj\n"
        "except (AliasResolutionError, CyclicAliasError):\n    return\n"
        "yield from _type_based_yield(old_member, new_member, seen_paths=seen_paths)"),
    "find_breaking_changes": "yield from _member_incompatibilities(old_obj, new_obj)",
}


def _check_skeleton(tree):
    for name, want in SKELETON.items():
        fn = _fn(tree, name)
        body = _strip(fn.body)
        for st in body:
            if isinstance(st, ast.Try):
                for h in st.handlers:
                    h.body = _strip(h.body)
        got = "\n".join(_u(s) for s in body)
        if got != want:
            raise TranslatorError(f"diff.py:{name}: the hand-modelled skeleton changed:\n{got[:600]}")


def translate(ctx=None) -> Path:
    mix = ast.parse((REPO / "src/_griffe/mixins.py").read_text())
    dif = ast.parse((REPO / "src/_griffe/diff.py").read_text())
    props = _mixin_props(mix)
    key, dispatch = _type_based_yield(_fn(dif, "_type_based_yield"))
    skipped, removal = _member_incompat(_fn(dif, "_member_incompatibilities"))
    base_removed, always = _class_incompat(_fn(dif, "_class_incompatibilities"))
    value = _attribute_incompat(_fn(dif, "_attribute_incompatibilities"))
    rets = _returns_compat(_fn(dif, "_returns_are_compatible"))
    out = [
        "(* GENERATED by harness/translate/c11_ladder.py from /repo/src/_griffe/mixins.py and diff.py -- do not edit *)",
        "From Coq Require Import List Bool String.", "From Verif Require Import Model.C11_base.", "Open Scope string_scope.", "",
        "(* mixins.py: ObjectAliasMixin.is_special / is_private / is_imported / is_public *)",
        "Definition is_special_gen (name : string) : bool :=", _ladder(props["is_special"], True), "",
        "Definition is_private_gen (name : string) : bool :=", _ladder(props["is_private"], True), "",
        "Definition is_imported_gen (x : facts) : bool :=", _ladder(props["is_imported"], False), "",
        "Definition is_public_gen (x : facts) : bool :=", _ladder(props["is_public"], False), "",
        "(* diff.py:_type_based_yield: what the seen_paths guard is keyed on, and which comparison runs for a pair *)",
        f"Definition seen_key_gen : seen_key := {key}.", "",
        "Definition dispatch_gen (old_alias new_alias kind_differs : bool) (k : okind) : action :=", dispatch, "",
        "(* diff.py:_member_incompatibilities: `if <test>: continue` and the test guarding ObjectRemovedBreakage *)",
        f"Definition member_skipped_gen (is_alias is_module is_public : bool) : bool := {skipped}.",
        f"Definition removal_reported_gen (is_alias is_module is_public : bool) : bool := {removal}.", "",
        "(* diff.py:_class_incompatibilities: the removed-base test; are the members compared whatever its outcome? *)",
        f"Definition base_removed_gen (bases_differ fewer : bool) : bool := {base_removed}.",
        f"Definition class_members_always_compared_gen : bool := {always}.", "",
        "(* diff.py:_attribute_incompatibilities *)",
        f"Definition value_changed_gen (values_differ : bool) : bool := {value}.", "",
        "(* diff.py:_returns_are_compatible *)",
        "Definition returns_compatible_gen (old_none new_none equal : bool) : bool :=", rets, ""]
    p = VERIF / "coq/Gen/C11_ladder.v"
    text = "\n".join(out)
    if not p.exists() or p.read_text() != text:
        p.write_text(text)
    _check_skeleton(dif)
    return p


if __name__ == "__main__":
    print(translate().read_text())
