"""(T) translator for C15: regenerates coq/Gen/C15_ladder.v from /repo/src/_griffe/{loader,importer}.py.

Fail closed: any AST shape outside the whitelist raises TranslatorError.  Translated:
  loader._load_module_path      the if/elif agent-selection ladder            -> agent_ladder
  loader.load                   `if not (allow or force): raise` in the ModuleNotFoundError branch -> not_found_reraises
  loader._load_module           except clauses re-raising LoadingError        -> load_module_handlers
  loader._inspect_module        ignored prefixes, except SystemExit -> ImportError -> ignored_prefixes, inspect_module_handlers
  loader._load_submodule        except clause around self._load_module        -> load_submodule_catches
  loader.resolve_module_aliases `load_module = (...)`, except around self.load -> alias_reentry_gate, reentry_catches
  loader.expand_wildcards       `not_loaded`, the `continue` test, except around self.load -> wildcard_reentry
  importer.sys_path             early return without paths, try/finally restore -> sys_path_noop_when_empty, sys_path_restores_on_exception
  importer.dynamic_import       handler types of the two try statements, what is raised -> import_attempt_catches, getattr_catches, ...
  loader._visit_module / _inspect_module  which files the loader reads itself, statement order of _inspect_module
                                -> visit_reads_source, inspect_module_steps, inspect_read_needs_store, inspect_reads_suffixes
  loader._load_module_path      `if submodules: self._load_submodules(module)` after the ladder -> recurse_submodules
  loader._load_submodules/_load_submodule/_load_package   skeleton checked (no recursion below a submodule, orphan skip,
                                wildcard expansion before the stubs): shapes only, fail closed
  finder.ModuleFinder.__init__  `for path in search_paths or sys.path: self.append_search_path(Path(path))` -> finder_defaults_to_sys_path
  loader.load / load_git, cli._load_packages / dump / check, cli.get_parser: how allow_inspection, force_inspection,
                                store_source, submodules travel from each public entry point down to GriffeLoader(...) and
                                GriffeLoader.load(...) -> entry_allow, entry_force, entry_store, entry_submodules, entry_catches
and a census of every call in src/_griffe that can execute foreign code (import_module, dynamic_import, exec, eval, __import__,
exec_module, compile without PyCF_ONLY_AST ...): the set of (file, function, callee) must be exactly the whitelisted one.
"""
from __future__ import annotations

import ast
from pathlib import Path

from harness.common.framework import REPO, VERIF, TranslatorError

EXN = {"SystemExit": "XSystemExit", "KeyboardInterrupt": "XKeyboardInterrupt", "RuntimeError": "XRuntimeError",
       "AttributeError": "XAttributeError", "ImportError": "XImportError", "ModuleNotFoundError": "XModuleNotFound",
       "SyntaxError": "XSyntaxError", "UnicodeDecodeError": "XUnicodeDecode", "OSError": "XOSError",
       "FileNotFoundError": "XFileNotFound", "LoadingError": "XLoadingError"}
HANDLER_NAMES = set(EXN) | {"BaseException", "Exception", "ValueError", "UnicodeError", "GriffeError"}

# every call site in src/_griffe that may run code which is not Griffe's own
EXEC_CALLEES = {"import_module", "dynamic_import", "exec", "eval", "__import__", "exec_module", "load_module", "run_path", "run_module",
                "_load_extension_path", "reload", "execfile"}
EXPECTED_SITES = {
    ("importer.py", "dynamic_import", "import_module"),
    ("agents/inspector.py", "Inspector.get_module", "dynamic_import"),
    ("loader.py", "GriffeLoader.load", "dynamic_import"),
    ("extensions/base.py", "_load_extension_path", "exec_module"),      # extensions named by the user, not analysed code
    ("extensions/base.py", "_load_extension", "dynamic_import"),
    ("extensions/base.py", "_load_extension", "_load_extension_path"),
}
# who may reach the inspector from the loader
EXPECTED_INSPECT_SITES = {
    ("loader.py", "GriffeLoader.load", "_inspect_module"),
    ("loader.py", "GriffeLoader._load_module_path", "_inspect_module"),
    ("loader.py", "GriffeLoader._inspect_module", "inspect"),
}


def _q(s: str) -> str:
    if '"' in s or "\\" in s:
        raise TranslatorError(f"unsupported string literal {s!r}")
    return '"' + s + '"'


def _strlist(xs) -> str:
    return "[" + "; ".join(_q(x) for x in xs) + "]"


def _callee(call: ast.Call) -> str:
    f = call.func
    if isinstance(f, ast.Name):
        return f.id
    if isinstance(f, ast.Attribute):
        return f.attr
    return "?"


def _functions(tree):
    """yield (qualified name, node) for every function, methods as Class.method"""
    for n in tree.body:
        if isinstance(n, (ast.FunctionDef, ast.AsyncFunctionDef)):
            yield n.name, n
        elif isinstance(n, ast.ClassDef):
            for m in n.body:
                if isinstance(m, (ast.FunctionDef, ast.AsyncFunctionDef)):
                    yield f"{n.name}.{m.name}", m


def _fn(tree, qual):
    got = [n for q, n in _functions(tree) if q == qual]
    if len(got) != 1:
        raise TranslatorError(f"function {qual} not found (or defined {len(got)} times)")
    return got[0]


def _handler_types(h: ast.ExceptHandler) -> list[str]:
    t = h.type
    if t is None:
        return ["BaseException"]
    elts = t.elts if isinstance(t, ast.Tuple) else [t]
    out = []
    for e in elts:
        if not isinstance(e, ast.Name) or e.id not in HANDLER_NAMES:
            raise TranslatorError(f"unknown exception type in handler: {ast.unparse(t)}")
        out.append(e.id)
    return out


def _raised(stmt) -> str:
    """`raise X(...)` / `raise X(...) from e` -> Coq exn constructor"""
    if isinstance(stmt, ast.Raise) and isinstance(stmt.exc, ast.Call) and isinstance(stmt.exc.func, ast.Name) and stmt.exc.func.id in EXN:
        return EXN[stmt.exc.func.id]
    raise TranslatorError(f"not a `raise KnownError(...)`: {ast.unparse(stmt)}")


def _contains_call(node, callee: str) -> bool:
    return any(isinstance(c, ast.Call) and _callee(c) == callee for c in ast.walk(node))


def _no_reraise(h: ast.ExceptHandler, where: str):
    for n in ast.walk(h):
        if isinstance(n, ast.Raise):
            raise TranslatorError(f"{where}: handler unexpectedly raises: {ast.unparse(n)}")


# ---------------------------------------------------------------- loader
def _ladder_test(t) -> str:
    if isinstance(t, ast.Call) and isinstance(t.func, ast.Name) and t.func.id == "isinstance" and len(t.args) == 2 \
            and isinstance(t.args[0], ast.Name) and t.args[0].id == "module_path" and isinstance(t.args[1], ast.Name) and t.args[1].id == "list":
        return "is_list"
    if isinstance(t, ast.Attribute) and isinstance(t.value, ast.Name) and t.value.id == "self" and t.attr in ("force_inspection", "allow_inspection"):
        return "force" if t.attr == "force_inspection" else "allow"
    if isinstance(t, ast.Compare) and len(t.ops) == 1 and isinstance(t.ops[0], (ast.In, ast.NotIn)):
        l, r = t.left, t.comparators[0]
        if isinstance(l, ast.Attribute) and l.attr == "suffix" and isinstance(l.value, ast.Name) and l.value.id == "module_path" \
                and isinstance(r, (ast.Set, ast.Tuple, ast.List)) and all(isinstance(e, ast.Constant) and isinstance(e.value, str) for e in r.elts):
            e = f"(str_in suffix {_strlist(sorted(x.value for x in r.elts))})"
            return e if isinstance(t.ops[0], ast.In) else f"(negb {e})"
    if isinstance(t, ast.UnaryOp) and isinstance(t.op, ast.Not):
        return f"(negb {_ladder_test(t.operand)})"
    if isinstance(t, ast.BoolOp):
        op = " && " if isinstance(t.op, ast.And) else " || "
        return "(" + op.join(_ladder_test(v) for v in t.values) + ")"
    raise TranslatorError(f"_load_module_path: test outside the whitelist: {ast.unparse(t)}")


def _ladder_action(body) -> str:
    if len(body) != 1:
        raise TranslatorError("_load_module_path: branch with more than one statement: " + "; ".join(ast.unparse(b) for b in body)[:200])
    s = body[0]
    if isinstance(s, ast.Raise):
        return f"ARaise {_raised(s)}"
    if isinstance(s, ast.Assign) and len(s.targets) == 1 and isinstance(s.targets[0], ast.Name) and s.targets[0].id == "module" \
            and isinstance(s.value, ast.Call) and isinstance(s.value.func, ast.Attribute) and isinstance(s.value.func.value, ast.Name) \
            and s.value.func.value.id == "self":
        m = {"_create_module": "ACreate", "_visit_module": "AVisit", "_inspect_module": "AInspect"}.get(s.value.func.attr)
        if m:
            return m
    raise TranslatorError(f"_load_module_path: branch action outside the whitelist: {ast.unparse(s)}")


def _ladder(node: ast.If, depth=1) -> str:
    test, act = _ladder_test(node.test), _ladder_action(node.body)
    ind = "  " * depth
    if len(node.orelse) == 1 and isinstance(node.orelse[0], ast.If):
        rest = _ladder(node.orelse[0], depth + 1)
    elif node.orelse:
        rest = ind + "  " + _ladder_action(node.orelse)
    else:
        raise TranslatorError("_load_module_path: ladder without a final else")
    return f"{ind}if {test} then {act} else\n{rest}"


def _gate(t, names: dict) -> str:
    """boolean expressions of resolve_module_aliases / expand_wildcards over a fixed vocabulary"""
    if isinstance(t, ast.BoolOp):
        op = " && " if isinstance(t.op, ast.And) else " || "
        return "(" + op.join(_gate(v, names) for v in t.values) + ")"
    if isinstance(t, ast.UnaryOp) and isinstance(t.op, ast.Not):
        return f"(negb {_gate(t.operand, names)})"
    if isinstance(t, ast.Name) and t.id in names:
        return names[t.id]
    if isinstance(t, ast.Compare) and len(t.ops) == 1:
        src = ast.unparse(t)
        table = {
            "external is True": "(ext_is external (Some true))", "external is False": "(ext_is external (Some false))",
            "external is None": "(ext_is external None)",
            "package == f'_{obj.package.name}'": "sibling", "package != f'_{obj.package.name}'": "(negb sibling)",
            "package not in load_failures": "(negb failed)", "package in load_failures": "failed",
            "obj.package.path != package": "(negb same_pkg)", "obj.package.path == package": "same_pkg",
            "package not in self.modules_collection": "(negb loaded)", "package in self.modules_collection": "loaded",
        }
        if src in table:
            return table[src]
    raise TranslatorError(f"re-entry gate: expression outside the whitelist: {ast.unparse(t)}")


def _reentry_try(fn, where: str):
    """the `try: self.load(package, try_relative_path=False) except (...)` statement inside fn"""
    tries = [n for n in ast.walk(fn) if isinstance(n, ast.Try) and any(
        isinstance(c, ast.Call) and isinstance(c.func, ast.Attribute) and c.func.attr == "load" and isinstance(c.func.value, ast.Name)
        and c.func.value.id == "self" for b in n.body for c in ast.walk(b))]
    if len(tries) != 1:
        raise TranslatorError(f"{where}: expected exactly one try around self.load, found {len(tries)}")
    t = tries[0]
    calls = [c for b in t.body for c in ast.walk(b) if isinstance(c, ast.Call) and isinstance(c.func, ast.Attribute) and c.func.attr == "load"]
    if len(calls) != 1:
        raise TranslatorError(f"{where}: several self.load calls")
    c = calls[0]
    if not (len(c.args) == 1 and isinstance(c.args[0], ast.Name) and c.args[0].id == "package"):
        raise TranslatorError(f"{where}: self.load argument is not `package`: {ast.unparse(c)}")
    kws = {k.arg: k.value for k in c.keywords}
    if set(kws) - {"try_relative_path"} or not all(isinstance(v, ast.Constant) for v in kws.values()):
        raise TranslatorError(f"{where}: unexpected keyword arguments: {ast.unparse(c)}")
    trp = kws["try_relative_path"].value if "try_relative_path" in kws else True
    if len(t.handlers) != 1 or t.finalbody or t.orelse:
        raise TranslatorError(f"{where}: try around self.load has an unexpected shape")
    _no_reraise(t.handlers[0], where)
    return sorted(_handler_types(t.handlers[0])), bool(trp), t


def _all_self_load_calls(tree) -> int:
    n = 0
    for q, f in _functions(tree):
        if q.startswith("GriffeLoader."):
            n += sum(1 for c in ast.walk(f) if isinstance(c, ast.Call) and isinstance(c.func, ast.Attribute) and c.func.attr == "load"
                     and isinstance(c.func.value, ast.Name) and c.func.value.id == "self")
    return n


def _census(root: Path):
    sites, inspect_sites = set(), set()
    for p in sorted(root.rglob("*.py")):
        rel = str(p.relative_to(root))
        tree = ast.parse(p.read_text())
        scopes = list(_functions(tree)) + [("<module>", ast.Module(body=[n for n in tree.body if not isinstance(n, (ast.FunctionDef, ast.ClassDef, ast.AsyncFunctionDef))], type_ignores=[]))]
        for q, f in scopes:
            for c in ast.walk(f):
                if not isinstance(c, ast.Call):
                    continue
                name = _callee(c)
                if name in EXEC_CALLEES:
                    sites.add((rel, q, name))
                if name == "compile" and isinstance(c.func, ast.Name):
                    flags = [k.value for k in c.keywords if k.arg == "flags"]
                    if not flags or "PyCF_ONLY_AST" not in ast.unparse(flags[0]):
                        sites.add((rel, q, "compile-without-PyCF_ONLY_AST"))
                if rel == "loader.py" and name in ("_inspect_module", "inspect"):
                    inspect_sites.add((rel, q, name))
    if sites != EXPECTED_SITES:
        raise TranslatorError(f"execution-capable call sites changed: new {sorted(sites - EXPECTED_SITES)}, gone {sorted(EXPECTED_SITES - sites)}")
    if inspect_sites != EXPECTED_INSPECT_SITES:
        raise TranslatorError(f"inspection call sites in loader.py changed: new {sorted(inspect_sites - EXPECTED_INSPECT_SITES)}, "
                              f"gone {sorted(EXPECTED_INSPECT_SITES - inspect_sites)}")
    return sites, inspect_sites



# ---------------------------------------------------------------- skeleton of the loader (which files are read / imported)
def _bool_over(t, names: dict, where: str) -> str:
    """boolean expression over a fixed set of names -> Coq"""
    if isinstance(t, ast.Name) and t.id in names:
        return names[t.id]
    if isinstance(t, ast.UnaryOp) and isinstance(t.op, ast.Not):
        return f"(negb {_bool_over(t.operand, names, where)})"
    if isinstance(t, ast.BoolOp):
        op = " && " if isinstance(t.op, ast.And) else " || "
        return "(" + op.join(_bool_over(v, names, where) for v in t.values) + ")"
    if isinstance(t, ast.Constant) and isinstance(t.value, bool):
        return "true" if t.value else "false"
    raise TranslatorError(f"{where}: test outside the whitelist: {ast.unparse(t)}")


def _skeleton(lt):
    out = {}
    # ---- _visit_module: the file is read (utf8) and the text handed to visit()
    f = _fn(lt, "GriffeLoader._visit_module")
    reads = [i for i, s in enumerate(f.body) if _contains_call(s, "read_text")]
    visits = [i for i, s in enumerate(f.body) if _contains_call(s, "visit")]
    if len(visits) != 1:
        raise TranslatorError("_visit_module: expected exactly one statement calling visit(...)")
    for i in reads:
        if "module_path.read_text" not in ast.unparse(f.body[i]):
            raise TranslatorError("_visit_module: reads something else than module_path")
    if any(_contains_call(s, c) for s in f.body for c in ("inspect", "dynamic_import", "import_module", "_inspect_module")):
        raise TranslatorError("_visit_module: reaches the inspector")
    out["visit_reads"] = bool(reads) and min(reads) < visits[0]
    if reads and not out["visit_reads"]:
        raise TranslatorError("_visit_module: the file is read after visit()")

    # ---- _inspect_module: statement order
    f = _fn(lt, "GriffeLoader._inspect_module")
    steps, needs_store, suffixes = [], None, None
    for s in f.body:
        src = ast.unparse(s)
        if isinstance(s, ast.Expr) and isinstance(s.value, ast.Constant):
            continue
        if isinstance(s, ast.For) and ast.unparse(s.iter) == "self.ignored_modules":
            steps.append("ISkipIgnored")
        elif isinstance(s, ast.If) and _contains_call(s, "read_text"):
            if s.orelse or len(s.body) != 1 or "filepath.read_text" not in ast.unparse(s.body[0]):
                raise TranslatorError("_inspect_module: the source-reading branch has an unexpected shape")
            conj = s.test.values if isinstance(s.test, ast.BoolOp) and isinstance(s.test.op, ast.And) else [s.test]
            needs_store, sfx = False, None
            for c in conj:
                cs = ast.unparse(c)
                if cs == "self.store_source":
                    needs_store = True
                elif cs == "filepath":
                    pass
                elif isinstance(c, ast.Compare) and len(c.ops) == 1 and isinstance(c.ops[0], ast.In) and ast.unparse(c.left) == "filepath.suffix" \
                        and isinstance(c.comparators[0], (ast.Set, ast.Tuple, ast.List)) \
                        and all(isinstance(e, ast.Constant) and isinstance(e.value, str) for e in c.comparators[0].elts):
                    sfx = sorted(e.value for e in c.comparators[0].elts)
                else:
                    raise TranslatorError(f"_inspect_module: source-reading test outside the whitelist: {cs}")
            if sfx is None:
                raise TranslatorError("_inspect_module: the source-reading test does not restrict the suffix")
            suffixes = sfx
            steps.append("IReadSource")
        elif isinstance(s, ast.Try) and _contains_call(ast.Module(body=s.body, type_ignores=[]), "inspect"):
            if len(s.body) != 1 or _contains_call(s, "read_text"):
                raise TranslatorError("_inspect_module: the try statement holds more than the inspect(...) call")
            steps.append("IInspect")
        elif any(_contains_call(s, c) for c in ("read_text", "inspect", "dynamic_import", "import_module", "open", "visit", "exec", "eval")):
            raise TranslatorError(f"_inspect_module: statement outside the whitelist: {src[:120]}")
    if steps.count("IInspect") != 1 or steps.count("IReadSource") > 1 or steps.count("ISkipIgnored") > 1:
        raise TranslatorError(f"_inspect_module: unexpected statement sequence {steps}")
    out["isteps"], out["needs_store"], out["read_suffixes"] = steps, bool(needs_store), suffixes or []

    # ---- _load_module_path after the ladder
    f = _fn(lt, "GriffeLoader._load_module_path")
    rec = [s for s in f.body if isinstance(s, ast.If) and _contains_call(s, "_load_submodules")]
    if len(rec) != 1 or rec[0].orelse or len(rec[0].body) != 1 or ast.unparse(rec[0].body[0]) != "self._load_submodules(module)":
        raise TranslatorError("_load_module_path: `if submodules: self._load_submodules(module)` not found")
    out["recurse"] = _bool_over(rec[0].test, {"submodules": "submodules"}, "_load_module_path")

    # ---- _load_submodules / _load_submodule: one level, no recursion below a submodule, orphans skipped
    f = _fn(lt, "GriffeLoader._load_submodules")
    body = [s for s in f.body if not (isinstance(s, ast.Expr) and isinstance(s.value, ast.Constant))]
    if not (len(body) == 1 and isinstance(body[0], ast.For) and ast.unparse(body[0].iter) == "self.finder.submodules(module)"
            and len(body[0].body) == 1 and ast.unparse(body[0].body[0]) == "self._load_submodule(module, subparts, subpath)"):
        raise TranslatorError("_load_submodules: not `for ... in self.finder.submodules(module): self._load_submodule(...)`")
    f = _fn(lt, "GriffeLoader._load_submodule")
    calls = [c for c in ast.walk(f) if isinstance(c, ast.Call) and _callee(c) == "_load_module"]
    if len(calls) != 1:
        raise TranslatorError("_load_submodule: expected exactly one self._load_module call")
    kws = {k.arg: k.value for k in calls[0].keywords}
    if not (isinstance(kws.get("submodules"), ast.Constant) and kws["submodules"].value is False):
        raise TranslatorError("_load_submodule: does not pass submodules=False (the model loads one level of submodules)")
    if "parent" not in kws:
        raise TranslatorError("_load_submodule: submodule loaded without parent")
    ptry = [n for n in f.body if isinstance(n, ast.Try) and _contains_call(ast.Module(body=n.body, type_ignores=[]), "_get_or_create_parent_module")]
    if len(ptry) != 1 or len(ptry[0].handlers) != 1 or ast.unparse(ptry[0].handlers[0].type) != "UnimportableModuleError" \
            or not isinstance(ptry[0].handlers[0].body[-1], ast.Return):
        raise TranslatorError("_load_submodule: a submodule without importable parent is no longer skipped")
    ltry = [n for n in f.body if isinstance(n, ast.Try) and _contains_call(ast.Module(body=n.body, type_ignores=[]), "_load_module")]
    if len(ltry) != 1 or f.body.index(ptry[0]) > f.body.index(ltry[0]):
        raise TranslatorError("_load_submodule: the parent lookup does not precede the load")

    # ---- _load_package: top module (with submodules), namespace packages stop there, wildcard expansion precedes the stubs
    f = _fn(lt, "GriffeLoader._load_package")
    body = [s for s in f.body if not (isinstance(s, ast.Expr) and isinstance(s.value, ast.Constant))]
    if not (len(body) == 4 and ast.unparse(body[0]) == "top_module = self._load_module(package.name, package.path, submodules=submodules)"
            and isinstance(body[1], ast.If) and ast.unparse(body[1].test) == "isinstance(package, NamespacePackage)"
            and len(body[1].body) == 1 and ast.unparse(body[1].body[0]) == "return top_module"
            and isinstance(body[2], ast.If) and ast.unparse(body[2].test) == "package.stubs" and not body[2].orelse
            and ast.unparse(body[3]) == "return top_module"):
        raise TranslatorError("_load_package: skeleton changed")
    sb = [ast.unparse(s) for s in body[2].body]
    want = ["self.expand_wildcards(top_module)", "submodules = submodules and package.stubs.parent != package.path.parent",
            "stubs = self._load_module(package.name, package.stubs, submodules=submodules)", "return merge_stubs(top_module, stubs)"]
    if sb != want:
        raise TranslatorError(f"_load_package: stubs branch changed: {sb}")
    return out


def _finder(ft):
    f = _fn(ft, "ModuleFinder.__init__")
    loops = [s for s in f.body if isinstance(s, ast.For)]
    if len(loops) != 1 or len(loops[0].body) != 1 or ast.unparse(loops[0].body[0]) != "self.append_search_path(Path(path))" \
            or ast.unparse(loops[0].target) != "path" or loops[0].orelse:
        raise TranslatorError("ModuleFinder.__init__: not `for path in ...: self.append_search_path(Path(path))` (every configured path is kept)")
    it = ast.unparse(loops[0].iter)
    if it == "search_paths or sys.path":
        default = True
    elif it == "search_paths or ()" or it == "search_paths or []":
        default = False
    else:
        raise TranslatorError(f"ModuleFinder.__init__: search paths taken from {it}")
    if any(isinstance(n, ast.Assign) and "search_paths" in ast.unparse(n.targets[0]) and ast.unparse(n) != "self.search_paths: list[Path] = []"
           and ast.unparse(n.targets[0]) == "self.search_paths" for n in ast.walk(f)):
        raise TranslatorError("ModuleFinder.__init__: self.search_paths assigned directly")
    f = _fn(ft, "ModuleFinder.append_search_path")
    body = [ast.unparse(s) for s in f.body if not (isinstance(s, ast.Expr) and isinstance(s.value, ast.Constant))]
    if body != ["path = path.resolve()", "if path not in self.search_paths:\n    self.search_paths.append(path)"]:
        raise TranslatorError("ModuleFinder.append_search_path: not `resolve; append unless already there`")
    for q, fn in _functions(ft):
        if q.startswith("ModuleFinder.") and q not in ("ModuleFinder.__init__", "ModuleFinder.append_search_path", "ModuleFinder.insert_search_path"):
            for n in ast.walk(fn):
                if isinstance(n, (ast.Assign, ast.AugAssign, ast.Delete)) and "self.search_paths" in ast.unparse(n).split("=")[0]:
                    raise TranslatorError(f"{q}: rebinds or deletes from self.search_paths")
                if isinstance(n, ast.Call) and isinstance(n.func, ast.Attribute) and ast.unparse(n.func.value) == "self.search_paths" \
                        and n.func.attr in ("remove", "pop", "clear"):
                    raise TranslatorError(f"{q}: removes search paths")
    return default


# ---------------------------------------------------------------- option forwarding of the public entry points
OPTS = ("allow_inspection", "force_inspection", "store_source", "submodules")


def _defaults(fn) -> dict:
    a = fn.args
    d = {}
    pos = a.posonlyargs + a.args
    for arg, dv in zip(pos[len(pos) - len(a.defaults):], a.defaults):
        d[arg.arg] = dv
    for arg, dv in zip(a.kwonlyargs, a.kw_defaults):
        if dv is not None:
            d[arg.arg] = dv
    return d


def _params(fn) -> set:
    a = fn.args
    return {x.arg for x in a.posonlyargs + a.args + a.kwonlyargs}


def _sym(value, fn, where):
    """argument expression -> ('param', name) | ('const', bool)"""
    if isinstance(value, ast.Name) and value.id in _params(fn):
        # the parameter must not be reassigned inside the caller
        for n in ast.walk(fn):
            if isinstance(n, (ast.Assign, ast.AugAssign, ast.AnnAssign)):
                tg = n.targets if isinstance(n, ast.Assign) else [n.target]
                if any(isinstance(t, ast.Name) and t.id == value.id for t in tg):
                    raise TranslatorError(f"{where}: parameter {value.id} is reassigned before being forwarded")
        return ("param", value.id)
    if isinstance(value, ast.Constant) and isinstance(value.value, bool):
        return ("const", value.value)
    raise TranslatorError(f"{where}: option value outside the whitelist: {ast.unparse(value)}")


def _call_opts(call, caller, callee_defaults, opts, where):
    """for each option of the callee: what the caller hands it"""
    if any(k.arg is None for k in call.keywords):
        raise TranslatorError(f"{where}: **kwargs in the call")
    kws = {k.arg: k.value for k in call.keywords}
    out = {}
    for o in opts:
        if o in kws:
            out[o] = _sym(kws[o], caller, where)
        elif o in callee_defaults and isinstance(callee_defaults[o], ast.Constant) and isinstance(callee_defaults[o].value, bool):
            out[o] = ("const", callee_defaults[o].value)
        else:
            raise TranslatorError(f"{where}: option {o} neither passed nor defaulted")
    return out


def _compose(inner: dict, outer_args: dict) -> dict:
    """inner: option -> value over the callee's parameters; outer_args: callee parameter -> value over the caller's parameters"""
    res = {}
    for o, v in inner.items():
        res[o] = v if v[0] == "const" else outer_args[v[1]]
    return res


def _calls_in(fn, name, attr_of=None):
    out = []
    for c in ast.walk(fn):
        if isinstance(c, ast.Call):
            if attr_of is None and isinstance(c.func, ast.Name) and c.func.id == name:
                out.append(c)
            elif attr_of is not None and isinstance(c.func, ast.Attribute) and c.func.attr == name and ast.unparse(c.func.value) == attr_of:
                out.append(c)
    return out


def _entries(lt, ct):
    init = _fn(lt, "GriffeLoader.__init__")
    meth = _fn(lt, "GriffeLoader.load")
    init_d, meth_d = _defaults(init), _defaults(meth)
    # the constructor stores the options as given
    for o, attr in (("allow_inspection", "allow_inspection"), ("force_inspection", "force_inspection"), ("store_source", "store_source")):
        st = [n for n in ast.walk(init) if isinstance(n, (ast.Assign, ast.AnnAssign)) and
              ast.unparse(n.targets[0] if isinstance(n, ast.Assign) else n.target) == f"self.{attr}"]
        if len(st) != 1 or ast.unparse(st[0].value) != o:
            raise TranslatorError(f"GriffeLoader.__init__: self.{attr} is not set from the parameter {o}")
    for q, fn in _functions(lt):
        if q.startswith("GriffeLoader.") and q != "GriffeLoader.__init__":
            for n in ast.walk(fn):
                if isinstance(n, (ast.Assign, ast.AugAssign, ast.AnnAssign)):
                    tg = n.targets if isinstance(n, ast.Assign) else [n.target]
                    if any(ast.unparse(t) in ("self.allow_inspection", "self.force_inspection", "self.store_source") for t in tg):
                        raise TranslatorError(f"{q}: rebinds an inspection option of the loader")
                if isinstance(n, ast.Call) and _callee(n) in ("setattr", "delattr", "__setattr__") and "inspection" in ast.unparse(n):
                    raise TranslatorError(f"{q}: sets an inspection option of the loader through setattr")
                if isinstance(n, ast.Delete) and any("inspection" in ast.unparse(t) for t in n.targets):
                    raise TranslatorError(f"{q}: deletes an inspection option of the loader")

    def loader_and_load(fn, where, loader_name="loader"):
        """a function that builds one GriffeLoader and calls .load on it -> option -> value over fn's parameters"""
        cs = _calls_in(fn, "GriffeLoader")
        ls = _calls_in(fn, "load", loader_name)
        if len(cs) != 1 or len(ls) != 1:
            raise TranslatorError(f"{where}: expected one GriffeLoader(...) and one {loader_name}.load(...), found {len(cs)} / {len(ls)}")
        if cs[0].args:
            raise TranslatorError(f"{where}: positional arguments to GriffeLoader")
        a = _call_opts(cs[0], fn, init_d, ("allow_inspection", "force_inspection", "store_source"), where + ": GriffeLoader(...)")
        a.update(_call_opts(ls[0], fn, meth_d, ("submodules",), where + ": loader.load(...)"))
        return a, ls[0]

    res, catches = {}, {}
    f_load = _fn(lt, "load")
    m_load, _ = loader_and_load(f_load, "load")
    res["ELoad"] = m_load
    load_d = _defaults(f_load)

    def via(fn, call, callee_fn, callee_map, where):
        args = _call_opts(call, fn, _defaults(callee_fn), [p for p in OPTS if p in _params(callee_fn)], where)
        # options of the callee's own mapping that refer to parameters the callee does not have cannot occur
        return _compose(callee_map, args)

    f_git = _fn(lt, "load_git")
    cs = _calls_in(f_git, "load")
    if len(cs) != 1:
        raise TranslatorError(f"load_git: expected one load(...) call, found {len(cs)}")
    m_git = via(f_git, cs[0], f_load, m_load, "load_git: load(...)")
    res["ELoadGit"] = m_git

    f_lp = _fn(ct, "_load_packages")
    m_lp, lcall = loader_and_load(f_lp, "_load_packages")
    tr = [n for n in ast.walk(f_lp) if isinstance(n, ast.Try) and any(c is lcall for b in n.body for c in ast.walk(b))]
    if len(tr) != 1 or tr[0].finalbody or tr[0].orelse:
        raise TranslatorError("_load_packages: loader.load is not inside one try statement")
    caught = []
    for h in tr[0].handlers:
        _no_reraise(h, "_load_packages")
        caught += _handler_types(h)
    f_dump = _fn(ct, "dump")
    cs = _calls_in(f_dump, "_load_packages")
    if len(cs) != 1:
        raise TranslatorError("dump: expected one _load_packages(...) call")
    res["EDump"] = via(f_dump, cs[0], f_lp, m_lp, "dump: _load_packages(...)")
    catches["EDump"] = sorted(set(caught))

    f_check = _fn(ct, "check")
    gits = _calls_in(f_check, "load_git")
    loads = _calls_in(f_check, "load")
    if len(gits) != 2 or len(loads) != 1:
        raise TranslatorError(f"check: expected two load_git(...) and one load(...) calls, found {len(gits)} / {len(loads)}")
    target = {}
    for n in ast.walk(f_check):
        if isinstance(n, ast.Assign) and isinstance(n.value, ast.Call) and len(n.targets) == 1 and isinstance(n.targets[0], ast.Name):
            target[id(n.value)] = n.targets[0].id
    old = [c for c in gits if target.get(id(c)) == "old_package"]
    new_ref = [c for c in gits if target.get(id(c)) == "new_package"]
    if len(old) != 1 or len(new_ref) != 1 or target.get(id(loads[0])) != "new_package":
        raise TranslatorError("check: the loads are not assigned to old_package / new_package as expected")
    res["ECheckOld"] = via(f_check, old[0], f_git, m_git, "check: load_git(old)")
    res["ECheckNewRef"] = via(f_check, new_ref[0], f_git, m_git, "check: load_git(new)")
    res["ECheckNewTree"] = via(f_check, loads[0], f_load, m_load, "check: load(new)")
    # no try statement swallows anything around the loads of load / load_git / check
    for fn, nm in ((f_load, "load"), (f_git, "load_git"), (f_check, "check")):
        for n in ast.walk(fn):
            if isinstance(n, ast.Try) and any(isinstance(c, ast.Call) and _callee(c) in ("load", "load_git") for b in n.body for c in ast.walk(b)):
                raise TranslatorError(f"{nm}: a try statement now surrounds a load")
    # the command line: -X clears allow_inspection (default True), -x sets force_inspection (default False); main passes the namespace on
    gp = _fn(ct, "get_parser")
    seen = {}
    for c in ast.walk(gp):
        if isinstance(c, ast.Call) and _callee(c) == "add_argument":
            kws = {k.arg: k.value for k in c.keywords}
            d = kws.get("dest")
            if isinstance(d, ast.Constant) and d.value in ("allow_inspection", "force_inspection"):
                seen[d.value] = (ast.unparse(kws.get("action")), ast.unparse(kws.get("default")))
    if seen != {"allow_inspection": ("'store_false'", "True"), "force_inspection": ("'store_true'", "False")}:
        raise TranslatorError(f"get_parser: inspection flags changed: {seen}")
    mn = _fn(ct, "main")
    if "commands[subcommand](**opts_dict)" not in ast.unparse(mn) or "'check': check, 'dump': dump" not in ast.unparse(mn):
        raise TranslatorError("main: the parsed options are no longer passed to check / dump as they are")
    return res, catches


def _entry_defs(res, catches):
    order = ["ELoad", "ELoadGit", "EDump", "ECheckOld", "ECheckNewRef", "ECheckNewTree"]
    arg = {"allow_inspection": "allow", "force_inspection": "force", "store_source": "store", "submodules": "submodules"}
    lines = []
    for o, fname in (("allow_inspection", "entry_allow"), ("force_inspection", "entry_force"), ("store_source", "entry_store"), ("submodules", "entry_submodules")):
        cases = []
        for e in order:
            v = res[e][o]
            if v[0] == "const":
                cases.append(f"{e} => {'true' if v[1] else 'false'}")
            elif v[1] == o:
                cases.append(f"{e} => {arg[o]}")
            else:
                raise TranslatorError(f"{e}: {o} is fed from the parameter {v[1]}")
        lines.append(f"Definition {fname} (ep : entry) ({arg[o]} : bool) : bool :=\n  match ep with " + " | ".join(cases) + " end.")
    lines.append("Definition entry_catches (ep : entry) : list string :=\n  match ep with " +
                 " | ".join(f"{e} => {_strlist(catches.get(e, []))}" for e in order) + " end.")
    return lines


def translate(ctx=None) -> Path:
    src = REPO / "src/_griffe"
    sites, inspect_sites = _census(src)
    lt = ast.parse((src / "loader.py").read_text())
    it = ast.parse((src / "importer.py").read_text())
    ft = ast.parse((src / "finder.py").read_text())
    ct = ast.parse((src / "cli.py").read_text())
    skel = _skeleton(lt)
    finder_default = _finder(ft)
    entry_lines = _entry_defs(*_entries(lt, ct))

    # ---- _load_module_path ladder
    f = _fn(lt, "GriffeLoader._load_module_path")
    ifs = [s for s in f.body if isinstance(s, ast.If)]
    if not ifs or _ladder_test(ifs[0].test) != "is_list":
        raise TranslatorError("_load_module_path: the agent-selection ladder is not the first if statement")
    ladder = _ladder(ifs[0])
    # the rest of the function must not load through any other agent
    for s in f.body:
        if s is not ifs[0] and any(_contains_call(s, c) for c in ("_inspect_module", "_visit_module", "inspect", "visit", "dynamic_import")):
            raise TranslatorError("_load_module_path: an agent is called outside the ladder")

    # ---- load(): the not-found branch
    f = _fn(lt, "GriffeLoader.load")
    tries = [s for s in f.body if isinstance(s, ast.Try) and _contains_call(ast.Module(body=s.body, type_ignores=[]), "find_spec")]
    if len(tries) != 1 or len(tries[0].handlers) != 1 or _handler_types(tries[0].handlers[0]) != ["ModuleNotFoundError"]:
        raise TranslatorError("load: try/except ModuleNotFoundError around find_spec not found")
    h = tries[0].handlers[0]
    guard = None
    seen_import = False
    for s in h.body:
        if isinstance(s, ast.If) and len(s.body) == 1 and isinstance(s.body[0], ast.Raise) and s.body[0].exc is None and not s.orelse:
            if seen_import or guard is not None:
                raise TranslatorError("load: unexpected position of the bare re-raise")

            def t(e):
                if isinstance(e, ast.UnaryOp) and isinstance(e.op, ast.Not):
                    return f"(negb {t(e.operand)})"
                if isinstance(e, ast.BoolOp):
                    return "(" + (" && " if isinstance(e.op, ast.And) else " || ").join(t(v) for v in e.values) + ")"
                if isinstance(e, ast.Attribute) and isinstance(e.value, ast.Name) and e.value.id == "self" and e.attr in ("allow_inspection", "force_inspection"):
                    return "allow" if e.attr == "allow_inspection" else "force"
                raise TranslatorError(f"load: re-raise guard outside the whitelist: {ast.unparse(e)}")
            guard = t(s.test)
        elif _contains_call(s, "dynamic_import") or _contains_call(s, "_inspect_module") or _contains_call(s, "import_module"):
            seen_import = True
            if guard is None:
                raise TranslatorError("load: the not-found branch imports before testing allow/force")
    if guard is None:
        raise TranslatorError("load: no `if not (allow or force): raise` in the not-found branch")
    if not seen_import:
        raise TranslatorError("load: the not-found branch no longer imports the top-level module")
    # no other dynamic_import / _inspect_module in load outside that handler
    for s in f.body:
        if s is not tries[0] and (_contains_call(s, "dynamic_import") or _contains_call(s, "_inspect_module")):
            raise TranslatorError("load: dynamic import outside the ModuleNotFoundError branch")
    if any(_contains_call(b, "dynamic_import") or _contains_call(b, "_inspect_module") for b in tries[0].body):
        raise TranslatorError("load: dynamic import inside the try body")

    # ---- _load_module: wrap table
    f = _fn(lt, "GriffeLoader._load_module")
    tr = [s for s in f.body if isinstance(s, ast.Try)]
    if len(tr) != 1 or len(f.body) != 1 or tr[0].finalbody or tr[0].orelse or not _contains_call(ast.Module(body=tr[0].body, type_ignores=[]), "_load_module_path"):
        raise TranslatorError("_load_module: expected a single try statement around _load_module_path")
    wraps = []
    for hd in tr[0].handlers:
        if len(hd.body) != 1:
            raise TranslatorError("_load_module: handler with more than one statement")
        wraps.append((_handler_types(hd), _raised(hd.body[0])))

    # ---- _inspect_module
    f = _fn(lt, "GriffeLoader._inspect_module")
    tr = [s for s in f.body if isinstance(s, ast.Try)]
    if len(tr) != 1 or tr[0].finalbody or not _contains_call(ast.Module(body=tr[0].body, type_ignores=[]), "inspect"):
        raise TranslatorError("_inspect_module: expected a single try statement around inspect(...)")
    iwraps = []
    for hd in tr[0].handlers:
        if len(hd.body) != 1:
            raise TranslatorError("_inspect_module: handler with more than one statement")
        iwraps.append((_handler_types(hd), _raised(hd.body[0])))
    # for prefix in self.ignored_modules: if module_name.startswith(prefix): raise ImportError
    fors = [s for s in f.body if isinstance(s, ast.For)]
    ign_exn = None
    if len(fors) == 1 and ast.unparse(fors[0].iter) == "self.ignored_modules" and len(fors[0].body) == 1 and isinstance(fors[0].body[0], ast.If) \
            and ast.unparse(fors[0].body[0].test) == "module_name.startswith(prefix)" and len(fors[0].body[0].body) == 1:
        ign_exn = _raised(fors[0].body[0].body[0])
        if f.body.index(fors[0]) > f.body.index(tr[0]):
            raise TranslatorError("_inspect_module: ignored-module test after inspect")
    elif fors:
        raise TranslatorError("_inspect_module: unexpected for statement")
    ignored = []
    cls = [n for n in lt.body if isinstance(n, ast.ClassDef) and n.name == "GriffeLoader"][0]
    for s in cls.body:
        if isinstance(s, ast.AnnAssign) and isinstance(s.target, ast.Name) and s.target.id == "ignored_modules":
            if not (isinstance(s.value, ast.Set) and all(isinstance(e, ast.Constant) and isinstance(e.value, str) for e in s.value.elts)):
                raise TranslatorError("ignored_modules is not a set of string literals")
            ignored = sorted(e.value for e in s.value.elts)
    if ign_exn is None:
        ignored = []
        ign_exn = "XImportError"

    # ---- _load_submodule
    f = _fn(lt, "GriffeLoader._load_submodule")
    tr = [n for n in ast.walk(f) if isinstance(n, ast.Try) and _contains_call(ast.Module(body=n.body, type_ignores=[]), "_load_module")]
    if len(tr) != 1 or len(tr[0].handlers) != 1 or tr[0].finalbody:
        raise TranslatorError("_load_submodule: try around self._load_module not found")
    _no_reraise(tr[0].handlers[0], "_load_submodule")
    sub_catches = sorted(_handler_types(tr[0].handlers[0]))

    # ---- re-entry: resolve_module_aliases / expand_wildcards
    fa = _fn(lt, "GriffeLoader.resolve_module_aliases")
    a_catch, a_trp, a_try = _reentry_try(fa, "resolve_module_aliases")
    gates = [n for n in ast.walk(fa) if isinstance(n, ast.Assign) and len(n.targets) == 1 and isinstance(n.targets[0], ast.Name) and n.targets[0].id == "load_module"]
    if len(gates) != 1:
        raise TranslatorError("resolve_module_aliases: `load_module = ...` not found")
    a_gate = _gate(gates[0].value, {})
    guards = [n for n in ast.walk(fa) if isinstance(n, ast.If) and a_try in n.body]
    if len(guards) != 1 or ast.unparse(guards[0].test) != "load_module":
        raise TranslatorError("resolve_module_aliases: self.load is not guarded by `if load_module:`")
    fw = _fn(lt, "GriffeLoader.expand_wildcards")
    w_catch, w_trp, w_try = _reentry_try(fw, "expand_wildcards")
    nl = [n for n in ast.walk(fw) if isinstance(n, ast.Assign) and len(n.targets) == 1 and isinstance(n.targets[0], ast.Name) and n.targets[0].id == "not_loaded"]
    if len(nl) != 1:
        raise TranslatorError("expand_wildcards: `not_loaded = ...` not found")
    w_notloaded = _gate(nl[0].value, {})
    guards = [n for n in ast.walk(fw) if isinstance(n, ast.If) and w_try in n.body]
    if len(guards) != 1 or ast.unparse(guards[0].test) != "not_loaded" or len(guards[0].body) < 2 or guards[0].body[1] is not w_try:
        raise TranslatorError("expand_wildcards: self.load is not guarded by `if not_loaded:` (skip test; try)")
    for extra in guards[0].body[2:]:
        # after the load: only `if <test>: continue` (the loaded package's own wildcards led back here), nothing that loads or raises
        if not (isinstance(extra, ast.If) and not extra.orelse and len(extra.body) == 1 and isinstance(extra.body[0], ast.Continue)
                and not any(isinstance(n, ast.Call) and _callee(n) in ("load", "_load_package", "_load_module", "dynamic_import", "_inspect_module")
                            for n in ast.walk(extra))):
            raise TranslatorError(f"expand_wildcards: unexpected statement after the re-entrant load: {ast.unparse(extra)[:120]}")
    sk = guards[0].body[0]
    if not (isinstance(sk, ast.If) and len(sk.body) == 1 and isinstance(sk.body[0], ast.Continue) and not sk.orelse):
        raise TranslatorError("expand_wildcards: expected `if <external test>: continue` before self.load")
    w_skip = _gate(sk.test, {})
    if a_catch != w_catch or a_trp != w_trp:
        raise TranslatorError("the two re-entry sites differ in handlers or try_relative_path")
    # ---- resolve_aliases: the schedule of wildcard sweeps (replayed by the harness to predict the re-entrant loads)
    fr_ = _fn(lt, "GriffeLoader.resolve_aliases")
    inner = [n for n in fr_.body if isinstance(n, ast.FunctionDef) and n.name == "expand_all_wildcards"]
    if len(inner) != 1:
        raise TranslatorError("resolve_aliases: local expand_all_wildcards() not found (the wildcard sweep schedule changed)")
    sweep = [n for n in inner[0].body if isinstance(n, ast.While)]
    if len(sweep) != 1 or "len(collection)" not in ast.unparse(sweep[0].test) or "wildcards_left" not in ast.unparse(sweep[0].test) \
            or "self.expand_wildcards(wildcards_module, external=external)" not in ast.unparse(sweep[0]):
        raise TranslatorError("resolve_aliases: expand_all_wildcards no longer sweeps until (packages loaded, wildcard imports left) is stable")
    loops = [n for n in fr_.body if isinstance(n, ast.While)]
    if len(loops) != 1:
        raise TranslatorError("resolve_aliases: expected one resolution loop")
    body_src = [ast.unparse(x) for x in loops[0].body]
    if "progress = bool(resolved) or len(collection) != loaded_modules" not in body_src \
            or "if progress:\n    expand_all_wildcards()" not in body_src:
        raise TranslatorError("resolve_aliases: the sweep is no longer re-run exactly after iterations with progress (resolved aliases or loaded packages)")
    calls = sum(1 for n in ast.walk(fr_) if isinstance(n, ast.Call) and isinstance(n.func, ast.Name) and n.func.id == "expand_all_wildcards")
    if calls != 2:
        raise TranslatorError(f"resolve_aliases: expand_all_wildcards is called at {calls} places (expected: before the loop, after an iteration with progress)")
    n_loads = _all_self_load_calls(lt)
    if n_loads != 2:
        raise TranslatorError(f"GriffeLoader calls self.load at {n_loads} sites (expected the two re-entry sites)")

    # ---- importer.sys_path
    f = _fn(it, "sys_path")
    # the binding found on entry is saved in the frame of the context manager (so that nested uses form a stack):
    # no global / nonlocal name, no attribute or subscript as the place where it is kept
    if any(isinstance(n, (ast.Global, ast.Nonlocal)) for n in ast.walk(f)):
        raise TranslatorError("sys_path: keeps state in a global / nonlocal name (nested uses would overwrite each other's saved sys.path)")
    for n in ast.walk(f):
        if isinstance(n, (ast.Assign, ast.AugAssign, ast.AnnAssign)):
            for tg in (n.targets if isinstance(n, ast.Assign) else [n.target]):
                if not isinstance(tg, ast.Name) and ast.unparse(tg) != "sys.path":
                    raise TranslatorError(f"sys_path: assigns to {ast.unparse(tg)} (the saved sys.path must be a local variable)")
    body = [s for s in f.body if not (isinstance(s, ast.Expr) and isinstance(s.value, ast.Constant))]
    noop = False
    if body and isinstance(body[0], ast.If) and ast.unparse(body[0].test) == "not paths":
        b0 = body[0].body
        if not (len(b0) == 2 and isinstance(b0[0], ast.Expr) and isinstance(b0[0].value, ast.Yield) and isinstance(b0[1], ast.Return) and not body[0].orelse):
            raise TranslatorError("sys_path: early branch is not `yield; return`")
        noop = True
        body = body[1:]
    if len(body) < 3 or ast.unparse(body[0]) != "old_path = sys.path" or not (
            isinstance(body[1], ast.Assign) and ast.unparse(body[1].targets[0]) == "sys.path" and isinstance(body[1].value, (ast.ListComp, ast.List, ast.Call))):
        raise TranslatorError("sys_path: expected `old_path = sys.path; sys.path = [...]`")
    if "paths" not in ast.unparse(body[1].value):
        raise TranslatorError("sys_path: the temporary sys.path is not built from `paths`")
    rest = body[2:]
    is_yield = lambda s: isinstance(s, ast.Expr) and isinstance(s.value, ast.Yield) and s.value.value is None
    is_restore = lambda s: ast.unparse(s) == "sys.path = old_path"
    if len(rest) == 1 and isinstance(rest[0], ast.Try) and not rest[0].handlers and not rest[0].orelse \
            and len(rest[0].body) == 1 and is_yield(rest[0].body[0]) and len(rest[0].finalbody) == 1 and is_restore(rest[0].finalbody[0]):
        restores_exc = True
    elif len(rest) == 2 and is_yield(rest[0]) and is_restore(rest[1]):
        restores_exc = False
    else:
        raise TranslatorError("sys_path: body after the rebinding is neither `try: yield finally: restore` nor `yield; restore`")

    # ---- importer.dynamic_import
    f = _fn(it, "dynamic_import")
    withs = [s for s in f.body if isinstance(s, ast.With)]
    if len(withs) != 1 or len(withs[0].items) != 1 or not _contains_call(withs[0].items[0].context_expr, "sys_path"):
        raise TranslatorError("dynamic_import: `with sys_path(...)` not found")
    if "import_paths" not in ast.unparse(withs[0].items[0].context_expr):
        raise TranslatorError("dynamic_import: sys_path(...) is not given import_paths")
    for s in f.body:
        if s is not withs[0] and (_contains_call(s, "import_module") or _contains_call(s, "getattr")):
            raise TranslatorError("dynamic_import: import or getattr outside `with sys_path`")
    wb = withs[0].body
    if not (len(wb) == 3 and isinstance(wb[0], ast.While) and ast.unparse(wb[0].test) == "module_parts" and isinstance(wb[2], ast.For)):
        raise TranslatorError("dynamic_import: expected while/assign/for inside the with block")
    wl = wb[0]
    if not (len(wl.body) == 2 and isinstance(wl.body[1], ast.Try) and len(wl.body[1].handlers) == 1 and len(wl.body[1].orelse) == 1
            and isinstance(wl.body[1].orelse[0], ast.Break) and _contains_call(ast.Module(body=wl.body[1].body, type_ignores=[]), "import_module")
            and not wl.body[1].finalbody):
        raise TranslatorError("dynamic_import: while body is not `module_path = ...; try: import_module except: ... else: break`")
    hd = wl.body[1].handlers[0]
    _no_reraise(hd, "dynamic_import import handler")
    if "module_parts.pop(-1)" not in ast.unparse(hd) or "object_parts.insert(0" not in ast.unparse(hd):
        raise TranslatorError("dynamic_import: handler does not move the last module part to the object parts")
    imp_catch = sorted(_handler_types(hd))
    if len(wl.orelse) != 1:
        raise TranslatorError("dynamic_import: while-else is not a single raise")
    exhausted = _raised(wl.orelse[0])
    fr = wb[2]
    if not (len(fr.body) == 1 and isinstance(fr.body[0], ast.Try) and len(fr.body[0].handlers) == 1 and not fr.body[0].finalbody
            and _contains_call(ast.Module(body=fr.body[0].body, type_ignores=[]), "getattr")):
        raise TranslatorError("dynamic_import: for body is not `try: getattr except: raise`")
    gh = fr.body[0].handlers[0]
    get_catch = sorted(_handler_types(gh))
    if not isinstance(gh.body[-1], ast.Raise):
        raise TranslatorError("dynamic_import: getattr handler does not end with raise")
    get_raises = _raised(gh.body[-1])

    def clauses(ws):
        return "[" + "; ".join(f"({_strlist(sorted(hs))}, {x})" for hs, x in ws) + "]"

    out = [
        "(* GENERATED by harness/translate/c15_ladder.py from /repo/src/_griffe/{loader,importer,finder,cli}.py -- do not edit *)",
        "From Coq Require Import List String Bool.", "From Verif Require Import Model.C15_base.", "Import ListNotations.",
        "Open Scope string_scope.", "Open Scope list_scope.", "",
        "(* GriffeLoader._load_module_path: which agent gets a module path *)",
        "Definition agent_ladder (is_list force allow : bool) (suffix : string) : agent :=", ladder + ".", "",
        "(* GriffeLoader.load, `except ModuleNotFoundError`: re-raise instead of importing the top-level module *)",
        f"Definition not_found_reraises (allow force : bool) : bool := {guard}.", "",
        "(* GriffeLoader._load_module: except clauses, each re-raising *)",
        f"Definition load_module_handlers : list (list string * exn) := {clauses(wraps)}.", "",
        "(* GriffeLoader._inspect_module *)",
        f"Definition ignored_prefixes : list string := {_strlist(ignored)}.",
        f"Definition ignored_raises : exn := {ign_exn}.",
        f"Definition inspect_module_handlers : list (list string * exn) := {clauses(iwraps)}.", "",
        "(* GriffeLoader._load_submodule: what is logged and skipped *)",
        f"Definition load_submodule_catches : list string := {_strlist(sub_catches)}.", "",
        "(* re-entry into load from alias resolution / wildcard expansion *)",
        "Definition ext_is (e v : option bool) : bool :=",
        "  match e, v with None, None => true | Some a, Some b => Bool.eqb a b | _, _ => false end.",
        "Definition alias_reentry_gate (external : option bool) (sibling failed same_pkg loaded : bool) : bool :=", f"  {a_gate}.",
        "Definition wildcard_not_loaded (same_pkg loaded : bool) : bool :=", f"  {w_notloaded}.",
        "Definition wildcard_reentry_skip (external : option bool) (sibling : bool) : bool :=", f"  {w_skip}.",
        f"Definition reentry_catches : list string := {_strlist(a_catch)}.",
        f"Definition reentry_try_relative_path : bool := {'true' if a_trp else 'false'}.", "",
        "(* importer.sys_path *)",
        f"Definition sys_path_noop_when_empty : bool := {'true' if noop else 'false'}.",
        f"Definition sys_path_restores_on_exception : bool := {'true' if restores_exc else 'false'}.", "",
        "(* importer.dynamic_import *)",
        f"Definition import_attempt_catches : list string := {_strlist(imp_catch)}.",
        f"Definition exhausted_raises : exn := {exhausted}.",
        f"Definition getattr_catches : list string := {_strlist(get_catch)}.",
        f"Definition getattr_raises : exn := {get_raises}.", "",
        "(* GriffeLoader._visit_module / _inspect_module: which files the loader itself reads, and in which order *)",
        f"Definition visit_reads_source : bool := {'true' if skel['visit_reads'] else 'false'}.",
        f"Definition inspect_module_steps : list istep := [{'; '.join(skel['isteps'])}].",
        f"Definition inspect_read_needs_store : bool := {'true' if skel['needs_store'] else 'false'}.",
        f"Definition inspect_reads_suffixes : list string := {_strlist(skel['read_suffixes'])}.", "",
        "(* GriffeLoader._load_module_path after the ladder: `if <test>: self._load_submodules(module)` *)",
        f"Definition recurse_submodules (submodules : bool) : bool := {skel['recurse']}.", "",
        "(* ModuleFinder.__init__: `for path in search_paths or sys.path` *)",
        f"Definition finder_defaults_to_sys_path : bool := {'true' if finder_default else 'false'}.", "",
        "(* what each public entry point hands down to GriffeLoader(...) / GriffeLoader.load(...) *)",
        *entry_lines, "",
        f"(* census: {len(sites)} execution-capable call sites and {len(inspect_sites)} inspection call sites, all whitelisted *)", "",
    ]
    p = VERIF / "coq/Gen/C15_ladder.v"
    text = "\n".join(out)
    if not p.exists() or p.read_text() != text:
        p.write_text(text)
    return p


if __name__ == "__main__":
    print(translate().read_text())
