"""(T) translator for C09: regenerates coq/Gen/C09_schema.v from /repo/docs/schema.json and the enumerations the
encoder emits (/repo/src/_griffe/enumerations.py: Kind, ParameterKind, DocstringSectionKind).

Fail closed: any JSON-schema keyword outside the whitelist, any non-string const/enum value, any `$ref` with
non-annotation siblings, any unresolvable `$ref`, any `$schema` other than draft-07 raises TranslatorError.

Whitelist (exactly the keywords docs/schema.json uses): type (name or list of names), const, enum, properties, required,
additionalProperties, items (single schema), oneOf, allOf, if+then (no else), $ref to "#" or "#/$defs/<name>", boolean
schemas, and the annotations title / markdownDescription / description (ignored). `$schema` and `$defs` only at the root.
"""
from __future__ import annotations

import ast
import json
from pathlib import Path

from harness.common.framework import REPO, VERIF, TranslatorError

ANNOTATIONS = {"title", "markdownDescription", "description", "$comment"}
KEYWORDS = {"type", "const", "enum", "properties", "required", "additionalProperties", "items", "oneOf", "allOf", "if", "then", "$ref"}
TYPES = {"null": "TNull", "boolean": "TBoolean", "integer": "TInteger", "number": "TNumber", "string": "TString", "array": "TArray", "object": "TObject"}
DRAFT7 = {"http://json-schema.org/draft-07/schema", "http://json-schema.org/draft-07/schema#"}


def coq_string(s: str) -> str:
    if not isinstance(s, str):
        raise TranslatorError(f"expected a string, got {s!r}")
    if not all(32 <= ord(c) <= 126 for c in s):
        raise TranslatorError(f"non-printable or non-ASCII string in schema: {s!r}")
    return '"' + s.replace('"', '""') + '"'


def coq_list(items) -> str:
    return "[" + "; ".join(items) + "]"


class Tr:
    def __init__(self, defs):
        self.defs = defs
        self.refs = set()
        self.keywords = set()

    def schema(self, node, where: str, root: bool = False) -> str:
        if node is True:
            return "(SBool true)"
        if node is False:
            return "(SBool false)"
        if not isinstance(node, dict):
            raise TranslatorError(f"{where}: schema is neither an object nor a boolean: {node!r}")
        keys = set(node)
        if root:
            keys -= {"$schema", "$defs"}
        unknown = keys - KEYWORDS - ANNOTATIONS
        if unknown:
            raise TranslatorError(f"{where}: keyword(s) outside the modelled subset: {sorted(unknown)}")
        kw = keys & KEYWORDS
        self.keywords |= kw
        if "$ref" in kw:
            if kw != {"$ref"}:
                raise TranslatorError(f"{where}: $ref with sibling keywords {sorted(kw - {'$ref'})} (draft-07 ignores them; refusing to guess)")
            r = node["$ref"]
            if r == "#":
                pass
            elif isinstance(r, str) and r.startswith("#/$defs/") and r[len("#/$defs/"):] in self.defs:
                pass
            else:
                raise TranslatorError(f"{where}: unresolvable or unsupported $ref {r!r}")
            self.refs.add(r)
            return f"(SRef {coq_string(r)})"
        # type
        if "type" in node:
            t = node["type"]
            ts = t if isinstance(t, list) else [t]
            for x in ts:
                if x not in TYPES:
                    raise TranslatorError(f"{where}: unknown type name {x!r}")
            ty = "(Some " + coq_list(TYPES[x] for x in ts) + ")"
        else:
            ty = "None"
        cst = "None"
        if "const" in node:
            cst = f"(Some {coq_string(node['const'])})"
        enm = "None"
        if "enum" in node:
            if not isinstance(node["enum"], list):
                raise TranslatorError(f"{where}: enum is not a list")
            enm = "(Some " + coq_list(coq_string(x) for x in node["enum"]) + ")"
        props = "[]"
        if "properties" in node:
            if not isinstance(node["properties"], dict):
                raise TranslatorError(f"{where}: properties is not an object")
            props = coq_list(f"({coq_string(k)}, {self.schema(v, where + '/properties/' + k)})" for k, v in node["properties"].items())
        req = "[]"
        if "required" in node:
            if not isinstance(node["required"], list):
                raise TranslatorError(f"{where}: required is not a list")
            req = coq_list(coq_string(k) for k in node["required"])
        addl = "None"
        if "additionalProperties" in node:
            addl = f"(Some {self.schema(node['additionalProperties'], where + '/additionalProperties')})"
        items = "None"
        if "items" in node:
            if isinstance(node["items"], list):
                raise TranslatorError(f"{where}: tuple-form items is outside the modelled subset")
            items = f"(Some {self.schema(node['items'], where + '/items')})"
        oneof = "None"
        if "oneOf" in node:
            if not isinstance(node["oneOf"], list) or not node["oneOf"]:
                raise TranslatorError(f"{where}: oneOf is not a non-empty list")
            oneof = "(Some " + coq_list(self.schema(v, f"{where}/oneOf/{i}") for i, v in enumerate(node["oneOf"])) + ")"
        allof = "[]"
        if "allOf" in node:
            if not isinstance(node["allOf"], list) or not node["allOf"]:
                raise TranslatorError(f"{where}: allOf is not a non-empty list")
            allof = coq_list(self.schema(v, f"{where}/allOf/{i}") for i, v in enumerate(node["allOf"]))
        cond = "None"
        if ("if" in node) != ("then" in node):
            raise TranslatorError(f"{where}: `if` without `then` (or the reverse) is outside the modelled subset")
        if "if" in node:
            cond = f"(Some ({self.schema(node['if'], where + '/if')}, {self.schema(node['then'], where + '/then')}))"
        return f"(SNode {ty} {cst} {enm}\n  {props}\n  {req} {addl} {items}\n  {oneof}\n  {allof}\n  {cond})"


def enum_values(tree, cls: str) -> list[str]:
    nodes = [n for n in tree.body if isinstance(n, ast.ClassDef) and n.name == cls]
    if len(nodes) != 1:
        raise TranslatorError(f"enumeration {cls} not found in enumerations.py")
    bases = [ast.unparse(b) for b in nodes[0].bases]
    if bases != ["str", "Enum"]:
        raise TranslatorError(f"enumeration {cls} is no longer a (str, Enum): {bases} (its JSON encoding would change)")
    out = []
    for st in nodes[0].body:
        if isinstance(st, ast.Expr) and isinstance(st.value, ast.Constant) and isinstance(st.value.value, str):
            continue  # docstring
        if isinstance(st, ast.Assign) and len(st.targets) == 1 and isinstance(st.targets[0], ast.Name) \
                and isinstance(st.value, ast.Constant) and isinstance(st.value.value, str):
            out.append(st.value.value)
            continue
        raise TranslatorError(f"unexpected statement in enumeration {cls}: {ast.unparse(st)[:80]}")
    if not out:
        raise TranslatorError(f"enumeration {cls} has no members")
    return out


def translate(ctx=None) -> Path:
    try:
        doc = json.loads((REPO / "docs/schema.json").read_text())
    except (OSError, ValueError) as e:
        raise TranslatorError(f"cannot read docs/schema.json: {e}") from e
    if not isinstance(doc, dict):
        raise TranslatorError("schema root is not an object")
    if doc.get("$schema") not in DRAFT7:
        raise TranslatorError(f"$schema is {doc.get('$schema')!r}; only draft-07 semantics are modelled")
    defs = doc.get("$defs", {})
    if not isinstance(defs, dict):
        raise TranslatorError("$defs is not an object")
    tr = Tr(defs)
    root = tr.schema(doc, "#", root=True)
    dlist = [f"({coq_string(k)}, {tr.schema(v, '#/$defs/' + k)})" for k, v in defs.items()]
    tree = ast.parse((REPO / "src/_griffe/enumerations.py").read_text())
    kinds = enum_values(tree, "Kind")
    pkinds = enum_values(tree, "ParameterKind")
    skinds = enum_values(tree, "DocstringSectionKind")
    out = ["(* GENERATED by harness/translate/c09_schema.py from /repo/docs/schema.json and /repo/src/_griffe/enumerations.py -- do not edit *)",
           "From Coq Require Import List String.", "From Verif Require Import Model.C09_json.", "Import ListNotations.",
           "Open Scope string_scope.", "Open Scope list_scope.", "",
           "(* keywords that occur: " + " ".join(sorted(tr.keywords)) + " *)",
           "(* refs that occur: " + " ".join(sorted(tr.refs)) + " *)", "",
           "Definition schema_root : schema :=", root + ".", "",
           "Definition schema_defs : list (string * schema) :=", coq_list(dlist) + ".", "",
           "(* values of enumerations.Kind / ParameterKind / DocstringSectionKind (what the encoder can emit) *)",
           f"Definition enc_object_kinds : list string := {coq_list(coq_string(x) for x in kinds)}.",
           f"Definition enc_parameter_kinds : list string := {coq_list(coq_string(x) for x in pkinds)}.",
           f"Definition enc_section_kinds : list string := {coq_list(coq_string(x) for x in skinds)}.", ""]
    p = VERIF / "coq/Gen/C09_schema.v"
    text = "\n".join(out)
    if not p.exists() or p.read_text() != text:
        p.write_text(text)
    return p


if __name__ == "__main__":
    print(translate().read_text())
