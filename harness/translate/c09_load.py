"""(T) translator for C09, third table: what the loaders can put into the fields the schema constrains.
Regenerates coq/Gen/C09_load.v from

* src/_griffe/agents/nodes/parameters.py `get_parameters`: which ParameterKind each bucket of `ast.arguments` gets and the
  default text of the two variadic parameters;
* src/_griffe/agents/inspector.py `_kind_map`: inspect.Parameter kind -> ParameterKind;
* every `Parameter(...)` construction in the loaders (visitor, inspector, dataclasses extension): must pass `kind=`; every
  ParameterKind member those files mention (what `kind` can be there);
* every `Decorator(...)` construction in the loaders: must pass `lineno=<node>.lineno` (an ast node's line number, an int);
* every `DocstringSection*(...)` construction in the docstring parsers: the class must be one of docstrings/models.py.

Fail closed (TranslatorError) when a site has another shape.
"""
from __future__ import annotations

import ast
from pathlib import Path

from harness.common.framework import REPO, VERIF, TranslatorError
from harness.translate.c09_exprs import enum_members
from harness.translate.c09_schema import coq_list, coq_string

LOADER_FILES = ["src/_griffe/agents/visitor.py", "src/_griffe/agents/inspector.py", "src/_griffe/extensions/dataclasses.py"]
PARSER_FILES = ["src/_griffe/docstrings/google.py", "src/_griffe/docstrings/numpy.py", "src/_griffe/docstrings/sphinx.py",
                "src/_griffe/docstrings/parsers.py"]
BUCKETS = ["posonlyargs", "args", "vararg", "kwonlyargs", "kwarg"]


def _parse(rel: str):
    try:
        return ast.parse((REPO / rel).read_text())
    except (OSError, SyntaxError) as e:
        raise TranslatorError(f"cannot read {rel}: {e}") from e


def _kind_member(node):
    if isinstance(node, ast.Attribute) and isinstance(node.value, ast.Name) and node.value.id == "ParameterKind":
        return node.attr
    return None


def static_kinds(kinds: dict[str, str]):
    tree = _parse("src/_griffe/agents/nodes/parameters.py")
    fn = [n for n in tree.body if isinstance(n, ast.FunctionDef) and n.name == "get_parameters"]
    if len(fn) != 1:
        raise TranslatorError("parameters.py: get_parameters not found")
    out, defaults = {}, {}
    for node in ast.walk(fn[0]):
        if isinstance(node, ast.Call) and ast.unparse(node.func) == "zip_longest":
            fill = [k.value for k in node.keywords if k.arg == "fillvalue"]
            if fill and _kind_member(fill[0]) and node.args and ast.unparse(node.args[0]).startswith("node."):
                out[ast.unparse(node.args[0])[5:]] = _kind_member(fill[0])
        if isinstance(node, ast.Tuple) and len(node.elts) == 4 and _kind_member(node.elts[2]):
            first = ast.unparse(node.elts[0])
            bucket = {"node.vararg.arg": "vararg", "node.kwarg.arg": "kwarg", "kwarg.arg": "kwonlyargs"}.get(first)
            if bucket is None:
                raise TranslatorError(f"parameters.py: cannot tell which arguments {first!r} ranges over")
            out[bucket] = _kind_member(node.elts[2])
            if bucket in ("vararg", "kwarg"):
                d = node.elts[3]
                if not (isinstance(d, ast.Constant) and isinstance(d.value, str)):
                    raise TranslatorError("parameters.py: the default of a variadic parameter is no longer a string literal")
                defaults[bucket] = d.value
    if sorted(out) != sorted(BUCKETS) or sorted(defaults) != ["kwarg", "vararg"]:
        raise TranslatorError(f"parameters.py: buckets found {sorted(out)}, variadic defaults {sorted(defaults)}")
    for m in out.values():
        if m not in kinds:
            raise TranslatorError(f"parameters.py: ParameterKind.{m} is not a member of the enumeration")
    return [(b, kinds[out[b]]) for b in BUCKETS], defaults


def inspect_kind_map(kinds: dict[str, str]):
    tree = _parse("src/_griffe/agents/inspector.py")
    for node in tree.body:
        if isinstance(node, ast.Assign) and len(node.targets) == 1 and ast.unparse(node.targets[0]) == "_kind_map" and isinstance(node.value, ast.Dict):
            out = []
            for k, v in zip(node.value.keys, node.value.values):
                if not (isinstance(k, ast.Attribute) and ast.unparse(k.value) == "SignatureParameter" and _kind_member(v) in kinds):
                    raise TranslatorError(f"inspector.py: unexpected _kind_map entry {ast.unparse(k)}: {ast.unparse(v)}")
                out.append((k.attr, kinds[_kind_member(v)]))
            return out
    raise TranslatorError("inspector.py: _kind_map not found")


def construction_sites(kinds: dict[str, str]):
    mentioned, param_sites, deco_sites = [], [], []
    for rel in LOADER_FILES:
        tree = _parse(rel)
        for node in ast.walk(tree):
            m = _kind_member(node)
            if m is not None:
                if m not in kinds:
                    raise TranslatorError(f"{rel}: ParameterKind.{m} is not a member of the enumeration")
                if kinds[m] not in mentioned:
                    mentioned.append(kinds[m])
            if isinstance(node, ast.Call) and isinstance(node.func, ast.Name) and node.func.id == "Parameter":
                kw = {k.arg: k.value for k in node.keywords}
                if "kind" not in kw:
                    raise TranslatorError(f"{rel}:{node.lineno}: Parameter(...) built without kind= (its kind would be None)")
                param_sites.append(f"{Path(rel).name}:{ast.unparse(kw['kind'])}")
            if isinstance(node, ast.Call) and isinstance(node.func, ast.Name) and node.func.id == "Decorator":
                kw = {k.arg: k.value for k in node.keywords}
                ln = kw.get("lineno")
                if not (isinstance(ln, ast.Attribute) and ln.attr == "lineno" and isinstance(ln.value, ast.Name)):
                    raise TranslatorError(f"{rel}:{node.lineno}: Decorator(...) built without lineno=<node>.lineno")
                deco_sites.append(ast.unparse(ln))
    if not param_sites or not deco_sites:
        raise TranslatorError("no Parameter(...) / Decorator(...) construction found in the loaders")
    return mentioned, param_sites, deco_sites


def parser_section_classes():
    mtree = _parse("src/_griffe/docstrings/models.py")
    known = {n.name for n in mtree.body if isinstance(n, ast.ClassDef) and n.name.startswith("DocstringSection") and n.name != "DocstringSection"}
    used = []
    for rel in PARSER_FILES:
        for node in ast.walk(_parse(rel)):
            if isinstance(node, ast.Call) and isinstance(node.func, ast.Name) and node.func.id.startswith("DocstringSection"):
                if node.func.id not in known:
                    raise TranslatorError(f"{rel}:{node.lineno}: section built from {node.func.id}, which docstrings/models.py does not define as a section class")
                if node.func.id not in used:
                    used.append(node.func.id)
    if not used:
        raise TranslatorError("no DocstringSection*(...) construction found in the parsers")
    return used


def translate(ctx=None) -> Path:
    kinds = enum_members(_parse("src/_griffe/enumerations.py"), "ParameterKind")
    if not kinds:
        raise TranslatorError("enumerations.py: ParameterKind has no members")
    static, defaults = static_kinds(kinds)
    imap = inspect_kind_map(kinds)
    mentioned, param_sites, deco_sites = construction_sites(kinds)
    sections = parser_section_classes()
    pair = lambda a, b: f"({coq_string(a)}, {coq_string(b)})"   # noqa: E731
    out = ["(* GENERATED by harness/translate/c09_load.py from the loaders of /repo/src/_griffe -- do not edit *)",
           "From Coq Require Import List String.", "Import ListNotations.", "Open Scope string_scope.", "Open Scope list_scope.", "",
           "(* agents/nodes/parameters.py get_parameters: bucket of ast.arguments -> value of the ParameterKind it is given *)",
           f"Definition static_param_kinds : list (string * string) := {coq_list(pair(b, k) for b, k in static)}.",
           f"Definition vararg_default : string := {coq_string(defaults['vararg'])}.",
           f"Definition kwarg_default : string := {coq_string(defaults['kwarg'])}.", "",
           "(* agents/inspector.py _kind_map: inspect.Parameter kind -> value of the ParameterKind *)",
           f"Definition inspect_kind_map : list (string * string) := {coq_list(pair(a, b) for a, b in imap)}.", "",
           "(* every ParameterKind value the loaders mention (what `kind=` can be at a Parameter(...) site); the sites themselves *)",
           f"Definition loader_param_kinds : list string := {coq_list(coq_string(k) for k in mentioned)}.",
           f"Definition parameter_sites : list string := {coq_list(coq_string(s) for s in param_sites)}.", "",
           "(* the lineno argument of every Decorator(...) site in the loaders *)",
           f"Definition decorator_lineno_sources : list string := {coq_list(coq_string(s) for s in deco_sites)}.", "",
           "(* section classes the docstring parsers instantiate *)",
           f"Definition parser_section_classes : list string := {coq_list(coq_string(s) for s in sections)}.", ""]
    p = VERIF / "coq/Gen/C09_load.v"
    text = "\n".join(out)
    if not p.exists() or p.read_text() != text:
        p.write_text(text)
    return p


if __name__ == "__main__":
    print(translate().read_text())
