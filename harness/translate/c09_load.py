"""(T) translator for C09, third table: what the loaders can put into the fields the schema constrains.
Regenerates coq/Gen/C09_load.v from

* src/_griffe/agents/nodes/parameters.py `get_parameters`: which ParameterKind each bucket of `ast.arguments` gets and the
  default text of the two variadic parameters;
* src/_griffe/agents/inspector.py `_kind_map`: inspect.Parameter kind -> ParameterKind;
* every `Parameter(...)` construction in the loaders (visitor, inspector, dataclasses extension, stubs merger, loader): must
  pass `kind=` with an expression that cannot be None -- a ParameterKind member, a conditional between such, a `_kind_map[...]`
  subscript (KeyError, never None), the kind that get_parameters yields, the `.kind` of another parameter, or a local name bound
  only to such expressions; a `.get(...)` or any other call is refused; every ParameterKind member those files mention;
* extensions/dataclasses.py `_dataclass_parameters`: the two kinds a synthesised `__init__` parameter can get, and the kind of `self`;
* every `Decorator(...)` construction in the loaders: must pass `lineno=<node>.lineno` (an ast node's line number, an int);
* every `DocstringSection*(...)` construction in the docstring parsers: the class must be one of docstrings/models.py.

Fail closed (TranslatorError) when a site has another shape.
"""
from __future__ import annotations

import ast
from pathlib import Path

from harness.common.framework import REPO, VERIF, TranslatorError
from harness.translate.c09_exprs import enum_members
from harness.translate.c09_schema import coq_list, coq_string

LOADER_FILES = ["src/_griffe/agents/visitor.py", "src/_griffe/agents/inspector.py", "src/_griffe/extensions/dataclasses.py", "src/_griffe/merger.py",
                "src/_griffe/loader.py"]
PARSER_FILES = ["src/_griffe/docstrings/google.py", "src/_griffe/docstrings/numpy.py", "src/_griffe/docstrings/sphinx.py",
                "src/_griffe/docstrings/parsers.py"]
BUCKETS = ["posonlyargs", "args", "vararg", "kwonlyargs", "kwarg"]


def _parse(rel: str):
    try:
        return ast.parse((REPO / rel).read_text())
    except (OSError, SyntaxError) as e:
        raise TranslatorError(f"cannot read {rel}: {e}") from e


def _kind_member(node):
    if isinstance(node, ast.Attribute) and isinstance(node.value, ast.Name) and node.value.id == "ParameterKind":
        return node.attr
    return None


def static_kinds(kinds: dict[str, str]):
    tree = _parse("src/_griffe/agents/nodes/parameters.py")
    fn = [n for n in tree.body if isinstance(n, ast.FunctionDef) and n.name == "get_parameters"]
    if len(fn) != 1:
        raise TranslatorError("parameters.py: get_parameters not found")
    out, defaults = {}, {}
    for node in ast.walk(fn[0]):
        if isinstance(node, ast.Call) and ast.unparse(node.func) == "zip_longest":
            fill = [k.value for k in node.keywords if k.arg == "fillvalue"]
            if fill and _kind_member(fill[0]) and node.args and ast.unparse(node.args[0]).startswith("node."):
                out[ast.unparse(node.args[0])[5:]] = _kind_member(fill[0])
        if isinstance(node, ast.Tuple) and len(node.elts) == 4 and _kind_member(node.elts[2]):
            first = ast.unparse(node.elts[0])
            bucket = {"node.vararg.arg": "vararg", "node.kwarg.arg": "kwarg", "kwarg.arg": "kwonlyargs"}.get(first)
            if bucket is None:
                raise TranslatorError(f"parameters.py: cannot tell which arguments {first!r} ranges over")
            out[bucket] = _kind_member(node.elts[2])
            if bucket in ("vararg", "kwarg"):
                d = node.elts[3]
                if not (isinstance(d, ast.Constant) and isinstance(d.value, str)):
                    raise TranslatorError("parameters.py: the default of a variadic parameter is no longer a string literal")
                defaults[bucket] = d.value
    if sorted(out) != sorted(BUCKETS) or sorted(defaults) != ["kwarg", "vararg"]:
        raise TranslatorError(f"parameters.py: buckets found {sorted(out)}, variadic defaults {sorted(defaults)}")
    for m in out.values():
        if m not in kinds:
            raise TranslatorError(f"parameters.py: ParameterKind.{m} is not a member of the enumeration")
    return [(b, kinds[out[b]]) for b in BUCKETS], defaults


def inspect_kind_map(kinds: dict[str, str]):
    tree = _parse("src/_griffe/agents/inspector.py")
    for node in tree.body:
        if isinstance(node, ast.Assign) and len(node.targets) == 1 and ast.unparse(node.targets[0]) == "_kind_map" and isinstance(node.value, ast.Dict):
            out = []
            for k, v in zip(node.value.keys, node.value.values):
                if not (isinstance(k, ast.Attribute) and ast.unparse(k.value) == "SignatureParameter" and _kind_member(v) in kinds):
                    raise TranslatorError(f"inspector.py: unexpected _kind_map entry {ast.unparse(k)}: {ast.unparse(v)}")
                out.append((k.attr, kinds[_kind_member(v)]))
            return out
    raise TranslatorError("inspector.py: _kind_map not found")


def _enclosing_functions(tree):
    """Call node id -> innermost enclosing FunctionDef"""
    out = {}

    def walk(node, fn):
        for child in ast.iter_child_nodes(node):
            inner = child if isinstance(child, (ast.FunctionDef, ast.AsyncFunctionDef)) else fn
            if isinstance(child, ast.Call):
                out[id(child)] = fn
            walk(child, inner)
    walk(tree, None)
    return out


def _bindings(fn, name: str):
    """every expression the local `name` is bound to inside fn: assigned values, or ("loop", iterable) for loop / comprehension targets"""
    out = []
    if fn is None:
        return out
    for node in ast.walk(fn):
        if isinstance(node, ast.Assign):
            for t in node.targets:
                if isinstance(t, ast.Name) and t.id == name:
                    out.append(node.value)
                elif isinstance(t, (ast.Tuple, ast.List)) and any(isinstance(e, ast.Name) and e.id == name for e in ast.walk(t)):
                    out.append(("unpack", node.value))
        elif isinstance(node, ast.AnnAssign) and isinstance(node.target, ast.Name) and node.target.id == name and node.value is not None:
            out.append(node.value)
        elif isinstance(node, (ast.For, ast.AsyncFor, ast.comprehension)):
            if any(isinstance(e, ast.Name) and e.id == name for e in ast.walk(node.target)):
                out.append(("loop", node.iter))
        elif isinstance(node, ast.NamedExpr) and node.target.id == name:
            out.append(node.value)
    for a in fn.args.posonlyargs + fn.args.args + fn.args.kwonlyargs:
        if a.arg == name:
            out.append(("argument", None))
    return out


def kind_is_total(expr, fn, where: str, depth: int = 0) -> None:
    """raise TranslatorError unless `expr` can only evaluate to a ParameterKind (never None)"""
    if depth > 4:
        raise TranslatorError(f"{where}: kind expression too indirect to follow")
    if _kind_member(expr) is not None:
        return
    if isinstance(expr, ast.IfExp):
        kind_is_total(expr.body, fn, where, depth + 1)
        kind_is_total(expr.orelse, fn, where, depth + 1)
        return
    if isinstance(expr, ast.Subscript) and isinstance(expr.value, ast.Name) and expr.value.id == "_kind_map":
        return
    if isinstance(expr, ast.Attribute) and expr.attr == "kind":
        return    # the kind of an existing parameter / inspect.Parameter is mapped elsewhere
    if isinstance(expr, ast.Name):
        bound = _bindings(fn, expr.id)
        if not bound:
            raise TranslatorError(f"{where}: cannot find what `{expr.id}` is bound to")
        for b in bound:
            if isinstance(b, tuple):
                tag, it = b
                if tag == "loop" and it is not None and "get_parameters(" in ast.unparse(it):
                    continue
                raise TranslatorError(f"{where}: `{expr.id}` comes from {tag} {ast.unparse(it)[:60] if it is not None else ''}: not known to be a ParameterKind")
            kind_is_total(b, fn, where, depth + 1)
        return
    raise TranslatorError(f"{where}: kind={ast.unparse(expr)[:80]} can be something else than a ParameterKind (None?)")


def construction_sites(kinds: dict[str, str]):
    mentioned, param_sites, deco_sites = [], [], []
    for rel in LOADER_FILES:
        tree = _parse(rel)
        enclosing = _enclosing_functions(tree)
        for node in ast.walk(tree):
            m = _kind_member(node)
            if m is not None:
                if m not in kinds:
                    raise TranslatorError(f"{rel}: ParameterKind.{m} is not a member of the enumeration")
                if kinds[m] not in mentioned:
                    mentioned.append(kinds[m])
            if isinstance(node, ast.Call) and isinstance(node.func, ast.Name) and node.func.id == "Parameter":
                kw = {k.arg: k.value for k in node.keywords}
                if "kind" not in kw:
                    raise TranslatorError(f"{rel}:{node.lineno}: Parameter(...) built without kind= (its kind would be None)")
                kind_is_total(kw["kind"], enclosing.get(id(node)), f"{rel}:{node.lineno}")
                param_sites.append(f"{Path(rel).name}:{ast.unparse(kw['kind'])}")
            if isinstance(node, ast.Call) and isinstance(node.func, ast.Name) and node.func.id == "Decorator":
                kw = {k.arg: k.value for k in node.keywords}
                ln = kw.get("lineno")
                if not (isinstance(ln, ast.Attribute) and ln.attr == "lineno" and isinstance(ln.value, ast.Name)):
                    raise TranslatorError(f"{rel}:{node.lineno}: Decorator(...) built without lineno=<node>.lineno")
                deco_sites.append(ast.unparse(ln))
    if not param_sites or not deco_sites:
        raise TranslatorError("no Parameter(...) / Decorator(...) construction found in the loaders")
    return mentioned, param_sites, deco_sites


def dataclass_kinds(kinds: dict[str, str]):
    """extensions/dataclasses.py: (kind of a keyword-only field, kind of any other field, kind of `self`)"""
    tree = _parse("src/_griffe/extensions/dataclasses.py")
    fn = [n for n in ast.walk(tree) if isinstance(n, ast.FunctionDef) and n.name == "_dataclass_parameters"]
    if len(fn) != 1:
        raise TranslatorError("dataclasses.py: _dataclass_parameters not found")
    cond = [b for b in _bindings(fn[0], "kind") if isinstance(b, ast.IfExp)]
    if len(cond) != 1 or _kind_member(cond[0].body) not in kinds or _kind_member(cond[0].orelse) not in kinds:
        raise TranslatorError("dataclasses.py: the kind of a synthesised parameter is no longer `<member> if <keyword-only> else <member>`")
    if "kw_only" not in ast.unparse(cond[0].test):
        raise TranslatorError("dataclasses.py: the kind of a synthesised parameter no longer depends on kw_only")
    self_kind = None
    for node in ast.walk(tree):
        if isinstance(node, ast.Call) and isinstance(node.func, ast.Name) and node.func.id == "Parameter":
            kw = {k.arg: k.value for k in node.keywords}
            name = kw.get("name") or (node.args[0] if node.args else None)
            if isinstance(name, ast.Constant) and name.value == "self":
                self_kind = _kind_member(kw.get("kind"))
    if self_kind not in kinds:
        raise TranslatorError("dataclasses.py: the `self` parameter of the synthesised __init__ was not found")
    return kinds[_kind_member(cond[0].body)], kinds[_kind_member(cond[0].orelse)], kinds[self_kind]


def parser_section_classes():
    mtree = _parse("src/_griffe/docstrings/models.py")
    known = {n.name for n in mtree.body if isinstance(n, ast.ClassDef) and n.name.startswith("DocstringSection") and n.name != "DocstringSection"}
    used = []
    for rel in PARSER_FILES:
        for node in ast.walk(_parse(rel)):
            if isinstance(node, ast.Call) and isinstance(node.func, ast.Name) and node.func.id.startswith("DocstringSection"):
                if node.func.id not in known:
                    raise TranslatorError(f"{rel}:{node.lineno}: section built from {node.func.id}, which docstrings/models.py does not define as a section class")
                if node.func.id not in used:
                    used.append(node.func.id)
    if not used:
        raise TranslatorError("no DocstringSection*(...) construction found in the parsers")
    return used


def translate(ctx=None) -> Path:
    kinds = enum_members(_parse("src/_griffe/enumerations.py"), "ParameterKind")
    if not kinds:
        raise TranslatorError("enumerations.py: ParameterKind has no members")
    static, defaults = static_kinds(kinds)
    imap = inspect_kind_map(kinds)
    mentioned, param_sites, deco_sites = construction_sites(kinds)
    dc_kw, dc_other, dc_self = dataclass_kinds(kinds)
    sections = parser_section_classes()
    pair = lambda a, b: f"({coq_string(a)}, {coq_string(b)})"   # noqa: E731
    out = ["(* GENERATED by harness/translate/c09_load.py from the loaders of /repo/src/_griffe -- do not edit *)",
           "From Coq Require Import List String.", "Import ListNotations.", "Open Scope string_scope.", "Open Scope list_scope.", "",
           "(* agents/nodes/parameters.py get_parameters: bucket of ast.arguments -> value of the ParameterKind it is given *)",
           f"Definition static_param_kinds : list (string * string) := {coq_list(pair(b, k) for b, k in static)}.",
           f"Definition vararg_default : string := {coq_string(defaults['vararg'])}.",
           f"Definition kwarg_default : string := {coq_string(defaults['kwarg'])}.", "",
           "(* agents/inspector.py _kind_map: inspect.Parameter kind -> value of the ParameterKind *)",
           f"Definition inspect_kind_map : list (string * string) := {coq_list(pair(a, b) for a, b in imap)}.", "",
           "(* every ParameterKind value the loaders mention (what `kind=` can be at a Parameter(...) site); the sites themselves *)",
           f"Definition loader_param_kinds : list string := {coq_list(coq_string(k) for k in mentioned)}.",
           f"Definition parameter_sites : list string := {coq_list(coq_string(s) for s in param_sites)}.", "",
           "(* extensions/dataclasses.py: kind of a synthesised __init__ parameter (keyword-only field / any other field / self) *)",
           f"Definition dataclass_kw_kind : string := {coq_string(dc_kw)}.",
           f"Definition dataclass_other_kind : string := {coq_string(dc_other)}.",
           f"Definition dataclass_self_kind : string := {coq_string(dc_self)}.", "",
           "(* the lineno argument of every Decorator(...) site in the loaders *)",
           f"Definition decorator_lineno_sources : list string := {coq_list(coq_string(s) for s in deco_sites)}.", "",
           "(* section classes the docstring parsers instantiate *)",
           f"Definition parser_section_classes : list string := {coq_list(coq_string(s) for s in sections)}.", ""]
    p = VERIF / "coq/Gen/C09_load.v"
    text = "\n".join(out)
    if not p.exists() or p.read_text() != text:
        p.write_text(text)
    return p


if __name__ == "__main__":
    print(translate().read_text())
