"""(T) translator for C01: regenerates coq/Gen/C01_tables.v from /repo/src/_griffe.

Fail closed: any AST shape outside the whitelist raises TranslatorError.
Translated:
  * agents/visitor.py: the tables builtin_decorators, stdlib_decorators, typing_overload, and a shape check of
    Visitor.decorators_to_labels (builtin table consulted first, then the stdlib table, labels unioned);
  * mixins.py (ObjectAliasMixin): the boolean ladders is_private, is_special, is_class_private, is_imported,
    is_exported, is_wildcard_exposed, is_public as Coq functions vin -> tb (three-valued: None = raises).
"""
from __future__ import annotations

import ast
from pathlib import Path

from harness.common.framework import REPO, VERIF, TranslatorError

LADDERS = ["is_special", "is_private", "is_class_private", "is_imported", "is_exported", "is_wildcard_exposed", "is_public"]

_REF_D2L = '''
def decorators_to_labels(self, decorators):
    labels = set()
    for decorator in decorators:
        callable_path = decorator.callable_path
        if callable_path in builtin_decorators:
            labels.add(builtin_decorators[callable_path])
        elif callable_path in stdlib_decorators:
            labels |= stdlib_decorators[callable_path]
    return labels
'''


def _coq_str(s: str) -> str:
    if not all(32 <= ord(c) < 127 and c != '"' for c in s):
        raise TranslatorError(f"non-ASCII or quote in table string {s!r}")
    return '"' + s + '"'


def _strip_doc(body):
    if body and isinstance(body[0], ast.Expr) and isinstance(body[0].value, ast.Constant) and isinstance(body[0].value.value, str):
        return body[1:]
    return body


def _norm_fn(fn: ast.FunctionDef) -> str:
    """Body dump without docstring, annotations and positions."""
    body = _strip_doc(fn.body)
    return "\n".join(ast.dump(ast.parse(ast.unparse(s)), annotate_fields=False) for s in body)


def _tables(tree: ast.Module) -> dict:
    out = {}
    for n in tree.body:
        if isinstance(n, ast.Assign) and len(n.targets) == 1 and isinstance(n.targets[0], ast.Name):
            name = n.targets[0].id
            v = n.value
            if name == "builtin_decorators":
                if not (isinstance(v, ast.Dict) and all(isinstance(k, ast.Constant) and isinstance(k.value, str) for k in v.keys)
                        and all(isinstance(x, ast.Constant) and isinstance(x.value, str) for x in v.values)):
                    raise TranslatorError("builtin_decorators: expected {str: str}")
                out[name] = [(k.value, [x.value]) for k, x in zip(v.keys, v.values)]
            elif name == "stdlib_decorators":
                if not (isinstance(v, ast.Dict) and all(isinstance(k, ast.Constant) and isinstance(k.value, str) for k in v.keys)
                        and all(isinstance(x, ast.Set) and all(isinstance(e, ast.Constant) and isinstance(e.value, str) for e in x.elts)
                                for x in v.values)):
                    raise TranslatorError("stdlib_decorators: expected {str: {str, ...}}")
                out[name] = [(k.value, sorted(e.value for e in x.elts)) for k, x in zip(v.keys, v.values)]
            elif name == "typing_overload":
                if not (isinstance(v, ast.Set) and all(isinstance(e, ast.Constant) and isinstance(e.value, str) for e in v.elts)):
                    raise TranslatorError("typing_overload: expected {str, ...}")
                out[name] = sorted(e.value for e in v.elts)
    for k in ("builtin_decorators", "stdlib_decorators", "typing_overload"):
        if k not in out:
            raise TranslatorError(f"table {k} not found in visitor.py")
    return out


# ---- boolean ladders
def _is_self_attr(node, *path):
    """node is self.<path[0]>.<path[1]>..."""
    for attr in reversed(path):
        if not (isinstance(node, ast.Attribute) and node.attr == attr):
            return False
        node = node.value
    return isinstance(node, ast.Name) and node.id == "self"


def _name_call(node, meth):
    """self.name.<meth>("lit") -> lit"""
    if (isinstance(node, ast.Call) and isinstance(node.func, ast.Attribute) and node.func.attr == meth
            and _is_self_attr(node.func.value, "name") and len(node.args) == 1 and not node.keywords
            and isinstance(node.args[0], ast.Constant) and isinstance(node.args[0].value, str)):
        return node.args[0].value
    return None


def _bexp(node, known: list[str]) -> str:
    if isinstance(node, ast.BoolOp):
        op = "t_and" if isinstance(node.op, ast.And) else "t_or"
        vals = [_bexp(v, known) for v in node.values]
        acc = vals[-1]
        for v in reversed(vals[:-1]):
            acc = f"({op} {v} {acc})"
        return acc
    if isinstance(node, ast.UnaryOp) and isinstance(node.op, ast.Not):
        return f"(t_not {_bexp(node.operand, known)})"
    if isinstance(node, ast.Constant) and node.value in (True, False):
        return f"(t_at {'true' if node.value else 'false'})"
    if isinstance(node, ast.Call) and isinstance(node.func, ast.Name) and node.func.id == "bool" and len(node.args) == 1 and not node.keywords:
        return _bexp(node.args[0], known)
    s = _name_call(node, "startswith")
    if s == "_":
        return "(t_at (v_us i))"
    if s == "__":
        return "(t_at (v_dus i))"
    s = _name_call(node, "endswith")
    if s == "__":
        return "(t_at (v_due i))"
    for ladder in known:
        if _is_self_attr(node, ladder):
            return f"({ladder} i)"
    if _is_self_attr(node, "is_alias"):
        return "(t_at (v_alias i))"
    if _is_self_attr(node, "is_module"):
        return "(t_at (v_module i))"
    if _is_self_attr(node, "runtime"):
        return "(t_at (v_runtime i))"
    if _is_self_attr(node, "parent"):
        return "(t_at (v_parent i))"
    if _is_self_attr(node, "parent", "is_module"):
        return "(p_at i (v_pmod i))"
    if _is_self_attr(node, "parent", "is_class"):
        return "(p_at i (v_pcls i))"
    if _is_self_attr(node, "parent", "exports"):
        return "(exp_truthy i)"
    if _is_self_attr(node, "public"):
        return "(pub_val i)"
    if isinstance(node, ast.Compare) and len(node.ops) == 1:
        lhs, op, rhs = node.left, node.ops[0], node.comparators[0]
        none = isinstance(rhs, ast.Constant) and rhs.value is None
        if none and isinstance(op, (ast.IsNot, ast.Is)):
            if _is_self_attr(lhs, "parent", "exports"):
                e = "(exp_defined i)"
            elif _is_self_attr(lhs, "public"):
                e = "(pub_set i)"
            else:
                raise TranslatorError(f"comparison with None outside the whitelist: {ast.unparse(node)}")
            return e if isinstance(op, ast.IsNot) else f"(t_not {e})"
        if isinstance(op, (ast.In, ast.NotIn)) and _is_self_attr(lhs, "name"):
            if _is_self_attr(rhs, "parent", "exports"):
                e = "(exp_listed i)"
            elif _is_self_attr(rhs, "parent", "imports"):
                e = "(p_at i (v_imported i))"
            else:
                raise TranslatorError(f"membership test outside the whitelist: {ast.unparse(node)}")
            return e if isinstance(op, ast.In) else f"(t_not {e})"
    raise TranslatorError(f"boolean expression outside the whitelist: {ast.unparse(node)}")


def _ladder(fn: ast.FunctionDef, known: list[str]) -> str:
    body = _strip_doc(fn.body)
    if not body or not isinstance(body[-1], ast.Return) or body[-1].value is None:
        raise TranslatorError(f"{fn.name}: last statement is not `return <expr>`")
    acc = _bexp(body[-1].value, known)
    for st in reversed(body[:-1]):
        if not (isinstance(st, ast.If) and not st.orelse and len(st.body) == 1 and isinstance(st.body[0], ast.Return)
                and st.body[0].value is not None):
            raise TranslatorError(f"{fn.name}: statement outside `if c: return e`: {ast.unparse(st)[:120]}")
        acc = f"(t_if {_bexp(st.test, known)}\n      {_bexp(st.body[0].value, known)}\n   {acc})"
    return acc


def translate(ctx=None) -> Path:
    vis = ast.parse((REPO / "src/_griffe/agents/visitor.py").read_text())
    tabs = _tables(vis)
    cls = [n for n in vis.body if isinstance(n, ast.ClassDef) and n.name == "Visitor"]
    if len(cls) != 1:
        raise TranslatorError("class Visitor not found")
    d2l = [n for n in cls[0].body if isinstance(n, ast.FunctionDef) and n.name == "decorators_to_labels"]
    if len(d2l) != 1:
        raise TranslatorError("Visitor.decorators_to_labels not found")
    ref = ast.parse(_REF_D2L).body[0]
    if _norm_fn(d2l[0]) != _norm_fn(ref):
        raise TranslatorError("Visitor.decorators_to_labels no longer has the shape the model assumes "
                              "(builtin table first, else stdlib table, union of labels)")

    mix = ast.parse((REPO / "src/_griffe/mixins.py").read_text())
    fns = {}
    for c in mix.body:
        if isinstance(c, ast.ClassDef) and c.name == "ObjectAliasMixin":
            for n in c.body:
                if isinstance(n, ast.FunctionDef) and n.name in LADDERS:
                    if not any(isinstance(d, ast.Name) and d.id == "property" for d in n.decorator_list):
                        raise TranslatorError(f"{n.name} is not a property")
                    fns[n.name] = n
    missing = [l for l in LADDERS if l not in fns]
    if missing:
        raise TranslatorError(f"visibility predicates not found in ObjectAliasMixin: {missing}")

    out = ["(* GENERATED by harness/translate/c01_tables.py from /repo/src/_griffe/agents/visitor.py and mixins.py -- do not edit *)",
           "From Coq Require Import List Bool String.", "From Verif Require Import Model.C01_base.", "Import ListNotations.",
           "Open Scope string_scope.", "Open Scope list_scope.", ""]

    def lst(xs):
        return "[" + "; ".join(_coq_str(x) for x in xs) + "]"
    for name in ("builtin_decorators", "stdlib_decorators"):
        rows = ";\n   ".join(f"({_coq_str(k)}, {lst(v)})" for k, v in tabs[name])
        out.append(f"Definition {name} : list (string * list string) :=\n  [{rows}].")
    out.append(f"Definition typing_overload : list string := {lst(tabs['typing_overload'])}.")
    out.append("")
    known: list[str] = []
    for name in LADDERS:
        out.append(f"Definition {name} (i : vin) : tb :=\n   {_ladder(fns[name], known)}.")
        known.append(name)
    out.append("")
    p = VERIF / "coq/Gen/C01_tables.v"
    text = "\n".join(out)
    if not p.exists() or p.read_text() != text:
        p.write_text(text)
    return p


if __name__ == "__main__":
    print(translate().read_text())
