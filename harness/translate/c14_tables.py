"""(T) translator for C14: regenerates coq/Gen/C14_tables.v from /repo/src/_griffe/{finder,loader}.py.

Fail closed: any AST shape outside what is expected raises TranslatorError.  Translated:
  finder.ModuleFinder.accepted_py_module_extensions            -> gen_accepted_exts   (the model's accepted_exts IS this list)
  finder._filter_py_modules   os.walk(..., topdown=True), the pruned directory name, files yielded from `files`
                                                               -> gen_walk_topdown, gen_pruned_dir
  finder.iter_submodules      `py_file = suffix in {...}`, provider test `suffix != ".pyi"`, dedupe `key[1] not in {...}`,
                              the stable sort of the provider decision by len(name parts)
                                                               -> gen_py_file_suffixes, gen_stub_suffix, gen_dedupe_suffixes, gen_provider_sort_by_depth
  finder._extend_from_pth_files  loop over list(self.search_paths), sorted(contents), `item.suffix == ".pth"`
                                                               -> gen_pth_snapshot, gen_pth_sorted, gen_pth_suffix
  finder._module_depth        `return len(name_parts_and_path[0])`  -> gen_sort_key_is_depth
  loader._load_module_path    `module_path.suffix in {...}`     -> gen_static_suffixes
  loader._load_submodule      `for subpart in subparts: if "." in subpart: return`  -> gen_dot_check_all_parts
  census of the state         instance attributes of ModuleFinder / GriffeLoader assigned in a method, writes to class-level data
                                                               -> gen_finder_state, gen_loader_state, gen_classvar_writes
The model's own constants are compared with these tables by the compiled Example gen_tables_agree (Proofs/C14_finder.v).
"""
from __future__ import annotations

import ast

from harness.common.framework import REPO, VERIF, TranslatorError


def _q(s: str) -> str:
    if '"' in s or "\\" in s:
        raise TranslatorError(f"unsupported string literal {s!r}")
    return '"' + s + '"'


def _strlist(xs) -> str:
    return "[" + "; ".join(_q(x) for x in xs) + "]"


def _method(tree, cls, name):
    for n in tree.body:
        if isinstance(n, ast.ClassDef) and n.name == cls:
            for m in n.body:
                if isinstance(m, ast.FunctionDef) and m.name == name:
                    return m
    raise TranslatorError(f"{cls}.{name} not found")


def _func(tree, name):
    for n in tree.body:
        if isinstance(n, ast.FunctionDef) and n.name == name:
            return n
    raise TranslatorError(f"function {name} not found")


def _const_set(node, what):
    if isinstance(node, (ast.Set, ast.List, ast.Tuple)) and all(isinstance(e, ast.Constant) and isinstance(e.value, str) for e in node.elts):
        return sorted(e.value for e in node.elts)
    raise TranslatorError(f"{what}: expected a literal set of strings, got {ast.dump(node)[:120]}")


def _suffix_in(fn, what):
    """all `<x>.suffix in {...}` / `<x> not in {...}` comparisons of a function: list of (op, [strings])"""
    out = []
    for n in ast.walk(fn):
        if isinstance(n, ast.Compare) and len(n.ops) == 1 and isinstance(n.ops[0], (ast.In, ast.NotIn)) and isinstance(n.comparators[0], ast.Set):
            out.append(("in" if isinstance(n.ops[0], ast.In) else "notin", _const_set(n.comparators[0], what), ast.unparse(n.left)))
    return out


def translate(ctx=None):
    src = REPO / "src" / "_griffe"
    ft = ast.parse((src / "finder.py").read_text())
    lt = ast.parse((src / "loader.py").read_text())

    # accepted_py_module_extensions
    exts = None
    for n in ft.body:
        if isinstance(n, ast.ClassDef) and n.name == "ModuleFinder":
            for m in n.body:
                if isinstance(m, ast.AnnAssign) and isinstance(m.target, ast.Name) and m.target.id == "accepted_py_module_extensions":
                    if not isinstance(m.value, ast.List):
                        raise TranslatorError("accepted_py_module_extensions is not a list literal")
                    exts = [e.value for e in m.value.elts if isinstance(e, ast.Constant) and isinstance(e.value, str)]
                    if len(exts) != len(m.value.elts):
                        raise TranslatorError("accepted_py_module_extensions: non-string element")
    if exts is None:
        raise TranslatorError("ModuleFinder.accepted_py_module_extensions not found")

    # _filter_py_modules
    fpm = _method(ft, "ModuleFinder", "_filter_py_modules")
    walks = [n for n in ast.walk(fpm) if isinstance(n, ast.Call) and ast.unparse(n.func) == "os.walk"]
    if len(walks) != 1:
        raise TranslatorError("_filter_py_modules: expected exactly one os.walk call")
    kw = {k.arg: k.value for k in walks[0].keywords}
    topdown = "topdown" not in kw or (isinstance(kw["topdown"], ast.Constant) and kw["topdown"].value is True)
    if "topdown" in kw and not isinstance(kw["topdown"], ast.Constant):
        raise TranslatorError("_filter_py_modules: topdown is not a constant")
    pruned = [n for n in ast.walk(fpm) if isinstance(n, ast.Compare) and len(n.ops) == 1 and isinstance(n.ops[0], ast.NotEq)
              and isinstance(n.comparators[0], ast.Constant) and isinstance(n.comparators[0].value, str)]
    if len(pruned) != 1:
        raise TranslatorError("_filter_py_modules: expected exactly one `dir != <name>` pruning test")
    pruned_dir = pruned[0].comparators[0].value
    loops = [n for n in ast.walk(fpm) if isinstance(n, ast.For) and isinstance(n.iter, ast.Name) and n.iter.id == "files"]
    if len(loops) != 1:
        raise TranslatorError("_filter_py_modules: expected one loop over the `files` of os.walk")

    # iter_submodules
    ism = _method(ft, "ModuleFinder", "iter_submodules")
    ins = _suffix_in(ism, "iter_submodules")
    py_file = [s for op, s, left in ins if op == "in" and left.endswith(".suffix") and "rel_subpath" in left]
    dedupe = [s for op, s, left in ins if op == "notin"]
    if len(py_file) != 1 or len(dedupe) != 1:
        raise TranslatorError(f"iter_submodules: expected one `py_file = ... in {{...}}` and one dedupe `not in {{...}}` test, got {ins}")
    stub = [n for n in ast.walk(ism) if isinstance(n, ast.Compare) and len(n.ops) == 1 and isinstance(n.ops[0], ast.NotEq)
            and isinstance(n.comparators[0], ast.Constant) and ast.unparse(n.left).endswith(".suffix")]
    if len(stub) != 1:
        raise TranslatorError("iter_submodules: expected exactly one `<path>.suffix != <stub suffix>` provider test")
    sorts = [n for n in ast.walk(ism) if isinstance(n, ast.Call) and isinstance(n.func, ast.Name) and n.func.id == "sorted"]
    by_depth = False
    for c in sorts:
        k = {a.arg: a.value for a in c.keywords}.get("key")
        if isinstance(k, ast.Lambda) and ast.unparse(k.body).startswith("len(") and ast.unparse(k.body).endswith("[1])"):
            by_depth = True
    # _extend_from_pth_files
    ext = _method(ft, "ModuleFinder", "_extend_from_pth_files")
    outer = [n for n in ext.body if isinstance(n, ast.For)]
    if len(outer) != 1:
        raise TranslatorError("_extend_from_pth_files: expected one outer loop")
    snapshot = ast.unparse(outer[0].iter) == "list(self.search_paths)"
    if not snapshot and ast.unparse(outer[0].iter) != "self.search_paths":
        raise TranslatorError(f"_extend_from_pth_files: unexpected outer iterable {ast.unparse(outer[0].iter)}")
    inner = [n for n in ast.walk(outer[0]) if isinstance(n, ast.For) and n is not outer[0] and "_contents" in ast.unparse(n.iter)]
    if len(inner) != 1:
        raise TranslatorError("_extend_from_pth_files: loop over the contents not found")
    pth_sorted = ast.unparse(inner[0].iter).startswith("sorted(")
    pth_eq = [n for n in ast.walk(ext) if isinstance(n, ast.Compare) and len(n.ops) == 1 and isinstance(n.ops[0], ast.Eq)
              and isinstance(n.comparators[0], ast.Constant) and ast.unparse(n.left).endswith(".suffix")]
    if len(pth_eq) != 1:
        raise TranslatorError("_extend_from_pth_files: `item.suffix == <suffix>` not found")
    if not any(isinstance(n, ast.Call) and ast.unparse(n.func) == "self.append_search_path" for n in ast.walk(ext)):
        raise TranslatorError("_extend_from_pth_files: directories are no longer appended with append_search_path")
    # _module_depth
    md = _func(ft, "_module_depth")
    rets = [n for n in ast.walk(md) if isinstance(n, ast.Return)]
    depth_only = len(rets) == 1 and ast.unparse(rets[0].value) == "len(name_parts_and_path[0])"
    if not depth_only:
        raise TranslatorError(f"_module_depth: the sort key is no longer the depth alone ({ast.unparse(rets[0].value) if rets else '?'})")
    # loader
    lmp = _method(lt, "GriffeLoader", "_load_module_path")
    st = [s for op, s, left in _suffix_in(lmp, "_load_module_path") if op == "in"]
    if len(st) != 1:
        raise TranslatorError("_load_module_path: expected one `module_path.suffix in {...}` test")
    lsm = _method(lt, "GriffeLoader", "_load_submodule")
    first = lsm.body[0]
    dot_all = (isinstance(first, ast.For) and ast.unparse(first.iter) == "subparts" and len(first.body) == 1 and isinstance(first.body[0], ast.If)
               and ast.unparse(first.body[0].test) == f"'.' in {ast.unparse(first.target)}"
               and any(isinstance(x, ast.Return) for x in first.body[0].body))
    if not dot_all:
        raise TranslatorError("_load_submodule: the dotted-name skip no longer tests every name part first")

    # census of the mutable state: every attribute of a finder / loader instance that is (or whose item is) assigned in a method,
    # and every site that writes class-level data
    def instance_state(tree, cls):
        attrs = set()
        for n in tree.body:
            if isinstance(n, ast.ClassDef) and n.name == cls:
                for m in n.body:
                    if isinstance(m, ast.FunctionDef):
                        for x in ast.walk(m):
                            tg = x.targets if isinstance(x, ast.Assign) else [x.target] if isinstance(x, (ast.AnnAssign, ast.AugAssign)) else []
                            for t1 in tg:
                                for y in ast.walk(t1):
                                    if isinstance(y, ast.Attribute) and isinstance(y.value, ast.Name) and y.value.id == "self":
                                        attrs.add(y.attr)
        return sorted(attrs)

    def class_vars(tree, cls):
        out = []
        for n in tree.body:
            if isinstance(n, ast.ClassDef) and n.name == cls:
                for m in n.body:
                    if isinstance(m, ast.AnnAssign) and isinstance(m.target, ast.Name):
                        out.append(m.target.id)
                    elif isinstance(m, ast.Assign):
                        out += [t.id for t in m.targets if isinstance(t, ast.Name)]
        return out

    cvars = set(class_vars(ft, "ModuleFinder")) | set(class_vars(lt, "GriffeLoader"))
    mutators = {"add", "update", "discard", "remove", "clear", "pop", "append", "extend", "insert", "difference_update",
                "intersection_update", "symmetric_difference_update", "sort", "reverse", "setdefault", "popitem"}
    writes = []
    for fname, tree in (("finder.py", ft), ("loader.py", lt)):
        for fn in ast.walk(tree):
            if not isinstance(fn, ast.FunctionDef):
                continue
            for x in ast.walk(fn):
                tg = x.targets if isinstance(x, ast.Assign) else [x.target] if isinstance(x, (ast.AnnAssign, ast.AugAssign)) else []
                for t1 in tg:
                    for y in ast.walk(t1):
                        if isinstance(y, ast.Attribute) and y.attr in cvars:
                            writes.append(f"{fname}:{fn.name}:{ast.unparse(t1)}")
                if isinstance(x, ast.Call) and isinstance(x.func, ast.Attribute) and x.func.attr in mutators \
                        and isinstance(x.func.value, ast.Attribute) and x.func.value.attr in cvars:
                    writes.append(f"{fname}:{fn.name}:{ast.unparse(x.func)}")
    finder_state = instance_state(ft, "ModuleFinder")
    loader_state = instance_state(lt, "GriffeLoader")

    b = lambda x: "true" if x else "false"
    out = [
        "(* GENERATED by harness/translate/c14_tables.py from /repo/src/_griffe/{finder,loader}.py -- do not edit *)",
        "From Coq Require Import List String Bool.", "Import ListNotations.", "Open Scope string_scope.", "Open Scope list_scope.", "",
        "(* ModuleFinder.accepted_py_module_extensions *)",
        f"Definition gen_accepted_exts : list string := {_strlist(exts)}.", "",
        "(* ModuleFinder._filter_py_modules: os.walk top-down, the pruned directory *)",
        f"Definition gen_walk_topdown : bool := {b(topdown)}.",
        f"Definition gen_pruned_dir : string := {_q(pruned_dir)}.", "",
        "(* ModuleFinder.iter_submodules *)",
        f"Definition gen_py_file_suffixes : list string := {_strlist(py_file[0])}.",
        f"Definition gen_stub_suffix : string := {_q(stub[0].comparators[0].value)}.",
        f"Definition gen_dedupe_suffixes : list string := {_strlist(dedupe[0])}.",
        f"Definition gen_provider_sort_by_depth : bool := {b(by_depth)}.", "",
        "(* ModuleFinder._extend_from_pth_files *)",
        f"Definition gen_pth_snapshot : bool := {b(snapshot)}.",
        f"Definition gen_pth_sorted : bool := {b(pth_sorted)}.",
        f"Definition gen_pth_suffix : string := {_q(pth_eq[0].comparators[0].value)}.", "",
        "(* finder._module_depth, GriffeLoader._load_module_path, GriffeLoader._load_submodule *)",
        f"Definition gen_sort_key_is_depth : bool := {b(depth_only)}.",
        f"Definition gen_static_suffixes : list string := {_strlist(st[0])}.",
        f"Definition gen_dot_check_all_parts : bool := {b(dot_all)}.", "",
        "(* census of the state: instance attributes of ModuleFinder / GriffeLoader assigned in their methods; writes to class-level data *)",
        f"Definition gen_finder_state : list string := {_strlist(finder_state)}.",
        f"Definition gen_loader_state : list string := {_strlist(loader_state)}.",
        f"Definition gen_classvar_writes : list string := {_strlist(sorted(set(writes)))}.", "",
    ]
    p = VERIF / "coq/Gen/C14_tables.v"
    text = "\n".join(out)
    if not p.exists() or p.read_text() != text:
        p.write_text(text)
    return p


if __name__ == "__main__":
    print(translate().read_text())
