(* C18 — Synthesised dataclass constructors equal the ones CPython generates.  Property theorems only.

   [py_*] (Model/C18_dataclass.v) is CPython 3.12's dataclasses module; a module is a table of classes in definition
   order; [py_eval_table t = Some e] says CPython executes it.
   [gm_* m] (Model/C18_modes.v) is extensions/dataclasses.py in one of the three shapes its merging code can have:
     FlatFilterFirst  (the code before the repairs of findings C18-F3 and C18-F6),
     FlatFilterLast   (F3 repaired), Accumulated (F3 and F6 repaired: _dataclass_fields).
   [current_mode] (Gen/C18_flags.v) is the shape of the tree under test, read off its source on every run; the theorems
   are proved for every shape, so they hold for whichever one is found.
   Model/C18_machine.v is the extension as a state machine over on_package_loaded events; Model/C18_presented.v is
   Class.parameters. *)
From Coq Require Import List Arith Bool String.
From Verif Require Import Lib.Sexp Model.C18_dataclass Model.C18_modes Model.C18_machine Model.C18_presented Model.C18_layout Gen.C18_flags
  Proofs.C18_dataclass Proofs.C18_modes Proofs.C18_machine Proofs.C18_presented Proofs.C18_top Proofs.C18_order Proofs.C18_layout Proofs.C18_wrongorder.
Import ListNotations.
Open Scope list_scope. Open Scope nat_scope.

(* ===============================================================================================================
   THE CONSTRUCTOR.  For ALL class tables (any number of classes, bodies, MRO lists) and every shape m of the merging
   code: a decorated class without a hand-written __init__ gets from Griffe exactly the __init__ CPython generates
   (parameter names, order, kind, required-ness; or none at all, for @dataclass(init=False)) unless it satisfies one of
   the decidable known-gap predicates that remain in that shape:
     FlatFilterFirst  G2 G3 G4 G6 G7      FlatFilterLast  G2 G4 G6 G7      Accumulated  G2 G4 G7
   (gaps_m masks the others).  [mode_ok] asks, in the Accumulated shape only, that the MRO lists be those of a Python
   module (they point to earlier classes and contain the MRO of each member): wf_mro. *)
Theorem C18_init_eq_cpython_by_shape : forall m t e i c,
  py_eval_table t = Some e -> mode_ok m t = true -> nth_error t i = Some c ->
  decorated c = true -> c_hw c = None ->
  known_gap_m m t e i c = false ->
  gm_init_member m t i c = py_init_member e i c.
Proof. exact init_eq_cpython_by_mode. Qed.
Print Assumptions C18_init_eq_cpython_by_shape.
(* ... in particular for the shape the tree under test has *)
Theorem C18_init_eq_cpython_modulo_known : forall t e i c,
  py_eval_table t = Some e -> mode_ok current_mode t = true -> nth_error t i = Some c ->
  decorated c = true -> c_hw c = None ->
  known_gap_m current_mode t e i c = false ->
  gm_init_member current_mode t i c = py_init_member e i c.
Proof. exact (init_eq_cpython_by_mode current_mode). Qed.
Print Assumptions C18_init_eq_cpython_modulo_known.
(* the FlatFilterFirst shape is the per-class model of Model/C18_dataclass.v *)
Theorem C18_flat_filter_first_is_g : forall t i c, nth_error t i = Some c ->
  gm_init_member FlatFilterFirst t i c = g_init_member t c.
Proof. exact gm_FFF. Qed.
Print Assumptions C18_flat_filter_first_is_g.
(* the recursion of _dataclass_fields (Accumulated) is modelled with explicit fuel S (length t); on well-formed tables
   any fuel above the class index gives the same dictionary: the out-of-fuel value is never observed *)
Theorem C18_accumulated_fuel_suffices : forall t own, wf_mro t = true ->
  forall f1 f2 j, j < f1 -> j < f2 -> accum t own f1 j = accum t own f2 j.
Proof. exact accum_fuel. Qed.
Print Assumptions C18_accumulated_fuel_suffices.

(* The unqualified statement is false of the faithful model (and of the code: the same witnesses are replayed on the
   implementation on every run).  Each witness satisfies exactly one gap predicate ([G2; G3; G4; G6; G7]).
   F2, F4, F7 in every shape; F3 while the filter comes first; F6 until every base contributes its accumulated dictionary. *)
Theorem C18_init_eq_cpython_refuted_F2 : forall m, refutes_m m w2 1 [true; false; false; false; false].
Proof. exact refuted_m_F2. Qed.
Print Assumptions C18_init_eq_cpython_refuted_F2.
Theorem C18_init_eq_cpython_refuted_F3 : refutes_m FlatFilterFirst w3 1 [false; true; false; false; false].
Proof. exact refuted_m_F3. Qed.
Print Assumptions C18_init_eq_cpython_refuted_F3.
Theorem C18_init_eq_cpython_refuted_F4 : forall m, refutes_m m w4 1 [false; false; true; false; false].
Proof. exact refuted_m_F4. Qed.
Print Assumptions C18_init_eq_cpython_refuted_F4.
Theorem C18_init_eq_cpython_refuted_F6 : forall m, accumulates m = false -> refutes_m m w6 3 [false; false; false; true; false].
Proof. exact refuted_m_F6. Qed.
Print Assumptions C18_init_eq_cpython_refuted_F6.
Theorem C18_init_eq_cpython_refuted_F7 : forall m, refutes_m m w7 0 [false; false; false; false; true].
Proof. exact refuted_m_F7. Qed.
Print Assumptions C18_init_eq_cpython_refuted_F7.
(* the same witnesses are INSIDE the theorem in the repaired shapes, and equal *)
Theorem C18_repaired_F3 : known_gap_m FlatFilterLast w3 (env_of w3) 1 (cls_at w3 1) = false /\
  gm_init_member FlatFilterLast w3 1 (cls_at w3 1) = Synth [mkp 1 PK true] /\
  gm_init_member FlatFilterFirst w3 1 (cls_at w3 1) = Synth [mkp 0 PK true; mkp 1 PK true].
Proof. exact repaired_F3. Qed.
Print Assumptions C18_repaired_F3.
Theorem C18_repaired_F6 : wf_mro w6 = true /\ known_gap_m Accumulated w6 (env_of w6) 3 (cls_at w6 3) = false /\
  gm_init_member Accumulated w6 3 (cls_at w6 3) = Synth [mkp 0 PK false; mkp 1 PK true] /\
  gm_init_member FlatFilterFirst w6 3 (cls_at w6 3) = Synth [mkp 0 PK true; mkp 1 PK true].
Proof. exact repaired_F6. Qed.
Print Assumptions C18_repaired_F6.
(* a diamond with overrides in both branches, a ClassVar override and a field(init=False) override: G3 and G6 hold for
   it in the FlatFilterFirst shape (and the constructors differ), none in the Accumulated shape (and they are equal) *)
Theorem C18_accumulated_example : exists e, py_eval_table dia2 = Some e /\ wf_mro dia2 = true /\
  known_gap_m Accumulated dia2 e 3 (cls_at dia2 3) = false /\ known_gap_m FlatFilterFirst dia2 e 3 (cls_at dia2 3) = true /\
  gm_init_member Accumulated dia2 3 (cls_at dia2 3) = py_init_member e 3 (cls_at dia2 3) /\
  gm_init_member FlatFilterFirst dia2 3 (cls_at dia2 3) <> py_init_member e 3 (cls_at dia2 3).
Proof. exact dia2_acc. Qed.
Print Assumptions C18_accumulated_example.

(* THE ORDERING THEOREM (Accumulated shape): for EVERY hierarchy (any inheritance graph, any field lists, any placement
   of kw_only / KW_ONLY / InitVar / field(init=False) / ClassVar) the NAMES, ORDER and KINDS of the synthesised parameters
   are CPython's; no hypothesis on overrides or on the field forms (not even G2: finding F2 only changes required-ness).
   What remains are the two findings that add or remove names (F4: instance attributes of a hand-written __init__, F7:
   annotated name re-bound by a property) and the well-formedness of the MRO lists. *)
Theorem C18_order_eq_cpython_accumulated : forall t e i c,
  py_eval_table t = Some e -> wf_mro t = true -> nth_error t i = Some c ->
  decorated c = true -> c_hw c = None ->
  G4 t c = false -> G7 t c = false ->
  shape_member (gm_init_member Accumulated t i c) = shape_member (py_init_member e i c).
Proof. exact order_eq_Acc. Qed.
Print Assumptions C18_order_eq_cpython_accumulated.
(* non-vacuity: the F2 witness has CPython's names, order and kinds although the constructors differ (required-ness) *)
Theorem C18_order_example : wf_mro w2 = true /\ G4 w2 (cls_at w2 1) = false /\ G7 w2 (cls_at w2 1) = false /\
  gm_init_member Accumulated w2 1 (cls_at w2 1) <> py_init_member (env_of w2) 1 (cls_at w2 1) /\
  shape_member (gm_init_member Accumulated w2 1 (cls_at w2 1)) = Synth [mkp 0 PK false; mkp 1 PK false].
Proof. exact order_F2. Qed.
Print Assumptions C18_order_example.

(* Single inheritance (the MRO of every class is its base followed by the base's MRO; undecorated classes may sit in
   between): CPython's accumulated __dataclass_fields__ IS the flat reverse-MRO collection, so the multiple-inheritance
   gap G6 cannot occur, for tables of any length and chains of any depth ... *)
Theorem C18_single_inheritance_no_F6 : forall t e, py_eval_table t = Some e -> linear t = true ->
  forall i c, nth_error t i = Some c -> decorated c = true -> G6 t e i c = false.
Proof. exact single_inheritance_flat. Qed.
Print Assumptions C18_single_inheritance_no_F6.
(* ... such tables are well-formed ... *)
Theorem C18_single_inheritance_wf : forall t, linear t = true -> wf_mro t = true.
Proof. exact linear_wf. Qed.
Print Assumptions C18_single_inheritance_wf.
(* ... and the constructor equality needs only the syntactic gap predicates (G3 only while the filter comes first). *)
Theorem C18_init_eq_cpython_single_inheritance : forall m t e i c,
  py_eval_table t = Some e -> linear t = true -> nth_error t i = Some c ->
  decorated c = true -> c_hw c = None ->
  G2 t c = false -> (filter_after m = false -> G3 t c = false) -> G4 t c = false -> G7 t c = false ->
  gm_init_member m t i c = py_init_member e i c.
Proof. exact init_eq_single_inheritance_by_mode. Qed.
Print Assumptions C18_init_eq_cpython_single_inheritance.

(* The hypotheses are satisfiable together, in every shape: a five-class single-inheritance table with every ingredient
   (InitVar, default_factory, KW_ONLY sentinel, ClassVar, property, undecorated class in between, kw_only=True
   decorator, override, init=False field, hand-written __init__ in an ancestor) that is gap-free and accepted. *)
Theorem C18_gap_free_example : forall m, exists e, py_eval_table ok1 = Some e /\ mode_ok m ok1 = true /\
  known_gap_m m ok1 e 4 (cls_at ok1 4) = false /\ linear ok1 = true /\
  gm_init_member m ok1 4 (cls_at ok1 4) =
    Synth [mkp 0 PK false; mkp 2 PK true; mkp 10 PK true; mkp 11 PK true; mkp 1 KO true; mkp 3 KO true; mkp 8 KO false].
Proof. exact ok1_gap_free_m. Qed.
Print Assumptions C18_gap_free_example.

(* A hand-written __init__ is never replaced (by either system). *)
Theorem C18_handwritten_init_kept : forall m t e i c l, c_hw c = Some l ->
  gm_init_member m t i c = Handwritten /\ py_init_member e i c = Handwritten.
Proof. exact handwritten_init_kept_m. Qed.
Print Assumptions C18_handwritten_init_kept.

(* Non-dataclass classes get none. *)
Theorem C18_non_dataclass_untouched : forall m t e i c, decorated c = false -> c_hw c = None ->
  gm_init_member m t i c = Absent /\ py_init_member e i c = Absent.
Proof. exact non_dataclass_untouched_m. Qed.
Print Assumptions C18_non_dataclass_untouched.

(* A class inheriting a dataclass is labelled as one (unconditionally since the repair of C18-F9) ... *)
Theorem C18_inherited_label : forall t c b, In b (mro_classes t c) -> decorated b = true -> g_label t c = true.
Proof. exact inherited_label. Qed.
Print Assumptions C18_inherited_label.
(* ... and in general the label is exactly dataclasses.is_dataclass. *)
Theorem C18_label_eq_is_dataclass : forall t c, g_label t c = py_is_dataclass t c.
Proof. exact label_eq_is_dataclass. Qed.
Print Assumptions C18_label_eq_is_dataclass.

(* ===============================================================================================================
   THE PRESENTED CONSTRUCTOR.  Class.parameters (the class' own __init__ member, else the first one along its MRO)
   against the one CPython resolves (cls.__init__ along __mro__ = inspect.signature(cls)); this is the only
   constructor an undecorated subclass of a dataclass, or a @dataclass(init=False) class, has.
   The class that PROVIDES it is the same for both, for every accepted table, gaps or not ... *)
Theorem C18_presented_provider_eq : forall m t e i c, py_eval_table t = Some e ->
  option_map fst (gm_presented m t i c) = option_map fst (py_presented t e i c).
Proof. exact presented_provider_eq. Qed.
Print Assumptions C18_presented_provider_eq.
(* ... and the constructors are equal when every class that can provide it (the class and its MRO) is outside the known gaps. *)
Theorem C18_presented_eq_cpython_modulo_known : forall m t e i c, py_eval_table t = Some e -> mode_ok m t = true ->
  (forall j b, In j (i :: c_mro c) -> nth_error t j = Some b -> decorated b = true -> c_hw b = None -> known_gap_m m t e j b = false) ->
  gm_presented m t i c = py_presented t e i c.
Proof. exact presented_eq_modulo_known. Qed.
Print Assumptions C18_presented_eq_cpython_modulo_known.
(* non-vacuity: a diamond whose undecorated join takes the constructor of its SECOND base (the first is a plain subclass) *)
Theorem C18_presented_example : forall m, exists e, py_eval_table dia = Some e /\ mode_ok m dia = true /\
  (forall j b, In j (3 :: c_mro (cls_at dia 3)) -> nth_error dia j = Some b -> decorated b = true -> c_hw b = None -> known_gap_m m dia e j b = false) /\
  gm_presented m dia 3 (cls_at dia 3) = Some (2, Synth [mkp 0 PK false; mkp 1 PK true; mkp 2 PK true]).
Proof. exact dia_presented. Qed.
Print Assumptions C18_presented_example.

(* ===============================================================================================================
   THE EXTENSION AS THE STATE MACHINE IT IS (Model/C18_machine.v): ONE extension object serves any number of
   on_package_loaded events; the entries of a class are memoised for the life of the process, InitVar members are
   deleted after a class was handled, classes are walked in member order (a subclass before or after its bases; the
   bases possibly from a package loaded by an earlier event), canonical paths seen during the same event are skipped.
   For EVERY history of events (any number, any walk orders, any interleaving of packages and of versions of one
   package) in which one event never meets the same canonical path twice (a package is a tree), every class an event
   has walked over carries exactly the stateless result of the per-class model: the state never leaks. *)
Theorem C18_session_transparent : forall m t paths evs,
  (forall ev, In ev evs -> NoDup (map (fun j => nth j paths 0) ev)) ->
  forall ev j c, In ev evs -> In j ev -> nth_error t j = Some c ->
  s_member (session m t paths evs) j c = gm_init_member m t j c /\ s_labelled (session m t paths evs) j c = g_label t c.
Proof. exact session_transparent. Qed.
Print Assumptions C18_session_transparent.
(* hence, after any such history, the __init__ member is CPython's, modulo the known gaps of the shape *)
Theorem C18_session_eq_cpython_modulo_known : forall m t e paths evs,
  py_eval_table t = Some e -> mode_ok m t = true ->
  (forall ev, In ev evs -> NoDup (map (fun j => nth j paths 0) ev)) ->
  forall ev j c, In ev evs -> In j ev -> nth_error t j = Some c ->
  decorated c = true -> c_hw c = None -> known_gap_m m t e j c = false ->
  s_member (session m t paths evs) j c = py_init_member e j c.
Proof. exact session_eq_cpython_modulo_known. Qed.
Print Assumptions C18_session_eq_cpython_modulo_known.
(* The statement is sensitive to the two pieces of state: with the memo dropped at each event a dataclass of a later
   package loses the InitVar pseudo-fields of a base loaded earlier (the base is recomputed from pruned members) ... *)
Theorem C18_session_needs_the_memo : forall m,
  s_member (session m two_pkgs [0; 1] [[0]; [1]]) 1 (cls_at two_pkgs 1) = Synth [mkp 0 PK false; mkp 1 PK true; mkp 2 PK true] /\
  s_member (session_gen m true false two_pkgs [0; 1] [[0]; [1]]) 1 (cls_at two_pkgs 1) = Synth [mkp 0 PK false; mkp 2 PK true].
Proof. intros m. split; [exact (session_two_pkgs m) | exact (cache_is_load_bearing m)]. Qed.
Print Assumptions C18_session_needs_the_memo.
(* ... and with the set of seen paths kept on the extension the second version of a package is skipped altogether. *)
Theorem C18_session_needs_a_fresh_seen_set : forall m,
  s_member (session m two_versions [7; 7] [[0]; [1]]) 1 (cls_at two_versions 1) = Synth [mkp 0 PK false; mkp 1 PK true] /\
  s_member (session_gen m false true two_versions [7; 7] [[0]; [1]]) 1 (cls_at two_versions 1) = Absent.
Proof. exact processed_must_be_per_event. Qed.
Print Assumptions C18_session_needs_a_fresh_seen_set.

(* ---------------------------------------------------------------------------------------------------------------
   LOADS IN ANY ORDER (a package loaded before the package its bases come from).  The table changes between events:
   the same classes ([sim]: decorator, body, hand-written __init__), MRO lists over the packages loaded so far.
   For EVERY history in which each class object is walked by one event: every class carries the stateless result on
   the table OF ITS EVENT ... *)
Theorem C18_session_any_order : forall md t0 paths evs,
  (forall t ev, In (t, ev) evs -> sim t t0 /\ NoDup (map (fun j => nth j paths 0) ev)) ->
  NoDup (flat_map snd evs) ->
  forall t ev j c, In (t, ev) evs -> In j ev -> nth_error t j = Some c ->
  s_member (session_tv md paths evs) j c = gm_init_member md t j c /\ s_labelled (session_tv md paths evs) j c = g_label t c.
Proof. exact session_tv_spec. Qed.
Print Assumptions C18_session_any_order.
(* ... and Class.parameters read AFTER all the loads (members as the events left them, looked up along the final MRO) is
   the stateless presented constructor of the final table, exactly when each class of the lookup list got at its event
   the member it would get now (decidable; evaluated by the extracted model on every wrong-order case).  In particular
   a class that inherits its constructor gets it as soon as the parent's package is loaded. *)
Theorem C18_presented_after_loads : forall md t0 paths evs tfin i c,
  (forall t ev, In (t, ev) evs -> sim t t0 /\ NoDup (map (fun j => nth j paths 0) ev)) ->
  NoDup (flat_map snd evs) -> sim tfin t0 -> nth_error tfin i = Some c ->
  (forall k, In k (i :: c_mro c) -> exists t ev, In (t, ev) evs /\ In k ev /\ gm_member_at md t k = gm_member_at md tfin k) ->
  first_init (s_member_at (session_tv md paths evs) tfin) (i :: c_mro c) = gm_presented md tfin i c.
Proof. exact presented_after_loads. Qed.
Print Assumptions C18_presented_after_loads.
(* non-vacuity, and the failure of the hypothesis: children loaded before their parent dataclass - the plain subclass
   presents the parent's constructor afterwards, the decorated one keeps the __init__ synthesised without the parent *)
Theorem C18_wrong_order_example : forall md,
  first_init (s_member_at (session_tv md [0; 1; 2] wo_evs) wo_fin) [1; 0] = gm_presented md wo_fin 1 (cls_at wo_fin 1) /\
  gm_presented md wo_fin 1 (cls_at wo_fin 1) = Some (0, Synth [mkp 0 PK false]) /\
  first_init (s_member_at (session_tv md [0; 1; 2] wo_evs) wo_fin) [2; 0] = Some (2, Synth [mkp 1 PK true]) /\
  gm_presented md wo_fin 2 (cls_at wo_fin 2) = Some (2, Synth [mkp 0 PK false; mkp 1 PK true]) /\
  gm_member_at md wo_early 2 <> gm_member_at md wo_fin 2.
Proof. exact wrong_order_computed. Qed.
Print Assumptions C18_wrong_order_example.

(* ===============================================================================================================
   WHAT THE EXTENSION CAN SEE WHEN THE EVENT FIRES (Model/C18_layout.v): module scopes after the visit and after
   expand_wildcards.  For ALL layouts (any modules, statements, star graph - cyclic or not - and any fuel):
   expand_wildcards never changes the member bound to a name when every star import of the module sits on an earlier
   line than that binding, or targets a module whose __all__ hides the name, or a module that is not loaded ... *)
Theorem C18_expand_wildcards_keeps : forall L fuel m md n old,
  nth_error L m = Some md -> lookup_e n (fst (visit md)) = Some old ->
  (forall line m', In (line, m') (snd (visit md)) ->
     line <= e_line old \/ match nth_error L m' with Some md' => hidden md' n = true | None => True end) ->
  lookup_e n (expand fuel L m) = Some old.
Proof. exact expand_keeps. Qed.
Print Assumptions C18_expand_wildcards_keeps.
(* ... so `from dataclasses import dataclass, ...` placed after the star imports, or star imports of modules with an
   __all__, keep @dataclass recognised (the complement is finding C18-F10) ... *)
Theorem C18_decorator_recognised : forall h L m md old,
  nth_error L m = Some md -> lookup_e h (fst (visit md)) = Some old -> e_bind old = BStd ->
  (forall line m', In (line, m') (snd (visit md)) ->
     line <= e_line old \/ match nth_error L m' with Some md' => hidden md' h = true | None => True end) ->
  recognised_h h true L m = true.
Proof. exact recognised_sufficient. Qed.
Print Assumptions C18_decorator_recognised.
(* ... and a class whose decorator is recognised and whose bases resolve is read as it is written. *)
Theorem C18_seen_as_written : forall ex L m c bases, seen_ok ex L m c bases = true -> mask_cls ex L m c = c.
Proof. exact mask_id. Qed.
Print Assumptions C18_seen_as_written.
(* the generated two-module layouts, computed: F10 (star import after the stdlib imports, sibling without __all__) loses
   the decorator; star first / __all__ / explicit import / re-export through the package keep it; all bases resolve *)
Theorem C18_layouts_computed :
  recognised true L_shadow 2 = false /\ base_resolves true L_shadow 2 0 = true /\
  recognised true L_wild 2 = true /\ base_resolves true L_wild 2 0 = true /\
  recognised true L_all 2 = true /\ base_resolves true L_all 2 0 = true /\
  recognised true L_from 2 = true /\ base_resolves true L_from 2 0 = true /\
  recognised true L_reexport 2 = true /\ base_resolves true L_reexport 2 0 = true.
Proof. exact layouts_computed. Qed.
Print Assumptions C18_layouts_computed.
(* helper names re-exported by a module of the package (explicitly or through a star import) are one hop too far: the same
   finding for `dataclass`, `field`, `KW_ONLY` individually *)
Theorem C18_reexported_helpers_computed :
  recognised true L_compat_from 2 = true /\ recognised_h h_field true L_compat_from 2 = false /\ recognised_h h_kwonly true L_compat_from 2 = false /\
  recognised true L_compat_star 2 = false /\ recognised false L_compat_star 2 = false /\ recognised_h h_field true L_compat_star 2 = true /\
  recognised_h h_classvar true L_compat_star 2 = false.
Proof. exact compat_computed. Qed.
Print Assumptions C18_reexported_helpers_computed.
(* finding C18-F12, exactly: the base name of a class resolves (in the final namespace of the module, the only one Griffe
   has) to the class itself.  For all layouts it does whenever the member the module ends up with under that name is the
   class itself - `class K0: ...; class K0(K0)`, `from base import K0; class K0(K0)` - and no later star import takes it over. *)
Theorem C18_rebinding_resolves_to_self : forall L m md k n old,
  nth_error L m = Some md -> lookup_e (cname n) (fst (visit md)) = Some old -> e_bind old = BDef k ->
  (forall line m', In (line, m') (snd (visit md)) ->
     line <= e_line old \/ match nth_error L m' with Some md' => hidden md' (cname n) = true | None => True end) ->
  self_resolved true L m k n = true.
Proof. exact rebinding_resolves_to_self. Qed.
Print Assumptions C18_rebinding_resolves_to_self.
Theorem C18_rebinding_computed :
  self_resolved true L_rebind_same 0 1 0 = true /\ base_resolves true L_rebind_same 0 0 = false /\ self_resolved true L_rebind_same 0 2 0 = false /\
  self_resolved true L_rebind_import 2 1 0 = true /\ base_resolves true L_rebind_import 2 0 = false /\
  self_resolved true L_from 2 1 0 = false /\ base_resolves true L_from 2 0 = true.
Proof. exact rebinding_computed. Qed.
Print Assumptions C18_rebinding_computed.
(* were on_package_loaded fired before expand_wildcards, bases arriving by star import would not resolve *)
Theorem C18_event_must_follow_wildcards :
  base_resolves false L_wild 2 0 = false /\ base_resolves false L_all 2 0 = false /\ base_resolves false L_reexport 2 0 = false /\
  base_resolves false L_from 2 0 = true /\ recognised false L_shadow 2 = true.
Proof. exact event_before_wildcards. Qed.
Print Assumptions C18_event_must_follow_wildcards.

(* ===============================================================================================================
   THE TRANSLATED RULES (Gen/C18_flags.v, regenerated from extensions/dataclasses.py on every run) ARE THE MODEL'S:
   the keyword-only rule, the default rule, the grouping of _reorder_parameters, the direction of the MRO walk, the
   canonical paths matched. *)
Open Scope string_scope.
Theorem C18_translated_rules_are_the_model :
  (forall v kw, (if kind_is_kw_only (g_kw_true v) kw (g_kw_false v) then KO else PK) = (if g_kw_true v || (kw && negb (g_kw_false v)) then KO else PK)) /\
  (forall v, default_present (is_field_call v) (match v with VField a => fa_factory a | _ => false end)
                             (match v with VField a => fa_default a | _ => false end) (has_value v) = g_default v) /\
  (forall l, flat_map (fun g => group_filter g l) reorder_groups = partition_params l) /\
  mro_walk_reversed = true /\
  recognised_paths = ["dataclasses.dataclass"; "dataclasses.field"; "dataclasses.KW_ONLY"; "dataclasses.InitVar"].
Proof.
  split; [exact kind_rule_is_model|]. split; [exact default_rule_is_model|]. split; [exact reorder_is_model|].
  split; [exact walk_is_model | exact paths_are_model].
Qed.
Print Assumptions C18_translated_rules_are_the_model.
(* ... and so is the skeleton around them: GriffeLoader._post_load fires on_package_loaded after expand_exports and
   expand_wildcards; the built-in extension is always loaded; on_package_loaded is `_apply_recursively(pkg, set())` alone
   (a fresh set of seen paths per event, no other state on the extension); the class branch of _apply_recursively is
   label, guard on "__init__", synthesise, delete InitVar members, nested classes - the order of Model/C18_machine.v : process;
   Expr.is_classvar (the visitor's class-attribute label, all the extension knows of ClassVar) goes by the last name of the
   canonical path, so every import route of ClassVar is recognised; _dataclass_parameters skips alias members (names
   imported in a class body), so it never asks an unloaded target for its kind (repair of C18-F11). *)
Theorem C18_translated_skeleton_is_the_model :
  post_load_steps = [PExports; PWildcards; PEvent] /\ builtin_extension_always_loaded = true /\
  seen_set_fresh_per_event = true /\ class_steps = [CLabel; CGuard; CInit; CPrune; CNested] /\ classvar_by_last_name = true /\ skips_alias_members = true.
Proof. exact skeleton_is_model. Qed.
Print Assumptions C18_translated_skeleton_is_the_model.
