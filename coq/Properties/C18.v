(* C18 — Synthesised dataclass constructors equal the ones CPython generates.  Property theorems only.
   Model/C18_dataclass.v: [g_*] is extensions/dataclasses.py (after the repairs of findings F1, F5, F8, F9),
   [py_*] is CPython 3.12's dataclasses module.
   A module is a table of classes in definition order; [py_eval_table t = Some e] says CPython executes it. *)
From Coq Require Import List Arith Bool.
From Verif Require Import Lib.Sexp Model.C18_dataclass Model.C18_session Proofs.C18_dataclass Proofs.C18_session.
Import ListNotations.
Open Scope list_scope. Open Scope nat_scope.

(* For ALL class tables (any number of classes, bodies, MRO lists): a decorated class without a hand-written __init__ gets
   from Griffe exactly the __init__ CPython generates (parameter names, order, kind, required-ness; or none at all, for
   @dataclass(init=False)) unless it satisfies one of the five decidable known-gap predicates G2 G3 G4 G6 G7
   (findings C18-F2, F3, F4, F6, F7). *)
Theorem C18_init_eq_cpython_modulo_known : forall t e i c,
  py_eval_table t = Some e -> nth_error t i = Some c ->
  decorated c = true -> c_hw c = None ->
  known_gap t e i c = false ->
  g_init_member t c = py_init_member e i c.
Proof. exact init_eq_cpython_modulo_known. Qed.
Print Assumptions C18_init_eq_cpython_modulo_known.

(* The unqualified statement is false of the faithful model (and of the code: the same witnesses are replayed on the
   implementation on every run).  Each witness satisfies exactly one gap predicate ([G2; G3; G4; G6; G7]), so none is redundant. *)
Theorem C18_init_eq_cpython_refuted_F2 : refutes w2 1 [true; false; false; false; false].
Proof. exact refuted_F2. Qed.
Print Assumptions C18_init_eq_cpython_refuted_F2.
Theorem C18_init_eq_cpython_refuted_F3 : refutes w3 1 [false; true; false; false; false].
Proof. exact refuted_F3. Qed.
Print Assumptions C18_init_eq_cpython_refuted_F3.
Theorem C18_init_eq_cpython_refuted_F4 : refutes w4 1 [false; false; true; false; false].
Proof. exact refuted_F4. Qed.
Print Assumptions C18_init_eq_cpython_refuted_F4.
Theorem C18_init_eq_cpython_refuted_F6 : refutes w6 3 [false; false; false; true; false].
Proof. exact refuted_F6. Qed.
Print Assumptions C18_init_eq_cpython_refuted_F6.
Theorem C18_init_eq_cpython_refuted_F7 : refutes w7 0 [false; false; false; false; true].
Proof. exact refuted_F7. Qed.
Print Assumptions C18_init_eq_cpython_refuted_F7.

(* Single inheritance (the MRO of every class is its base followed by the base's MRO; undecorated classes may sit in
   between): CPython's accumulated __dataclass_fields__ IS the flat reverse-MRO collection, so the multiple-inheritance
   gap G6 cannot occur, for tables of any length and chains of any depth ... *)
Theorem C18_single_inheritance_no_F6 : forall t e, py_eval_table t = Some e -> linear t = true ->
  forall i c, nth_error t i = Some c -> decorated c = true -> G6 t e i c = false.
Proof. exact single_inheritance_flat. Qed.
Print Assumptions C18_single_inheritance_no_F6.
(* ... and the constructor equality needs only the four syntactic gap predicates. *)
Theorem C18_init_eq_cpython_single_inheritance : forall t e i c,
  py_eval_table t = Some e -> linear t = true -> nth_error t i = Some c ->
  decorated c = true -> c_hw c = None ->
  G2 t c = false -> G3 t c = false -> G4 t c = false -> G7 t c = false ->
  g_init_member t c = py_init_member e i c.
Proof. exact init_eq_cpython_single_inheritance. Qed.
Print Assumptions C18_init_eq_cpython_single_inheritance.

(* The hypotheses are satisfiable together: a five-class single-inheritance table with every ingredient (InitVar,
   default_factory, KW_ONLY sentinel, ClassVar, property, undecorated class in between, kw_only=True decorator, override,
   init=False field, hand-written __init__ in an ancestor) that is gap-free and accepted. *)
Theorem C18_gap_free_example : exists e, py_eval_table ok1 = Some e /\ known_gap ok1 e 4 (cls_at ok1 4) = false /\ linear ok1 = true /\
  g_init_member ok1 (cls_at ok1 4) =
    Synth [mkp 0 PK false; mkp 2 PK true; mkp 10 PK true; mkp 11 PK true; mkp 1 KO true; mkp 3 KO true; mkp 8 KO false].
Proof. exact ok1_gap_free. Qed.
Print Assumptions C18_gap_free_example.

(* A hand-written __init__ is never replaced (by either system). *)
Theorem C18_handwritten_init_kept : forall t e i c l, c_hw c = Some l ->
  g_init_member t c = Handwritten /\ py_init_member e i c = Handwritten.
Proof. exact handwritten_init_kept. Qed.
Print Assumptions C18_handwritten_init_kept.

(* Non-dataclass classes get none. *)
Theorem C18_non_dataclass_untouched : forall t e i c, decorated c = false -> c_hw c = None ->
  g_init_member t c = Absent /\ py_init_member e i c = Absent.
Proof. exact non_dataclass_untouched. Qed.
Print Assumptions C18_non_dataclass_untouched.

(* A class inheriting a dataclass is labelled as one (unconditionally since the repair of C18-F9) ... *)
Theorem C18_inherited_label : forall t c b, In b (mro_classes t c) -> decorated b = true -> g_label t c = true.
Proof. exact inherited_label. Qed.
Print Assumptions C18_inherited_label.
(* ... and in general the label is exactly dataclasses.is_dataclass. *)
Theorem C18_label_eq_is_dataclass : forall t c, g_label t c = py_is_dataclass t c.
Proof. exact label_eq_is_dataclass. Qed.
Print Assumptions C18_label_eq_is_dataclass.

(* ---------------------------------------------------------------------------------------------------------------
   The constructor Griffe PRESENTS for a class (Class.parameters: the class' own __init__ member, else the first one
   along its MRO) against the one CPython resolves (cls.__init__ along __mro__ = inspect.signature(cls)); this is the
   only constructor an undecorated subclass of a dataclass, or a @dataclass(init=False) class, has.
   The class that PROVIDES it is the same for both, for every accepted table, gaps or not ... *)
Theorem C18_presented_provider_eq : forall t e i c, py_eval_table t = Some e ->
  option_map fst (g_presented t i c) = option_map fst (py_presented t e i c).
Proof. exact presented_provider_eq. Qed.
Print Assumptions C18_presented_provider_eq.
(* ... and the constructors are equal when every class that can provide it (the class and its MRO) is outside the known gaps. *)
Theorem C18_presented_eq_cpython_modulo_known : forall t e i c, py_eval_table t = Some e ->
  (forall j b, In j (i :: c_mro c) -> nth_error t j = Some b -> decorated b = true -> c_hw b = None -> known_gap t e j b = false) ->
  g_presented t i c = py_presented t e i c.
Proof. exact presented_eq_modulo_known. Qed.
Print Assumptions C18_presented_eq_cpython_modulo_known.
(* non-vacuity: a diamond whose undecorated join takes the constructor of its SECOND base (the first is a plain subclass) *)
Theorem C18_presented_example : exists e, py_eval_table dia = Some e /\
  (forall j b, In j (3 :: c_mro (cls_at dia 3)) -> nth_error dia j = Some b -> decorated b = true -> c_hw b = None -> known_gap dia e j b = false) /\
  g_presented dia 3 (cls_at dia 3) = Some (2, Synth [mkp 0 PK false; mkp 1 PK true; mkp 2 PK true]).
Proof. exact dia_presented. Qed.
Print Assumptions C18_presented_example.

(* ---------------------------------------------------------------------------------------------------------------
   The extension as the state machine it is (Model/C18_session.v): ONE extension object serves any number of
   on_package_loaded events; the parameters of a class are memoised for the life of the process, InitVar members are
   deleted after a class was handled, classes are walked in member order (a subclass before or after its bases; the
   bases possibly from a package loaded by an earlier event), canonical paths seen during the same event are skipped.
   For EVERY history of events (any number, any walk orders, any interleaving of packages and of versions of one
   package) in which one event never meets the same canonical path twice (a package is a tree), every class an event
   has walked over carries exactly the stateless result of the per-class model: the state never leaks. *)
Theorem C18_session_transparent : forall t paths evs,
  (forall ev, In ev evs -> NoDup (map (fun j => nth j paths 0) ev)) ->
  forall ev j c, In ev evs -> In j ev -> nth_error t j = Some c ->
  s_member (session t paths evs) j c = g_init_member t c /\ s_labelled (session t paths evs) j c = g_label t c.
Proof. exact session_transparent. Qed.
Print Assumptions C18_session_transparent.
(* hence, after any such history, the __init__ member is CPython's, modulo the known gaps *)
Theorem C18_session_eq_cpython_modulo_known : forall t e paths evs,
  py_eval_table t = Some e ->
  (forall ev, In ev evs -> NoDup (map (fun j => nth j paths 0) ev)) ->
  forall ev j c, In ev evs -> In j ev -> nth_error t j = Some c ->
  decorated c = true -> c_hw c = None -> known_gap t e j c = false ->
  s_member (session t paths evs) j c = py_init_member e j c.
Proof. exact session_eq_cpython_modulo_known. Qed.
Print Assumptions C18_session_eq_cpython_modulo_known.
(* The statement is sensitive to the two pieces of state: with the memo dropped at each event a dataclass of a later
   package loses the InitVar pseudo-fields of a base loaded earlier (the base is recomputed from pruned members) ... *)
Theorem C18_session_needs_the_memo :
  s_member (session two_pkgs [0; 1] [[0]; [1]]) 1 (cls_at two_pkgs 1) = Synth [mkp 0 PK false; mkp 1 PK true; mkp 2 PK true] /\
  s_member (session_gen true false two_pkgs [0; 1] [[0]; [1]]) 1 (cls_at two_pkgs 1) = Synth [mkp 0 PK false; mkp 2 PK true].
Proof. split; [exact (proj1 session_two_pkgs) | exact cache_is_load_bearing]. Qed.
Print Assumptions C18_session_needs_the_memo.
(* ... and with the set of seen paths kept on the extension the second version of a package is skipped altogether. *)
Theorem C18_session_needs_a_fresh_seen_set :
  s_member (session two_versions [7; 7] [[0]; [1]]) 1 (cls_at two_versions 1) = Synth [mkp 0 PK false; mkp 1 PK true] /\
  s_member (session_gen false true two_versions [7; 7] [[0]; [1]]) 1 (cls_at two_versions 1) = Absent.
Proof. exact processed_must_be_per_event. Qed.
Print Assumptions C18_session_needs_a_fresh_seen_set.
