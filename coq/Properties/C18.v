(* C18 — Synthesised dataclass constructors equal the ones CPython generates.  Property theorems only.
   Model/C18_dataclass.v: [g_*] is extensions/dataclasses.py (after the repairs of findings F1, F5, F8, F9),
   [py_*] is CPython 3.12's dataclasses module.
   A module is a table of classes in definition order; [py_eval_table t = Some e] says CPython executes it. *)
From Coq Require Import List Arith Bool.
From Verif Require Import Lib.Sexp Model.C18_dataclass Proofs.C18_dataclass.
Import ListNotations.
Open Scope list_scope. Open Scope nat_scope.

(* For ALL class tables (any number of classes, bodies, MRO lists): a decorated class without a hand-written __init__ gets
   from Griffe exactly the __init__ CPython generates (parameter names, order, kind, required-ness; or none at all, for
   @dataclass(init=False)) unless it satisfies one of the five decidable known-gap predicates G2 G3 G4 G6 G7
   (findings C18-F2, F3, F4, F6, F7). *)
Theorem C18_init_eq_cpython_modulo_known : forall t e i c,
  py_eval_table t = Some e -> nth_error t i = Some c ->
  decorated c = true -> c_hw c = None ->
  known_gap t e i c = false ->
  g_init_member t c = py_init_member e i c.
Proof. exact init_eq_cpython_modulo_known. Qed.
Print Assumptions C18_init_eq_cpython_modulo_known.

(* The unqualified statement is false of the faithful model (and of the code: the same witnesses are replayed on the
   implementation on every run).  Each witness satisfies exactly one gap predicate ([G2; G3; G4; G6; G7]), so none is redundant. *)
Theorem C18_init_eq_cpython_refuted_F2 : refutes w2 1 [true; false; false; false; false].
Proof. exact refuted_F2. Qed.
Print Assumptions C18_init_eq_cpython_refuted_F2.
Theorem C18_init_eq_cpython_refuted_F3 : refutes w3 1 [false; true; false; false; false].
Proof. exact refuted_F3. Qed.
Print Assumptions C18_init_eq_cpython_refuted_F3.
Theorem C18_init_eq_cpython_refuted_F4 : refutes w4 1 [false; false; true; false; false].
Proof. exact refuted_F4. Qed.
Print Assumptions C18_init_eq_cpython_refuted_F4.
Theorem C18_init_eq_cpython_refuted_F6 : refutes w6 3 [false; false; false; true; false].
Proof. exact refuted_F6. Qed.
Print Assumptions C18_init_eq_cpython_refuted_F6.
Theorem C18_init_eq_cpython_refuted_F7 : refutes w7 0 [false; false; false; false; true].
Proof. exact refuted_F7. Qed.
Print Assumptions C18_init_eq_cpython_refuted_F7.

(* Single inheritance (the MRO of every class is its base followed by the base's MRO; undecorated classes may sit in
   between): CPython's accumulated __dataclass_fields__ IS the flat reverse-MRO collection, so the multiple-inheritance
   gap G6 cannot occur, for tables of any length and chains of any depth ... *)
Theorem C18_single_inheritance_no_F6 : forall t e, py_eval_table t = Some e -> linear t = true ->
  forall i c, nth_error t i = Some c -> decorated c = true -> G6 t e i c = false.
Proof. exact single_inheritance_flat. Qed.
Print Assumptions C18_single_inheritance_no_F6.
(* ... and the constructor equality needs only the four syntactic gap predicates. *)
Theorem C18_init_eq_cpython_single_inheritance : forall t e i c,
  py_eval_table t = Some e -> linear t = true -> nth_error t i = Some c ->
  decorated c = true -> c_hw c = None ->
  G2 t c = false -> G3 t c = false -> G4 t c = false -> G7 t c = false ->
  g_init_member t c = py_init_member e i c.
Proof. exact init_eq_cpython_single_inheritance. Qed.
Print Assumptions C18_init_eq_cpython_single_inheritance.

(* The hypotheses are satisfiable together: a five-class single-inheritance table with every ingredient (InitVar,
   default_factory, KW_ONLY sentinel, ClassVar, property, undecorated class in between, kw_only=True decorator, override,
   init=False field, hand-written __init__ in an ancestor) that is gap-free and accepted. *)
Theorem C18_gap_free_example : exists e, py_eval_table ok1 = Some e /\ known_gap ok1 e 4 (cls_at ok1 4) = false /\ linear ok1 = true /\
  g_init_member ok1 (cls_at ok1 4) =
    Synth [mkp 0 PK false; mkp 2 PK true; mkp 10 PK true; mkp 11 PK true; mkp 1 KO true; mkp 3 KO true; mkp 8 KO false].
Proof. exact ok1_gap_free. Qed.
Print Assumptions C18_gap_free_example.

(* A hand-written __init__ is never replaced (by either system). *)
Theorem C18_handwritten_init_kept : forall t e i c l, c_hw c = Some l ->
  g_init_member t c = Handwritten /\ py_init_member e i c = Handwritten.
Proof. exact handwritten_init_kept. Qed.
Print Assumptions C18_handwritten_init_kept.

(* Non-dataclass classes get none. *)
Theorem C18_non_dataclass_untouched : forall t e i c, decorated c = false -> c_hw c = None ->
  g_init_member t c = Absent /\ py_init_member e i c = Absent.
Proof. exact non_dataclass_untouched. Qed.
Print Assumptions C18_non_dataclass_untouched.

(* A class inheriting a dataclass is labelled as one (unconditionally since the repair of C18-F9) ... *)
Theorem C18_inherited_label : forall t c b, In b (mro_classes t c) -> decorated b = true -> g_label t c = true.
Proof. exact inherited_label. Qed.
Print Assumptions C18_inherited_label.
(* ... and in general the label is exactly dataclasses.is_dataclass. *)
Theorem C18_label_eq_is_dataclass : forall t c, g_label t c = py_is_dataclass t c.
Proof. exact label_eq_is_dataclass. Qed.
Print Assumptions C18_label_eq_is_dataclass.
