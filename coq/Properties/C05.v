(* C05 — Imports, re-exports and wildcards resolve exactly as CPython imports them.
   Property theorems only: each closed by [exact] of a lemma from Proofs/, followed by Print Assumptions.

   The real traversal of griffe.load (expand_exports over the whole tree, then expand_wildcards, each a recursion with a seen-set) is
   shown to perform exactly the schedule's per-module steps, in the order in which it completes the modules
   (C05_real_exports_phase_is_a_schedule, C05_real_wildcard_phase_is_a_schedule, C05_load_is_two_schedules).
   Not proved (checked on every generated package instead, see harness/props/c05.py): that these two completion orders give the same
   result as ONE dependency order with both steps per module (griffe_sched) when no gap event (findings F3, F8, F10) is reported.
   The composition of the per-module theorems into
       agreeb top (griffe_sched top ms order) (py_import ms order) = true
   for all programs that satisfy the decidable side conditions wf_prog / wf_run is C05_composition below. *)
From Coq Require Import List ZArith String Bool Arith.
From Verif Require Import Lib.Sexp Model.C05_imports Model.C05_wf Proofs.C05_imports Proofs.C05_resolve Proofs.C05_main Proofs.C05_real Proofs.C05_realw Proofs.C05_norefs Gen.C05_ladder Proofs.C05_ladder.
Import ListNotations.
Open Scope string_scope. Open Scope list_scope. Open Scope nat_scope.

(* ---- a wildcard import exposes exactly what `from m import *` copies ------------------------------------------------------ *)

(* is_wildcard_exposed, for every member list: a name is exposed iff it is bound and (listed in __all__ when __all__ is defined,
   else does not start with an underscore) -- provided every submodule member is named by the module's own imports. *)
Theorem C05_wildcard_exposure_rule :
  forall st n, submodules_imported st ->
  In n (map fst (exposed_members st)) <->
  (exists m, In (n, m) (members st)) /\
  match exports st with Some ex => In (IStr n) ex | None => starts_underscore n = false end.
Proof. exact wildcard_exposes_exactly. Qed.
Print Assumptions C05_wildcard_exposure_rule.

(* Against CPython's rule (py_star_names): same bound names and same __all__ => same set of copied names. *)
Theorem C05_wildcard_exposes_exactly :
  forall st pm, submodules_imported st ->
  (forall n, (exists m, In (n, m) (members st)) <-> In n (map fst (pns pm))) ->
  exports st = option_map (map IStr) (pall pm) ->
  (forall l, pall pm = Some l -> forall n, In n l -> In n (map fst (pns pm))) ->
  forall n, In n (map fst (exposed_members st)) <-> In n (py_star_names pm).
Proof. exact wildcard_exposes_what_cpython_copies. Qed.
Print Assumptions C05_wildcard_exposes_exactly.

(* The excluded case is real (finding F5): a bound, public submodule that the module's imports do not name is not exposed. *)
Theorem C05_submodule_exposure_refuted :
  exists st n, In (n, MSub) (members st) /\ exports st = None /\ starts_underscore n = false /\
               ~ In n (map fst (exposed_members st)).
Proof. exact submodule_exposure_refuted. Qed.
Print Assumptions C05_submodule_exposure_refuted.

(* ---- later statements override earlier ones ------------------------------------------------------------------------------- *)

(* For every module body with one statement per line, every mix and order of definitions, imports, __all__ assignments and wildcard
   imports (the same module wildcard-imported any number of times), and whatever the wildcard-imported modules expose (X):
   visiting the whole body and then applying the line-number overwrite rule to every wildcard (two_phase) binds each name to
   exactly the member that executing the statements in order (sequential) binds it to. *)
Theorem C05_later_statement_overrides :
  forall mp is_init (X : path -> list (string * member)),
  (forall T, NoDup (map fst (X T))) ->
  forall body n, body_ok mp is_init body -> ~ is_star_name n ->
  lookup n (two_phase mp is_init X body) = lookup n (sequential mp is_init X body).
Proof. exact later_statement_overrides. Qed.
Print Assumptions C05_later_statement_overrides.

(* ... and executing in order binds each name by its last binder. *)
Theorem C05_sequential_is_last_binder :
  forall mp is_init (X : path -> list (string * member)),
  (forall T, NoDup (map fst (X T))) ->
  forall body n, lookup n (sequential mp is_init X body) = winner_rev mp is_init X n (rev body).
Proof. exact sequential_is_last_binder. Qed.
Print Assumptions C05_sequential_is_last_binder.

(* The rule used in two_phase is the model's apply_one outside the self-alias skip and the submodule special case ... *)
Theorem C05_apply_one_is_the_rule :
  forall fuel t top mp ms e,
  is_alias (e_member e) && path_eqb (alias_target_path (e_member e)) (mp ++ [e_name e]) = false ->
  (forall old, lookup (e_name e) ms = Some old ->
               forall q, final fuel (set_mod t mp (mkSt ms [] None)) top old (mp ++ [e_name e]) <> FMod q) ->
  apply_one fuel t top mp ms e = basic_apply_one ms e.
Proof. exact apply_one_is_basic. Qed.
Print Assumptions C05_apply_one_is_the_rule.

(* ... and the special case skips an overwrite exactly when the new alias resolves to the module the old member resolves to;
   the kept alias then takes the line of the wildcard import (repair of former finding F9). *)
Theorem C05_submodule_special_case :
  forall fuel t top mp ms e old q,
  lookup (e_name e) ms = Some old ->
  is_alias (e_member e) && path_eqb (alias_target_path (e_member e)) (mp ++ [e_name e]) = false ->
  Nat.ltb (member_lineno old) (e_ln e) = true ->
  final fuel (set_mod t mp (mkSt ms [] None)) top old (mp ++ [e_name e]) = FMod q ->
  apply_one fuel t top mp ms e =
  if fres_eqb (final fuel (set_mod t mp (mkSt ms [] None)) top (wrap e) (mp ++ [e_name e])) (FMod q)
  then (if is_alias old then assign (e_name e) (relineno old (e_ln e)) ms else ms)
  else assign (e_name e) (wrap e) ms.
Proof. exact special_case_condition. Qed.
Print Assumptions C05_submodule_special_case.

(* Strictly increasing lines are needed (finding F4): with two wildcard imports on one line neither the real traversal nor the
   dependency-order schedule agrees with CPython. *)
Theorem C05_same_line_refuted :
  exists top ms order,
    is_ok (py_import ms order []) = true /\
    agreeb top (loaded_table (griffe_load top ms)) (py_table (py_import ms order [])) = false /\
    agreeb top (griffe_sched top ms order) (py_table (py_import ms order [])) = false /\
    (exists m, In m ms /\ ~ increasing (ms_body m)).
Proof. exact same_line_refuted. Qed.
Print Assumptions C05_same_line_refuted.

(* ---- __all__ assembled from other modules' __all__ ------------------------------------------------------------------------ *)

(* The dependency-order expansion is expand_with over the sources the module's names resolve to ... *)
Theorem C05_sched_exports_items :
  forall fuel t top mp st ex,
  sched_exports_items fuel t top mp st ex = expand_with (sched_src fuel t top mp st) ex [].
Proof. exact sched_exports_items_expand. Qed.
Print Assumptions C05_sched_exports_items.

(* ... CPython's value of the same expression is py_items over what the same names evaluate to ... *)
Theorem C05_cpython_all_value :
  forall t ns its l, py_eval_items t ns its = POk l -> py_items (py_src t ns) its = Some l.
Proof. exact py_eval_items_is_py_items. Qed.
Print Assumptions C05_cpython_all_value.

(* ... and for any mix and order of strings and foreign lists: if each foreign source expands to strings naming what CPython's
   list holds, the expanded exports name exactly what CPython's __all__ holds, and nothing is left unexpanded. *)
Theorem C05_exports_expansion :
  forall src psrc its,
  (forall l a names, psrc l a = Some names ->
     exists l', src l a = Some l' /\ only_strings l' /\ forall x, In (IStr x) l' <-> In x names) ->
  forall acc pyl, py_items psrc its = Some pyl -> only_strings acc ->
  only_strings (expand_with src its acc) /\
  forall x, In (IStr x) (expand_with src its acc) <-> In (IStr x) acc \/ In x pyl.
Proof. exact exports_expansion. Qed.
Print Assumptions C05_exports_expansion.

(* ---- a resolved alias presents its target ------------------------------------------------------------------------------- *)

(* Alias.members re-wraps the target's members recursively: everything reachable through the alias has the kind it has under the
   target and the path obtained by replacing the target's path by the alias's path. *)
Theorem C05_alias_presents_target :
  forall tp ap o, alias_paths ap o = map (fun pk => (rebase tp ap (fst pk), snd pk)) (paths_under tp o).
Proof. exact alias_presents_target. Qed.
Print Assumptions C05_alias_presents_target.

Theorem C05_alias_member_paths_under_alias :
  forall tp ap o p k, In (p, k) (alias_paths ap o) -> exists sfx, p = ap ++ sfx /\ In (tp ++ sfx, k) (paths_under tp o).
Proof. exact alias_paths_under_alias. Qed.
Print Assumptions C05_alias_member_paths_under_alias.

(* ---- the full property is false of the faithful model of the real traversal: one witness per open finding ------------------- *)
(* (former findings F1, F2 and F9 are repaired: their witnesses are now Examples in Proofs/ on which the model agrees with CPython) *)
(* In each, the program is accepted by py_import in the given dependency order (so it is acyclic and well formed), the faithful model
   disagrees with CPython, the model's gap event fires and no other does, and the dependency-order schedule agrees with CPython. *)

Theorem C05_pending_package_read_refuted :        (* F3 *)
  exists top ms order,
    is_ok (py_import ms order []) = true /\
    (exists l, griffe_load top ms = Done l /\ l_pending l <> [] /\ l_dropped l = []) /\
    agreeb top (loaded_table (griffe_load top ms)) (py_table (py_import ms order [])) = false /\
    agreeb top (griffe_sched top ms order) (py_table (py_import ms order [])) = true.
Proof. exact pending_package_read_refuted. Qed.
Print Assumptions C05_pending_package_read_refuted.


(* F7: the model agrees with CPython when every alias is resolved after the last wildcard expansion, but an alias member of wf7.c was
   replaced and wf7.d.f points at it: an earlier resolution presents the stale target (what the implementation does). *)
Theorem C05_stale_alias_refuted :
  exists top ms order l,
    is_ok (py_import ms order []) = true /\ griffe_load top ms = Done l /\ l_replaced l <> [] /\
    agreeb top (l_table l) (py_table (py_import ms order [])) = true /\
    finals 100 (l_table l) top (l_replaced l) (MAlias ["wf7"; "c"; "f"] 1 false) ["wf7"; "d"; "f"]
    = [FObj KFunc ["wf7"; "b"; "f"]; FObj KFunc ["wf7"; "a"; "f"]].
Proof. exact stale_alias_refuted. Qed.
Print Assumptions C05_stale_alias_refuted.

Theorem C05_dropped_export_source_refuted :       (* F8 *)
  exists top ms order,
    is_ok (py_import ms order []) = true /\
    (exists l, griffe_load top ms = Done l /\ l_dropped l <> [] /\ l_pending l = []) /\
    agreeb top (loaded_table (griffe_load top ms)) (py_table (py_import ms order [])) = false /\
    agreeb top (griffe_sched top ms order) (py_table (py_import ms order [])) = true.
Proof. exact dropped_export_source_refuted. Qed.
Print Assumptions C05_dropped_export_source_refuted.

(* ---- names and targets, one module: the induction step of the composition over a dependency order ----------------------------- *)
(* R n m v reads "the member m found under the name n presents the value v" (in the full model: the final target of m is v).
   Given that what each statement imports is already related -- definitions to the objects they define, `from T import x` to the
   value CPython reads, `import a.b.c` to the module, a wildcard import of T exposing exactly what CPython copies from T, member by
   member -- the members Griffe ends up with (visitor, then the line-number rule on every wildcard) and the namespace CPython ends up
   with bind the same names, to related things.  Restrictions, stated as hypotheses: one statement per line, no skipped
   `from . import x` (bind_of <> None), the name __all__ itself and the `a/b/*` pseudo-names aside. *)
Theorem C05_module_names_and_targets_eq_cpython :
  forall mp is_init (X : path -> list (string * member)),
  (forall T, NoDup (map fst (X T))) ->
  forall (ms : list modsrc) (t : pytable) (R : string -> member -> value -> Prop),
  (forall a k ln, R a (MObj k ln) (VObj k (mp ++ [a]))) ->
  (forall ln T x asn bare a pm v,
     bind_of mp is_init (SFrom ln T x asn bare) = Some (a, MAlias (T ++ [x]) ln false) ->
     from_value mp ms t pm T x = POk v -> R a (MAlias (T ++ [x]) ln false) v) ->
  (forall ln T a, R a (MAlias T ln false) (VMod T)) ->
  (forall ln T tm n, get_py t T = Some tm ->
     (In n (py_star_names tm) <-> lookup n (X T) <> None) /\
     (forall m v, lookup n (X T) = Some m -> py_attr ms t T n = POk v -> R n (MWrap (T ++ [n]) m ln) v)) ->
  forall body pm,
  body_ok mp is_init body ->
  (forall s ln T x asn bare, In s body -> s = SFrom ln T x asn bare -> bind_of mp is_init s <> None) ->
  py_body ms t mp (mkPy [] None) body = POk pm ->
  forall n, not_all n -> ~ is_star_name n ->
  rel R n (lookup n (two_phase mp is_init X body)) (lookup n (pns pm)).
Proof. exact module_names_eq_cpython. Qed.
Print Assumptions C05_module_names_and_targets_eq_cpython.

Theorem C05_exports_pending_read_refuted :        (* F10 *)
  exists top ms order,
    is_ok (py_import ms order []) = true /\
    (exists l, griffe_load top ms = Done l /\ l_xpending l <> [] /\ l_dropped l = []) /\
    agreeb top (loaded_table (griffe_load top ms)) (py_table (py_import ms order [])) = false /\
    agreeb top (griffe_sched top ms order) (py_table (py_import ms order [])) = true.
Proof. exact exports_pending_read_refuted. Qed.
Print Assumptions C05_exports_pending_read_refuted.

(* ---- the composition over a dependency order ----------------------------------------------------------------------------------- *)
(* For every program (any number of modules and sub-packages, any statements of the grammar, any depth of re-export chains), if
   - wf_prog holds (decidable, Model/C05_wf.v): the order has no repetition and every module in it is reached from the top package
     through declared submodules; per module: one statement per line (finding F4), bound names are plain identifiers, a name of a submodule of the module is bound only by `from <the module> import <submodule>`, a module imports
     from itself only its submodules, and every source of an assembled __all__ is bound exactly once, by an import standing before
     the __all__ statement (F12), `x.__all__` through a module, a bare name through a from-import (of `__all__` itself or of a name that
     another module bound to such a list);
   - CPython's import statement semantics (py_import) executes the modules in that order without error (so every import reads a
     module that ran before: the order is a dependency order, the import graph is acyclic);
   - wf_run holds on that run (decidable): a wildcard import never rebinds the name of a submodule of the importing package to
     something else, a package without __all__ that binds one of its public submodules names it in a recorded import (F5), and no
     wildcard import standing between the import of a source of an assembled __all__ and the __all__ statement exposes that name (F12);
   then the dependency-order schedule of Griffe's per-module rules (visitor, exports expansion, wildcard expansion with the
   line-number rule, self-alias skip and submodule special case, alias chains resolved by `final` with the model's fuel) binds in
   every module exactly the names CPython binds, every name resolving to the object CPython refers to, and the same __all__. *)
Theorem C05_composition :
  forall top ms order pt,
  wf_prog top ms order = true ->
  py_import ms order [] = POk pt ->
  wf_run ms pt = true ->
  agreeb top (griffe_sched top ms order) pt = true.
Proof. exact sched_agrees_with_cpython. Qed.
Print Assumptions C05_composition.

Theorem C05_composition_not_vacuous :
  wf_prog "q" w13 o13 = true /\
  exists pt, py_import w13 o13 [] = POk pt /\ wf_run w13 pt = true /\
             agreeb "q" (griffe_sched "q" w13 o13) pt = true /\
             (exists pm, get_py pt ["q"] = Some pm /\ List.length (pns pm) = 4).
Proof. exact composition_is_not_vacuous. Qed.
Print Assumptions C05_composition_not_vacuous.

(* the fuel of `final`: a resolution that takes h hops is computed by every fuel >= h (the composition shows h <= number of modules + 1) *)
Theorem C05_resolution_fuel :
  forall top t P h m loc r, Res top t P h m loc r -> forall fuel, h <= fuel -> final fuel t top m loc = r.
Proof. exact Res_final. Qed.
Print Assumptions C05_resolution_fuel.

(* a resolution is not disturbed by changes to modules it does not enter, as long as packages keep their submodule members *)
Theorem C05_resolution_stable :
  forall top t t' P h m loc r, lookups_kept top t t' P -> Res top t P h m loc r -> Res top t' P h m loc r.
Proof. exact Res_stable. Qed.
Print Assumptions C05_resolution_stable.


Theorem C05_flow_insensitive_source_refuted :     (* F12: a wildcard import rebinds the source between its import and the __all__ statement *)
  exists top ms order,
    is_ok (py_import ms order []) = true /\
    agreeb top (loaded_table (griffe_load top ms)) (py_table (py_import ms order [])) = false /\
    agreeb top (griffe_sched top ms order) (py_table (py_import ms order [])) = false /\
    wf_prog top ms order = true /\
    sources_not_rebound ms (py_table (py_import ms order [])) = false.
Proof. exact flow_insensitive_source_refuted. Qed.
Print Assumptions C05_flow_insensitive_source_refuted.

Theorem C05_rebound_source_refuted :              (* F12: the source is bound again after the __all__ statement that read it *)
  exists top ms order,
    is_ok (py_import ms order []) = true /\
    agreeb top (griffe_sched top ms order) (py_table (py_import ms order [])) = false /\
    (exists m, In m ms /\ refs_ok_from (ms_children m) [] (ms_body m) = false).
Proof. exact rebound_source_refuted. Qed.
Print Assumptions C05_rebound_source_refuted.

(* ---- the real traversal against the schedule ----------------------------------------------------------------------------------- *)
(* expand_exports (expx): for every table, every fuel, every module not yet entered -- no hypothesis: the traversal performs exactly the
   schedule's export step for each module it enters, in the order in which it completes them *)
Theorem C05_real_exports_phase_is_a_schedule :
  forall fuel top mp s s',
  expx fuel top mp s = Done s' -> ~ In mp (xseen s) ->
  exists order, xt s' = fold_left (sched_exports_step (S (List.length (xt s) * 8 + 64)) top) order (xt s) /\
                (forall m, In m order -> ~ In m (xseen s)) /\ In mp (xseen s') /\ xdone s' = rev order ++ xdone s.
Proof. exact expx_is_a_schedule. Qed.
Print Assumptions C05_real_exports_phase_is_a_schedule.

(* expand_wildcards (expw): for every table with one entry per name in each module, every fuel: the traversal performs exactly the
   schedule's wildcard step for each module it enters, in completion order, provided each wildcard import of a module names a module of
   the table when that module is completed (ok_run; otherwise the `a/b/*` pseudo-member stays, which the schedule does not model) *)
Theorem C05_real_wildcard_phase_is_a_schedule :
  forall fuel top mp s s',
  expw fuel top mp s = Done s' -> ~ In mp (wseen s) -> keys_ok (wt s) ->
  exists order, (forall m, In m order -> ~ In m (wseen s)) /\ wdone s' = rev order ++ wdone s /\
                (ok_run (S (List.length (wt s) * 8 + 64)) top order (wt s) ->
                 wt s' = fold_left (sched_wild_step (S (List.length (wt s) * 8 + 64)) top) order (wt s)).
Proof. exact expw_is_a_schedule. Qed.
Print Assumptions C05_real_wildcard_phase_is_a_schedule.

Theorem C05_load_is_two_schedules :
  forall top ms l,
  griffe_load top ms = Done l ->
  exists order_x order_w,
    let fl := S (List.length ms * 8 + 64) in
    let tx := fold_left (sched_exports_step fl top) order_x (initial_table ms) in
    (ok_run fl top order_w tx -> l_table l = fold_left (sched_wild_step fl top) order_w tx).
Proof. exact load_is_two_schedules. Qed.
Print Assumptions C05_load_is_two_schedules.

(* the same with the orders made explicit (the modules in the order in which each phase marks them done) and the side condition
   as the boolean the extracted model evaluates on every generated package *)
Theorem C05_load_phases_explicit :
  forall top ms x w,
  expx (total_fuel ms) top [top] (mkX (initial_table ms) [] false [] [] [] []) = Done x ->
  expw (total_fuel ms) top [top] (mkW (xt x) [] [] [] (xunsup x) [] []) = Done w ->
  let fl := S (List.length ms * 8 + 64) in
  let tx := fold_left (sched_exports_step fl top) (rev (xdone x)) (initial_table ms) in
  xt x = tx /\
  (ok_runb fl top (rev (wdone w)) tx = true -> wt w = fold_left (sched_wild_step fl top) (rev (wdone w)) tx).
Proof. exact load_phases_decidable. Qed.
Print Assumptions C05_load_phases_explicit.

Theorem C05_load_is_two_schedules_not_vacuous :
  let fl := S (List.length w13 * 8 + 64) in
  let tx := fold_left (sched_exports_step fl "q") ox13 (initial_table w13) in
  ok_run fl "q" ow13 tx /\
  exists l, griffe_load "q" w13 = Done l /\ l_table l = fold_left (sched_wild_step fl "q") ow13 tx.
Proof. exact load_two_schedules_not_vacuous. Qed.
Print Assumptions C05_load_is_two_schedules_not_vacuous.

(* ---- the real traversal against CPython, end to end, for a decidable sub-class ------------------------------------------------------ *)
(* No schedule is assumed.  For programs whose __all__ statements list strings only, if the order o in which the wildcard phase of
   griffe_load completes the modules is an order for which the hypotheses of C05_composition hold (CPython can import the modules in
   that order) and every wildcard import names a module (ok_runb), the table griffe_load itself produces agrees with CPython.  Every
   hypothesis is decidable and evaluated by the extracted model on every generated package. *)
Theorem C05_real_traversal_agrees :
  forall top ms l pt,
  griffe_load top ms = Done l ->
  no_refsb ms = true ->
  let o := load_wild_order top ms in
  ok_runb (S (List.length ms * 8 + 64)) top o (initial_table ms) = true ->
  wf_prog top ms o = true ->
  py_import ms o [] = POk pt ->
  wf_run ms pt = true ->
  agreeb top (l_table l) pt = true.
Proof. exact real_traversal_agrees. Qed.
Print Assumptions C05_real_traversal_agrees.

Theorem C05_real_traversal_agrees_not_vacuous :
  exists l pt,
    griffe_load "r" w14 = Done l /\ no_refsb w14 = true /\
    load_wild_order "r" w14 = [["r"; "a"]; ["r"; "b"]; ["r"]] /\
    ok_runb (S (List.length w14 * 8 + 64)) "r" (load_wild_order "r" w14) (initial_table w14) = true /\
    wf_prog "r" w14 (load_wild_order "r" w14) = true /\
    py_import w14 (load_wild_order "r" w14) [] = POk pt /\ wf_run w14 pt = true /\
    agreeb "r" (l_table l) pt = true.
Proof. exact real_traversal_theorem_not_vacuous. Qed.
Print Assumptions C05_real_traversal_agrees_not_vacuous.

(* ---- the model against definitions regenerated from the source on every run (Gen/C05_ladder.v) -------------------------------------- *)
Theorem C05_wildcard_exposed_is_generated :
  forall st n m,
  wildcard_exposed st n m =
  gen_is_wildcard_exposed true true true (exports st) n (is_alias m) (is_module_obj m) (mem_str n (imports st)).
Proof. exact wildcard_exposed_is_generated. Qed.
Print Assumptions C05_wildcard_exposed_is_generated.

Theorem C05_line_rule_is_generated :
  (forall old new, gen_overwrite old new = Nat.ltb old new) /\
  (forall ms e old, lookup (e_name e) ms = Some old ->
     basic_apply_one ms e = if gen_overwrite (member_lineno old) (e_ln e) then assign (e_name e) (wrap e) ms else ms).
Proof. split; [exact overwrite_is_generated|exact basic_apply_one_uses_generated_rule]. Qed.
Print Assumptions C05_line_rule_is_generated.

Theorem C05_skipped_import_is_generated :
  forall mp is_init st ln tgt n asn has_module level,
  gen_skip_bare_import has_module level (match asn with Some _ => true | None => false end) is_init = true ->
  visit_stmt mp is_init st (SFrom ln tgt n asn (negb has_module && Nat.eqb level 1)) = st.
Proof. exact visit_skips_what_the_source_skips. Qed.
Print Assumptions C05_skipped_import_is_generated.
