(* C19 - Merging stubs loses nothing and prefers stub types.
   Property theorems only: each closed by [exact] of a lemma from Proofs/, followed by Print Assumptions.
   merge_obj s o models _merge_module_stubs(o, s) / _merge_class_stubs(o, s) of merger.py (stubs first);
   Done r = returned normally with o mutated into r, Raised e p = raised e leaving o as p.
   Al = alias whose target is not loaded, AlTo = alias carrying the value of its loaded final target.
   The model is that of the code after the repairs of findings C19-F1, F2, F3, F5: no theorem about merging carries a gap
   hypothesis.  The loader's SECOND merge of the same pair (Model/C19_reload.v: remerge, load_package2) is proved to
   change nothing. *)
From Coq Require Import List ZArith String Bool Arith.
From Verif Require Import Lib.Sexp Model.C19_merge Proofs.C19_merge Model.C19_reload Model.C19_seq Proofs.C19_reload Proofs.C19_chain Proofs.C19_seq Proofs.C19_subs.
Import ListNotations.
Open Scope string_scope. Open Scope list_scope. Open Scope nat_scope.

(* Nothing is lost, at any depth, for any pair of trees: every path of the runtime tree leads, in the merged
   tree, to a member of the same kind (or to an alias with the same target when it was one). *)
Theorem C19_keeps_runtime_members :
  forall s o r p x, merge_obj s o = Done r -> at_path p o = Some x ->
  exists y, at_path p r = Some y /\ shape_of y = shape_of x /\ alias_id y = alias_id x.
Proof. exact keeps_runtime_members. Qed.
Print Assumptions C19_keeps_runtime_members.

(* ... and also in the partially merged object a raising merge (ill-formed stubs) would leave behind. *)
Theorem C19_keeps_runtime_members_even_when_raising :
  forall s o e part p x, merge_obj s o = Raised e part -> at_path p o = Some x ->
  exists y, at_path p part = Some y /\ shape_of y = shape_of x /\ alias_id y = alias_id x.
Proof. exact keeps_runtime_members_even_when_raising. Qed.
Print Assumptions C19_keeps_runtime_members_even_when_raising.

(* Aliases of the runtime tree whose target is not loaded are never replaced, retargeted or re-flagged, at any depth. *)
Theorem C19_never_touches_aliases :
  forall s o r p tg rt, out_tree (merge_obj s o) = r -> at_path p o = Some (Al tg rt) -> at_path p r = Some (Al tg rt).
Proof. exact never_touches_aliases. Qed.
Print Assumptions C19_never_touches_aliases.

(* Merging never raises: stubs as the visitor builds them (every module / class has its buffer dict) merge into any
   module or class - whatever kinds, aliases and pending overload groups are on either side. *)
Theorem C19_never_raises :
  forall s, dict_ok s = true -> root_container s = true -> forall od oms, exists r, merge_obj s (Obj od oms) = Done r.
Proof. exact never_raises. Qed.
Print Assumptions C19_never_raises.

(* One merged scope (module or class), names unique as in a dict: the scope's own docstring only when missing,
   imports updated, runtime members keep their position, stub-only members appended in stub order. *)
Theorem C19_scope_level :
  forall sd sms od oms r,
  merge_obj (Obj sd sms) (Obj od oms) = Done r -> NoDup (names sms) -> NoDup (names (buf_of sd)) ->
  exists rd rms, r = Obj rd rms /\ nkind rd = nkind od /\ ndoc rd = merge_doc (ndoc od) (ndoc sd) /\
    nimp rd = update_imports (nimp od) (nimp sd) /\ nrt rd = nrt od /\ nov rd = nov od /\
    names rms = names oms ++ filter (fresh (names oms)) (names sms).
Proof. exact scope_level. Qed.
Print Assumptions C19_scope_level.

(* The whole field table as one equation: what is under each name afterwards.  [buffered] = the effect of the
   stubs' pending overload groups (functions only), [table] = stub-only / runtime-only / both (member_result: per kind). *)
Theorem C19_field_table :
  forall sd sms od oms r,
  merge_obj (Obj sd sms) (Obj od oms) = Done r -> NoDup (names sms) -> NoDup (names (buf_of sd)) ->
  exists rms,
    r = Obj (with_imp (with_doc od (merge_doc (ndoc od) (ndoc sd))) (update_imports (nimp od) (nimp sd))) rms /\
    names rms = names oms ++ filter (fresh (names oms)) (names sms) /\
    forall n, lookup n rms = table merge_obj sms n (option_map (buffered (buf_of sd) n) (lookup n oms)).
Proof. exact field_table. Qed.
Print Assumptions C19_field_table.

(* Function on both sides: returns from the stubs; each runtime parameter takes the annotation of the stub
   parameter of the same name (names and order stay the runtime ones); docstring only when missing; overloads from
   the stub function if it has any, else from the stubs' pending group of that name, else the runtime ones. *)
Theorem C19_function_row :
  forall sd sms od oms r n omd omms smd smms,
  merge_obj (Obj sd sms) (Obj od oms) = Done r -> NoDup (names sms) -> NoDup (names (buf_of sd)) ->
  lookup n oms = Some (Obj omd omms) -> lookup n sms = Some (Obj smd smms) ->
  nkind omd = KFun -> nkind smd = KFun -> NoDup (names (nparams smd)) ->
  exists rd, lookup n (members r) = Some (Obj rd omms) /\
    nkind rd = KFun /\ nrt rd = nrt omd /\
    nret rd = nret smd /\
    names (nparams rd) = names (nparams omd) /\
    (forall p, lookup p (nparams rd) =
       match lookup p (nparams omd) with
       | None => None
       | Some a => Some (match lookup p (nparams smd) with Some a' => a' | None => a end)
       end) /\
    ndoc rd = merge_doc (ndoc omd) (ndoc smd) /\
    nov rd = if truthy (nov smd) then nov smd
             else match hit1 (buf_of sd) n with Some ovs => OvList ovs | None => nov omd end.
Proof. exact function_row. Qed.
Print Assumptions C19_function_row.

(* Attribute on both sides: annotation from the stubs, docstring only when missing, nothing else. *)
Theorem C19_attribute_row :
  forall sd sms od oms r n omd omms smd smms,
  merge_obj (Obj sd sms) (Obj od oms) = Done r -> NoDup (names sms) -> NoDup (names (buf_of sd)) ->
  lookup n oms = Some (Obj omd omms) -> lookup n sms = Some (Obj smd smms) ->
  nkind omd = KAttr -> nkind smd = KAttr ->
  exists rd, lookup n (members r) = Some (Obj rd omms) /\
    nkind rd = KAttr /\ nrt rd = nrt omd /\ nov rd = nov omd /\
    nann rd = nann smd /\ ndoc rd = merge_doc (ndoc omd) (ndoc smd).
Proof. exact attribute_row_fields. Qed.
Print Assumptions C19_attribute_row.

Theorem C19_docstring_rule : forall o s, merge_doc o s = match o with Some d => Some d | None => s end.
Proof. exact merge_doc_rule. Qed.
Print Assumptions C19_docstring_rule.

(* Class / module on both sides: the member is the completed merge of the two
   (so every theorem here applies one level down: the table holds at every depth). *)
Theorem C19_container_row :
  forall sd sms od oms r n omd omms smd smms,
  merge_obj (Obj sd sms) (Obj od oms) = Done r -> NoDup (names sms) -> NoDup (names (buf_of sd)) ->
  lookup n oms = Some (Obj omd omms) -> lookup n sms = Some (Obj smd smms) ->
  nkind omd = nkind smd -> is_container (nkind omd) = true -> dict_ok (Obj smd smms) = true ->
  exists r', merge_obj (Obj smd smms) (Obj omd omms) = Done r' /\ lookup n (members r) = Some r'.
Proof. exact container_row_done. Qed.
Print Assumptions C19_container_row.

(* Stub-only members are added, flagged runtime=False, otherwise as the stubs have them. *)
Theorem C19_stub_only_marked_not_runtime :
  forall sd sms od oms r n sm,
  merge_obj (Obj sd sms) (Obj od oms) = Done r -> NoDup (names sms) -> NoDup (names (buf_of sd)) ->
  lookup n oms = None -> lookup n sms = Some sm ->
  lookup n (members r) = Some (set_rt false sm) /\ runtime_of (set_rt false sm) = false /\
  shape_of (set_rt false sm) = shape_of sm /\ members (set_rt false sm) = members sm.
Proof. exact stub_only_marked_not_runtime. Qed.
Print Assumptions C19_stub_only_marked_not_runtime.

(* Kind mismatch, stub alias, or no stub member at all: a runtime object that is not a function is untouched
   (whatever pending overload groups the stubs carry). *)
Theorem C19_untouched :
  forall sd sms od oms r n omd omms,
  merge_obj (Obj sd sms) (Obj od oms) = Done r -> NoDup (names sms) -> NoDup (names (buf_of sd)) ->
  lookup n oms = Some (Obj omd omms) -> nkind omd <> KFun -> stub_side_irrelevant (lookup n sms) (Obj omd omms) ->
  lookup n (members r) = Some (Obj omd omms).
Proof. exact untouched. Qed.
Print Assumptions C19_untouched.

(* Kind mismatch with an object on both sides, in general (a runtime function may still take the pending overloads). *)
Theorem C19_mismatch_row :
  forall sd sms od oms r, merge_obj (Obj sd sms) (Obj od oms) = Done r -> NoDup (names sms) -> NoDup (names (buf_of sd)) ->
  forall n omd omms smd smms,
  lookup n oms = Some (Obj omd omms) -> lookup n sms = Some (Obj smd smms) -> nkind omd <> nkind smd ->
  lookup n (members r) = Some (buffered (buf_of sd) n (Obj omd omms)).
Proof. exact mismatch_row. Qed.
Print Assumptions C19_mismatch_row.

(* An alias on either side: a stub alias never changes the runtime member beyond the pending-overloads rule;
   a runtime alias whose target is not loaded stays exactly as it is. *)
Theorem C19_stub_alias_row :
  forall sd sms od oms r, merge_obj (Obj sd sms) (Obj od oms) = Done r -> NoDup (names sms) -> NoDup (names (buf_of sd)) ->
  forall n om tg rt, lookup n oms = Some om -> lookup n sms = Some (Al tg rt) ->
  lookup n (members r) = Some (buffered (buf_of sd) n om).
Proof. exact stub_alias_row. Qed.
Print Assumptions C19_stub_alias_row.

Theorem C19_runtime_alias_row :
  forall sd sms od oms r, merge_obj (Obj sd sms) (Obj od oms) = Done r -> NoDup (names sms) -> NoDup (names (buf_of sd)) ->
  forall n tg rt sm, lookup n oms = Some (Al tg rt) -> lookup n sms = Some sm ->
  lookup n (members r) = Some (Al tg rt).
Proof. exact runtime_alias_row. Qed.
Print Assumptions C19_runtime_alias_row.

(* The runtime member is an alias to a loaded object: the stub is merged into the target, through the alias -
   the very same merge as for a direct member (stub-only members of the class included). *)
Theorem C19_alias_target_function_row :
  forall sd sms od oms r, merge_obj (Obj sd sms) (Obj od oms) = Done r -> NoDup (names sms) -> NoDup (names (buf_of sd)) ->
  forall n tg rt omd omms smd smms,
  lookup n oms = Some (AlTo tg rt (Obj omd omms)) -> lookup n sms = Some (Obj smd smms) ->
  nkind omd = KFun -> nkind smd = KFun -> hit1 (buf_of sd) n = None ->
  lookup n (members r) = Some (AlTo tg rt (Obj (merge_fun omd smd) omms)).
Proof. exact alias_target_function_row. Qed.
Print Assumptions C19_alias_target_function_row.

Theorem C19_alias_target_container_row :
  forall sd sms od oms r, merge_obj (Obj sd sms) (Obj od oms) = Done r -> NoDup (names sms) -> NoDup (names (buf_of sd)) ->
  forall n tg rt omd omms smd smms,
  lookup n oms = Some (AlTo tg rt (Obj omd omms)) -> lookup n sms = Some (Obj smd smms) ->
  nkind omd = nkind smd -> is_container (nkind omd) = true ->
  lookup n (members r) = Some (AlTo tg rt (out_tree (merge_obj (Obj smd smms) (Obj omd omms)))).
Proof. exact alias_target_container_row. Qed.
Print Assumptions C19_alias_target_container_row.

(* merge_stubs(mod1, mod2) decides by the .pyi suffix only: same result in both argument orders;
   two regular modules are rejected with ValueError. *)
Theorem C19_order_independent :
  forall a b, xorb (is_pyi a) (is_pyi b) = true -> merge_stubs a b = merge_stubs b a.
Proof. exact merge_stubs_comm. Qed.
Print Assumptions C19_order_independent.

Theorem C19_two_regular_modules_rejected :
  forall a b, is_pyi a = false -> is_pyi b = false -> merge_stubs a b = Err EValue.
Proof. exact merge_stubs_two_regular. Qed.
Print Assumptions C19_two_regular_modules_rejected.

(* set_member's implicit merge (m.py / m.pyi met in either order): the same merged runtime module either way. *)
Theorem C19_set_member_order :
  forall s od oms, dict_ok s = true -> root_container s = true ->
  set_member_module (mkF true s) (mkF false (Obj od oms)) = set_member_module (mkF false (Obj od oms)) (mkF true s) /\
  exists r, set_member_module (mkF true s) (mkF false (Obj od oms)) = Ok (mkF false r) /\ merge_obj s (Obj od oms) = Done r.
Proof. exact set_member_order. Qed.
Print Assumptions C19_set_member_order.

(* the hypotheses above are satisfiable together, on a pair that exercises every row *)
Theorem C19_hypotheses_satisfiable :
  exists r, merge_obj ex_s ex_o = Done r /\ NoDup (names (members ex_s)) /\ NoDup (names (root_buf ex_s)) /\
    dict_ok ex_s = true /\
    at_path ["f"] r = Some (Obj (with_ret (with_params (nd KFun) [("x", Some "int"); ("y", Some "bytes")]) (Some "int")) []) /\
    at_path ["K"] r = Some (Obj (scope KCls []) []) /\
    at_path ["g"] r = Some (Al "ext.g" true) /\
    at_path ["C"] r = Some (AlTo "pkg.impl.C" true ex_C) /\
    at_path ["only"] r = Some (Obj (with_rt (with_ret (nd KFun) (Some "str")) false) []) /\
    names (members r) = ["f"; "K"; "g"; "C"; "only"].
Proof. exact hypotheses_satisfiable. Qed.
Print Assumptions C19_hypotheses_satisfiable.

(* the inputs that refuted the property before the repairs (F1: alias + overload-only stubs, F2: class + overload-only
   stubs, F3: stub-only method of a re-exported class) now satisfy it *)
Theorem C19_repaired_witnesses :
  merge_obj ex_s_F1 ex_o = Done ex_o /\
  set_member_module (mkF true ex_s_F1) (mkF false ex_o) = set_member_module (mkF false ex_o) (mkF true ex_s_F1) /\
  merge_obj ex_s_F2 ex_o = Done ex_o /\
  (exists r, merge_obj ex_s_F3 ex_o = Done r /\
     at_path ["C"; "m"] r = Some (Obj (with_ret (with_params (nd KFun) [("self", None)]) (Some "int")) []) /\
     at_path ["C"; "only"] r = Some (Obj (with_rt (with_ret (with_params (nd KFun) [("self", None)]) (Some "int")) false) [])).
Proof. exact repaired_witnesses. Qed.
Print Assumptions C19_repaired_witnesses.

(* ---------------------------------------------------------------------------------------------------------------------
   The loader merges a package's __init__ stubs TWICE (modules-collection set_member, then merge_stubs in _load_package).
   remerge s o r = the second _merge_module_stubs(o, s) where o was already merged into r: objects, not values - the
   stub-only members moved into the runtime tree by the first merge are stub member and runtime member at once and are
   skipped (`if obj_member is stub_member: continue`, /repo 79c2f6a, the repair of finding C19-F5).
   wfs = names of members / parameters / imports / buffer keys are unique at every depth (they are dicts);
   has_dicts = every module / class of the stubs carries its pending-overloads dict (as the visitor builds them). *)

(* The second merge changes nothing, for all trees: docstrings, imports, annotations, returns, overloads, order, the
   pending-overloads dicts, at every depth (each field rule is idempotent, moved members are skipped). *)
Theorem C19_second_merge_changes_nothing :
  forall s, wfs s -> has_dicts s = true -> root_container s = true ->
  forall o r, merge_obj s o = Done r -> remerge s o r = Done r.
Proof. exact second_merge_identity. Qed.
Print Assumptions C19_second_merge_changes_nothing.

(* Idempotence of the loader's double merge, unconditionally (stubs on the package __init__, in the package itself): the
   loaded module IS the single merge - the very result of the sibling-.pyi placement. *)
Theorem C19_double_merge_idempotent :
  forall s, wfs s -> has_dicts s = true -> root_container s = true ->
  forall top r, merge_obj s top = Done r -> load_package2 top s [] = Ok r.
Proof. exact load_package_in_package_stubs. Qed.
Print Assumptions C19_double_merge_idempotent.

(* non-vacuity, and the former refutation input of C19-F5 (class S: def g(self, x: float) -> float; @overload def g(self,
   x: int) -> int, only in the stubs) now satisfying the property: S.g keeps no overload list in either placement; an
   ordinary stub-only class keeps its pending group *)
Theorem C19_double_merge_examples :
  wfs ex5_s /\ has_dicts ex5_s = true /\ root_container ex5_s = true /\
  wfs ex5_s_ok /\ has_dicts ex5_s_ok = true /\ root_container ex5_s_ok = true /\
  (exists r, merge_obj ex5_s ex5_o = Done r /\ load_package2 ex5_o ex5_s [] = Ok r /\ at_path ["S"; "g"] r = Some ex5_g) /\
  (exists r, merge_obj ex5_s_ok ex5_o = Done r /\ load_package2 ex5_o ex5_s_ok [] = Ok r /\
     at_path ["S"] r = Some (set_rt false (ex5_S [("m", ["m(self) -> int"; "m(self, x: int) -> str"])] [("k", ex5_g)]))).
Proof. exact double_merge_examples. Qed.
Print Assumptions C19_double_merge_examples.

(* known finding C19-F4 (replayed on the implementation on every run): in-package stubs of a submodule are merged while
   the submodules are loaded, before `from _pkg import *` of the runtime module is expanded - the model of one merge, fed
   the runtime module as visited (one unexpanded wildcard alias), makes the re-exported function a stub-only member. *)
Theorem C19_F4_wildcard_facade_refuted :
  exists r, set_member_module (mkF false ex4_o) (mkF true ex4_s) = Ok (mkF false r) /\
    set_member_module (mkF true ex4_s) (mkF false ex4_o) = Ok (mkF false r) /\
    names (members r) = ["_pkg/*"; "scale"] /\
    at_path ["scale"] r = Some (set_rt false ex4_scale) /\ runtime_of (set_rt false ex4_scale) = false.
Proof. exact F4_wildcard_facade_refuted. Qed.
Print Assumptions C19_F4_wildcard_facade_refuted.

(* known finding C19-F6 (replayed on the implementation on every run), on the sequential model of one package
   (Model/C19_seq.v: files arrive in listing order, a pair is merged when its second file arrives, aliases are resolved
   against what is loaded at that moment and merged through).  pkg/m.py: A = 1, pkg/m.pyi: A: int, pkg/user.py:
   from pkg.m import A, pkg/user.pyi: A: complex.  With user's pair between the two files of m's pair, which file of m's
   pair comes first decides pkg.m.A's annotation, and stubs-first leaves the alias pkg.user.A bound to the dropped stub
   object; with the two files adjacent both orders agree. *)
Theorem C19_interleaved_pair_order_refuted :
  let stubs_first := load_seq 8 "pkg" [("m", ex6_mpyi); ("user", ex6_upy); ("user", ex6_upyi); ("m", ex6_mpy)] in
  let runtime_first := load_seq 8 "pkg" [("m", ex6_mpy); ("user", ex6_upy); ("user", ex6_upyi); ("m", ex6_mpyi)] in
  ann_of_A stubs_first = Some (Some "complex") /\ ann_of_A runtime_first = Some (Some "int") /\
  s_stale stubs_first = ["pkg.user.A"] /\ s_stale runtime_first = [] /\
  s_dirty stubs_first = false /\ s_dirty runtime_first = false /\
  s_mods (load_seq 8 "pkg" [("m", ex6_mpyi); ("m", ex6_mpy); ("user", ex6_upy); ("user", ex6_upyi)]) =
  s_mods (load_seq 8 "pkg" [("m", ex6_mpy); ("m", ex6_mpyi); ("user", ex6_upy); ("user", ex6_upyi)]).
Proof. exact interleaved_pair_order_refuted. Qed.
Print Assumptions C19_interleaved_pair_order_refuted.

(* Chains of aliases to a loaded object (m.X -> b_mid.X -> a_impl.X, any length): the final target gets exactly the merge
   a directly defined object gets (member_result on the object itself: the function / attribute / container rows above),
   every link of the chain stays an alias with its target and runtime flag, and the chain ends where it ended. *)
Theorem C19_alias_chain_row :
  forall sd sms od oms r n om sm omd omms,
  merge_obj (Obj sd sms) (Obj od oms) = Done r -> NoDup (names sms) -> NoDup (names (buf_of sd)) ->
  lookup n oms = Some om -> lookup n sms = Some sm -> hit1 (buf_of sd) n = None ->
  final om = Obj omd omms ->
  let x := member_result merge_obj sm (Obj omd omms) in
  lookup n (members r) = Some (retarget om x) /\
  alias_chain (retarget om x) = alias_chain om ++ alias_chain x /\
  final (retarget om x) = final x.
Proof. exact alias_chain_row. Qed.
Print Assumptions C19_alias_chain_row.

(* Order independence at the level of the package (sequential model): when the two files of a pair arrive one right after
   the other - no file of another module in between, the complement of known finding C19-F6 - both orders lead to the
   SAME state (modules, alias bindings, stale aliases), namely pair_result: the stubs merged into the runtime module with
   its aliases resolved against the modules loaded before.  Hypotheses: the module is not loaded yet, nothing loaded so far
   points into it (clean / state_clean / bindings), stubs as the visitor builds them. *)
Theorem C19_adjacent_pair_order_independent :
  forall fuel pk s n a b stb md,
  s_err s = None -> lookup n (s_mods s) = None ->
  (forall bd, In bd (s_bound s) -> b_home bd <> n) ->
  state_clean n (s_mods s) -> clean n (body a) -> clean n (body b) ->
  roles a b = Some (stb, md) -> xorb (is_pyi a) (is_pyi b) = true ->
  dict_ok (body stb) = true -> root_container (body stb) = true -> root_container (body md) = true ->
  arrive fuel pk (arrive fuel pk s (n, a)) (n, b) = arrive fuel pk (arrive fuel pk s (n, b)) (n, a) /\
  arrive fuel pk (arrive fuel pk s (n, a)) (n, b) = pair_result fuel pk s n stb md /\
  s_err (pair_result fuel pk s n stb md) = None.
Proof. exact adjacent_pair_order_independent. Qed.
Print Assumptions C19_adjacent_pair_order_independent.

(* ... for whole listings: swapping two adjacent files of a pair anywhere in the listing does not change the outcome *)
Theorem C19_load_seq_adjacent_pair :
  forall fuel pk pre post n a b stb md,
  let s := fold_left (arrive fuel pk) pre (mkS [] [] [] false None) in
  s_err s = None -> lookup n (s_mods s) = None ->
  (forall bd, In bd (s_bound s) -> b_home bd <> n) ->
  state_clean n (s_mods s) -> clean n (body a) -> clean n (body b) ->
  roles a b = Some (stb, md) -> xorb (is_pyi a) (is_pyi b) = true ->
  dict_ok (body stb) = true -> root_container (body stb) = true -> root_container (body md) = true ->
  load_seq fuel pk (pre ++ (n, a) :: (n, b) :: post) = load_seq fuel pk (pre ++ (n, b) :: (n, a) :: post).
Proof. exact load_seq_adjacent_pair. Qed.
Print Assumptions C19_load_seq_adjacent_pair.

(* non-vacuity: a_impl.py loaded, then m.pyi / m.py (from pkg.a_impl import f): every hypothesis holds, and the stub's
   types arrive in a_impl.f through the alias *)
Theorem C19_adjacent_pair_hypotheses_satisfiable :
  let s := fold_left (arrive 8 "pkg") [("a_impl", exs_impl)] (mkS [] [] [] false None) in
  s_err s = None /\ lookup "m" (s_mods s) = None /\ (forall bd, In bd (s_bound s) -> b_home bd <> "m") /\
  state_clean "m" (s_mods s) /\ clean "m" (body exs_mpyi) /\ clean "m" (body exs_mpy) /\
  roles exs_mpyi exs_mpy = Some (exs_mpyi, exs_mpy) /\ xorb (is_pyi exs_mpyi) (is_pyi exs_mpy) = true /\
  dict_ok (body exs_mpyi) = true /\ root_container (body exs_mpyi) = true /\ root_container (body exs_mpy) = true /\
  s_mods (load_seq 8 "pkg" [("a_impl", exs_impl); ("m", exs_mpyi); ("m", exs_mpy)]) =
    [("a_impl", mkF false (Obj (scope KMod []) [("f", Obj (with_ret (with_params (nd KFun) [("x", Some "int")]) (Some "int")) [])]));
     ("m", exs_mpy)].
Proof. exact adjacent_pair_hypotheses_satisfiable. Qed.
Print Assumptions C19_adjacent_pair_hypotheses_satisfiable.

(* Stubs in a separate stubs package (pkg-stubs): its submodules are loaded into the stubs module between the two merges.
   The loaded package = the single merge of the __init__ pair followed by ONE ordinary merge of the stubs submodules into
   the runtime package - so every one-merge theorem above applies to the submodules as it stands.  Submodule names are
   unique and bound by nothing in the stubs __init__. *)
Theorem C19_double_merge_stubs_package :
  forall s subs, wfs s -> has_dicts s = true -> root_container s = true ->
  NoDup (names subs) -> (forall n, In n (names subs) -> ~ In n (names (members s))) ->
  forall top rd rms, merge_obj s top = Done (Obj rd rms) ->
    load_package2 top s subs =
    match merge_members merge_obj subs rms with
    | (rms', None) => Ok (Obj rd rms')
    | (_, Some e) => Err e
    end.
Proof. exact load_package_stubs_package. Qed.
Print Assumptions C19_double_merge_stubs_package.

Theorem C19_double_merge_stubs_package_example :
  NoDup (names exp_subs) /\ (forall n, In n (names exp_subs) -> ~ In n (names (members ex5_s_ok))) /\
  exists t, load_package2 exp_top ex5_s_ok exp_subs = Ok t /\
    at_path ["sub"; "h"] t = Some (Obj (with_ret (with_params (nd KFun) [("x", Some "int")]) (Some "int")) []) /\
    at_path ["S"] t = Some (set_rt false (ex5_S [("m", ["m(self) -> int"; "m(self, x: int) -> str"])] [("k", ex5_g)])).
Proof. exact stubs_package_example. Qed.
Print Assumptions C19_double_merge_stubs_package_example.
