From Coq Require Import List ZArith String Bool Arith.
From Verif Require Import Lib.Sexp Model.C19_merge Proofs.C19_merge.
Theorem C19_placeholder : forall o s x, o = Some x -> merge_doc o s = Some x.
Proof. exact merge_doc_keeps. Qed.
Print Assumptions C19_placeholder.
