(* C16 — Object-tree invariants hold after any history of member mutations.
   Property theorems only: each closed by [exact] of a lemma from Proofs/, followed by Print Assumptions.

   Model/C16_tree.v: heap of nodes (name, kind, parent, members, target, target_path, aliases, collection link) + the
   collection's own dictionary; [step] models set_member / __setitem__ / del_member / __delitem__ / Alias.target= /
   Alias.resolve_target / the constructors; [run] folds it over a history.
   [top_down s o]: the operation inserts a FRESH object under its own name (ONew), never an alias directly into the
   collection, and every object it is applied to (receiver, alias operand) is in the tree at that moment.
   [all_top_down init ops] says so for every step of the history; [known_gap ops] is its negation. *)
From Coq Require Import List ZArith String Bool Arith.
From Verif Require Import Lib.Sexp Model.C16_tree Proofs.C16_tree.
Import ListNotations.
Open Scope list_scope. Open Scope nat_scope.

(* ---- the invariant: initially, preserved by every step, hence in every reachable state (any length) *)
Theorem C16_inv_init : Inv init.
Proof. exact inv_init. Qed.
Print Assumptions C16_inv_init.

Theorem C16_inv_step : forall s o, Inv s -> top_down s o = true -> Inv (fst (step s o)).
Proof. exact inv_step. Qed.
Print Assumptions C16_inv_step.

Theorem C16_inv_reachable : forall ops, all_top_down init ops = true -> Inv (run init ops).
Proof. exact inv_reachable. Qed.
Print Assumptions C16_inv_reachable.

(* ---- what the invariant says, clause by clause *)

(* every member's parent is its container, and it is stored under its own name *)
Theorem C16_parent_is_container :
  forall s, Inv s -> forall c cn k m, getn s c = Some cn -> is_ali (nkind cn) = false ->
  get s (RObj c) [k] = Ok m -> exists n, getn s m = Some n /\ nparent n = Some c /\ nname n = k.
Proof. intros s H. exact (parent_is_container s (proj1 H)). Qed.
Print Assumptions C16_parent_is_container.

(* members of the collection have no parent and reach the collection *)
Theorem C16_top_level_in_collection :
  forall s, Inv s -> forall k m, get s RRoot [k] = Ok m ->
  exists n, getn s m = Some n /\ nparent n = None /\ nname n = k /\ has_mc s m = Ok tt.
Proof. intros s H. exact (top_level_in_collection s (proj1 H)). Qed.
Print Assumptions C16_top_level_in_collection.

(* every object in the tree is what the collection returns for the object's own path *)
Theorem C16_retrievable_by_own_path :
  forall s, Inv s -> forall p x, get s RRoot p = Ok x -> path_of s x = POk p.
Proof. intros s H. exact (retrievable s (proj1 H)). Qed.
Print Assumptions C16_retrievable_by_own_path.

(* lookup by dotted path = chained lookup, in every state (the split of the key is get_parts) *)
Theorem C16_dotted_eq_chained :
  forall s p r q, p <> [] -> q <> [] ->
  get s r (p ++ q) = match get s r p with Ok x => get s (RObj x) q | Err e => Err e end.
Proof. exact get_app. Qed.
Print Assumptions C16_dotted_eq_chained.

(* deleted members are gone, in every state and through either API; a rejected deletion changes nothing *)
Theorem C16_deleted_gone :
  forall s a r p s', step s (ODel a r p) = (s', None) -> get s' r p = Err EMissing.
Proof. exact deleted_gone. Qed.
Print Assumptions C16_deleted_gone.

Theorem C16_rejected_del_unchanged :
  forall s a r p s' e, step s (ODel a r p) = (s', Some e) -> s' = s.
Proof. exact rejected_del_unchanged. Qed.
Print Assumptions C16_rejected_del_unchanged.

(* every resolved alias in the tree is listed among its target's aliases under its current path:
   FALSE for histories that build bottom-up (finding C16-F1) ... *)
Theorem C16_backref_listed_refuted : exists ops, known_gap ops = true /\ ~ Backref (run init ops).
Proof. exact backref_listed_refuted. Qed.
Print Assumptions C16_backref_listed_refuted.

(* ... and true of every history outside that gap *)
Theorem C16_backref_listed_modulo_known : forall ops, known_gap ops = false -> Backref (run init ops).
Proof. exact backref_listed_modulo_known. Qed.
Print Assumptions C16_backref_listed_modulo_known.

(* An alias can never be made to target itself: after ANY history of operations (no discipline assumed: detached
   construction, re-insertion, operations on objects outside the tree are all included) no node's target is the node. *)
Theorem C16_no_self_target :
  forall ops a n, getn (run init ops) a = Some n -> ntarget n <> Some a.
Proof. exact no_self_target. Qed.
Print Assumptions C16_no_self_target.

(* alias.target = alias raises CyclicAliasError and leaves the state unchanged, in every state *)
Theorem C16_self_assignment_rejected :
  forall s a n, getn s a = Some n -> nkind n = KAli -> step s (OSetTarget a a) = (s, Some ECyclic).
Proof. exact self_assignment_rejected. Qed.
Print Assumptions C16_self_assignment_rejected.

(* Aliases that pointed at an object replaced through the tree-building API follow the replacement:
   set_member (Producer) of a fresh object over a non-alias member m; every alias of the tree that targeted m
   targets the new object (id = old heap size) afterwards.  Needs no discipline beyond Inv of the state before. *)
Theorem C16_alias_follows_replacement :
  forall s r p k t s' c key m,
  Inv s -> step s (ONew Producer r p k t) = (s', None) ->
  locate s r p = Ok (c, key) -> get_at s c key = Ok m -> kind_of s m <> Some KAli ->
  forall q a n, get s RRoot q = Ok a -> getn s a = Some n -> ntarget n = Some m ->
  exists n', getn s' a = Some n' /\ ntarget n' = Some (List.length (heap s)).
Proof. exact alias_follows_replacement. Qed.
Print Assumptions C16_alias_follows_replacement.

(* by name, dotted path or tuple of names: _get_parts of the dotted string is the tuple (names are dot-free) *)
Theorem C16_parts_dotted_eq_tuple :
  forall l, l <> [] -> forallb nodotb l = true -> join_dot l <> ""%string ->
  get_parts (KStr (join_dot l)) = get_parts (KSeq l).
Proof. exact parts_dotted_eq_tuple. Qed.
Print Assumptions C16_parts_dotted_eq_tuple.

(* ---- refinement to the reference dictionary  path -> object  (dict_of s = what the collection returns per path) *)

(* a successful insertion/replacement at absolute path P: P now holds the new object (id = old heap size),
   everything strictly below P is gone, every other path is untouched *)
Theorem C16_refines_dict_set :
  forall s a P k t s', Inv s -> top_down s (ONew a RRoot P k t) = true ->
  step s (ONew a RRoot P k t) = (s', None) ->
  forall q, dict_of s' q = dict_set P (List.length (heap s)) (dict_of s) q.
Proof. exact refines_dict_new. Qed.
Print Assumptions C16_refines_dict_set.

(* a successful deletion at P removes exactly P and what is below it *)
Theorem C16_refines_dict_del :
  forall s a P s', Inv s -> step s (ODel a RRoot P) = (s', None) ->
  forall q, dict_of s' q = dict_del P (dict_of s) q.
Proof. exact refines_dict_del. Qed.
Print Assumptions C16_refines_dict_del.

(* rejected insertions and the operations on aliases leave the dictionary unchanged *)
Theorem C16_refines_dict_rejected :
  forall s a r P k t s' e, Inv s -> step s (ONew a r P k t) = (s', Some e) ->
  forall q, dict_of s' q = dict_of s q.
Proof. exact refines_dict_new_rejected. Qed.
Print Assumptions C16_refines_dict_rejected.

Theorem C16_refines_dict_alias_ops :
  forall s o, (exists a, o = OResolve a) \/ (exists a v, o = OSetTarget a v) ->
  forall q, dict_of (fst (step s o)) q = dict_of s q.
Proof. exact refines_dict_alias_ops. Qed.
Print Assumptions C16_refines_dict_alias_ops.
