(* C16 — Object-tree invariants hold after any history of member mutations.
   Property theorems only: each closed by [exact] of a lemma from Proofs/, followed by Print Assumptions.

   Model/C16_tree.v: heap of nodes (name, kind, parent, members, target, target_path, aliases, collection link) + the
   collection's own dictionary; [step ab] models set_member / __setitem__ / del_member / __delitem__ / Alias.target= /
   Alias.resolve_target / the constructors; [run ab] folds it over a history.
   [ab]: inside set_member, is the new member stored and attached BEFORE the aliases of the replaced member are re-targeted?
   The translator reads it from the source (Gen/C16_shape.v: attach_before_retarget; the extracted model runs [step] at that
   value); every theorem below is proved for BOTH values, the two theorems about finding C16-F2 say where they differ.
   [top_down s o]: the operation inserts a FRESH object under its own name (ONew), or inserts AGAIN an alias - or an object
   without members - that was deleted or replaced and of which nothing is left behind (OSet: no container lists it, no aliases
   dictionary mentions it, no alias points at it); never an
   alias directly into the collection; every object it is applied to (receiver, alias operand) is in the tree at that moment.
   [all_top_down ab init ops] says so for every step of the history; [known_gap ab ops] is its negation. *)
From Coq Require Import List ZArith String Bool Arith.
From Verif Require Import Lib.Sexp.
From Verif Require Import Gen.C16_shape Model.C16_tree Model.C16_through Proofs.C16_tree Proofs.C16_through.
Import ListNotations.
Open Scope list_scope. Open Scope nat_scope.

(* ---- the invariant: initially, preserved by every step, hence in every reachable state (any length) *)
Theorem C16_inv_init : Inv init.
Proof. exact inv_init. Qed.
Print Assumptions C16_inv_init.

Theorem C16_inv_step : forall ab s o, Inv s -> top_down s o = true -> Inv (fst (step ab s o)).
Proof. exact inv_step. Qed.
Print Assumptions C16_inv_step.

Theorem C16_inv_reachable : forall ab ops, all_top_down ab init ops = true -> Inv (run ab init ops).
Proof. exact inv_reachable. Qed.
Print Assumptions C16_inv_reachable.

(* the discipline is not only "fresh objects": an alias that was replaced by a same-named alias to the same target is
   inserted again elsewhere, and both are listed under their paths (the history of seeded change C16-m4) *)
Theorem C16_reattach_in_discipline : forall ab,
  all_top_down ab init sample_reattach = true /\
  option_map naliases (getn (run ab init sample_reattach) 2) = Some [(["c"; "c"]%string, 4); (["a"; "c"]%string, 3)].
Proof. intro ab. split; [exact (sample_reattach_disciplined ab) | exact (proj1 (sample_reattach_listed ab))]. Qed.
Print Assumptions C16_reattach_in_discipline.

(* ... and so is a deleted function that is inserted again in another module (objects without members qualify, too) *)
Theorem C16_reattach_plain_in_discipline : forall ab,
  all_top_down ab init sample_reattach_plain = true /\
  get (run ab init sample_reattach_plain) RRoot ["n"; "f"]%string = Ok 2 /\
  path_of (run ab init sample_reattach_plain) 2 = POk ["n"; "f"]%string.
Proof. exact sample_reattach_plain_disciplined. Qed.
Print Assumptions C16_reattach_plain_in_discipline.

(* ---- what the invariant says, clause by clause *)

(* every member's parent is its container, and it is stored under its own name *)
Theorem C16_parent_is_container :
  forall s, Inv s -> forall c cn k m, getn s c = Some cn -> is_ali (nkind cn) = false ->
  get s (RObj c) [k] = Ok m -> exists n, getn s m = Some n /\ nparent n = Some c /\ nname n = k.
Proof. intros s H. exact (parent_is_container s (proj1 H)). Qed.
Print Assumptions C16_parent_is_container.

(* members of the collection have no parent and reach the collection *)
Theorem C16_top_level_in_collection :
  forall s, Inv s -> forall k m, get s RRoot [k] = Ok m ->
  exists n, getn s m = Some n /\ nparent n = None /\ nname n = k /\ has_mc s m = Ok tt.
Proof. intros s H. exact (top_level_in_collection s (proj1 H)). Qed.
Print Assumptions C16_top_level_in_collection.

(* every object in the tree is what the collection returns for the object's own path *)
Theorem C16_retrievable_by_own_path :
  forall s, Inv s -> forall p x, get s RRoot p = Ok x -> path_of s x = POk p.
Proof. intros s H. exact (retrievable s (proj1 H)). Qed.
Print Assumptions C16_retrievable_by_own_path.

(* lookup by dotted path = chained lookup, in every state (the split of the key is get_parts) *)
Theorem C16_dotted_eq_chained :
  forall s p r q, p <> [] -> q <> [] ->
  get s r (p ++ q) = match get s r p with Ok x => get s (RObj x) q | Err e => Err e end.
Proof. exact get_app. Qed.
Print Assumptions C16_dotted_eq_chained.

(* deleted members are gone, in every state and through either API; a rejected deletion changes nothing *)
Theorem C16_deleted_gone :
  forall ab s a r p s', step ab s (ODel a r p) = (s', None) -> get s' r p = Err EMissing.
Proof. exact deleted_gone. Qed.
Print Assumptions C16_deleted_gone.

Theorem C16_rejected_del_unchanged :
  forall ab s a r p s' e, step ab s (ODel a r p) = (s', Some e) -> s' = s.
Proof. exact rejected_del_unchanged. Qed.
Print Assumptions C16_rejected_del_unchanged.

(* every resolved alias in the tree is listed among its target's aliases under its current path:
   FALSE for histories that build bottom-up (finding C16-F1) ... *)
Theorem C16_backref_listed_refuted : forall ab, exists ops, known_gap ab ops = true /\ ~ Backref (run ab init ops).
Proof. exact backref_listed_refuted. Qed.
Print Assumptions C16_backref_listed_refuted.

(* ... FALSE when an alias comes back while its old back-reference is still around (finding C16-F3: set_member re-targets
   the dead entry too, and it overwrites the live alias that now has that path) ... *)
Theorem C16_backref_clobbered_refuted : forall ab, known_gap ab witness_F3 = true /\ ~ Backref (run ab init witness_F3).
Proof. exact backref_clobbered_refuted. Qed.
Print Assumptions C16_backref_clobbered_refuted.

(* ... and true of every history outside that gap *)
Theorem C16_backref_listed_modulo_known : forall ab ops, known_gap ab ops = false -> Backref (run ab init ops).
Proof. exact backref_listed_modulo_known. Qed.
Print Assumptions C16_backref_listed_modulo_known.

(* An alias can never be made to target itself: after ANY history of operations (no discipline assumed: detached
   construction, re-insertion, operations on objects outside the tree are all included) no node's target is the node. *)
Theorem C16_no_self_target :
  forall ab ops a n, getn (run ab init ops) a = Some n -> ntarget n <> Some a.
Proof. exact no_self_target. Qed.
Print Assumptions C16_no_self_target.

(* alias.target = alias raises CyclicAliasError and leaves the state unchanged, in every state *)
Theorem C16_self_assignment_rejected :
  forall ab s a n, getn s a = Some n -> nkind n = KAli -> step ab s (OSetTarget a a) = (s, Some ECyclic).
Proof. exact self_assignment_rejected. Qed.
Print Assumptions C16_self_assignment_rejected.

(* Aliases that pointed at an object replaced through the tree-building API follow the replacement:
   set_member (Producer) of a fresh object over a non-alias member m; every alias of the tree that targeted m
   targets the new object (id = old heap size) afterwards, and its target_path is the path that object had when the
   aliases were re-targeted.  Needs Inv of the state before (and, in the order ab = true, a receiver that is in the tree). *)
Theorem C16_alias_follows_replacement :
  forall ab s r p k t s' c key m,
  Inv s -> step ab s (ONew Producer r p k t) = (s', None) ->
  locate s r p = Ok (c, key) -> get_at s c key = Ok m -> kind_of s m <> Some KAli ->
  (ab = true -> recv_live s r = true) ->
  forall q a n, get s RRoot q = Ok a -> getn s a = Some n -> ntarget n = Some m ->
  exists n', getn s' a = Some n' /\ ntarget n' = Some (List.length (heap s)) /\
             POk (ntpath n') = (if ab then path_of s' (List.length (heap s)) else POk [last p ""%string]).
Proof. exact alias_follows_replacement. Qed.
Print Assumptions C16_alias_follows_replacement.

(* following includes naming: the followed alias's target_path is the new member's path -- true in the order "attach, then
   re-target", refuted in the order "re-target, then attach" (finding C16-F2: the alias records the bare name) *)
Theorem C16_target_path_follows : TPathFollows true.
Proof. exact target_path_follows. Qed.
Print Assumptions C16_target_path_follows.

Theorem C16_target_path_follows_refuted : ~ TPathFollows false.
Proof. exact target_path_follows_refuted. Qed.
Print Assumptions C16_target_path_follows_refuted.

(* by name, dotted path or tuple of names: _get_parts of the dotted string is the tuple (names are dot-free) *)
Theorem C16_parts_dotted_eq_tuple :
  forall l, l <> [] -> forallb nodotb l = true -> join_dot l <> ""%string ->
  get_parts (KStr (join_dot l)) = get_parts (KSeq l).
Proof. exact parts_dotted_eq_tuple. Qed.
Print Assumptions C16_parts_dotted_eq_tuple.

(* ---- refinement to the reference dictionary  path -> object  (dict_of s = what the collection returns per path) *)

(* a successful insertion/replacement at absolute path P: P now holds the new object (id = old heap size),
   everything strictly below P is gone, every other path is untouched *)
Theorem C16_refines_dict_set :
  forall ab s a P k t s', Inv s -> top_down s (ONew a RRoot P k t) = true ->
  step ab s (ONew a RRoot P k t) = (s', None) ->
  forall q, dict_of s' q = dict_set P (List.length (heap s)) (dict_of s) q.
Proof. exact refines_dict_new. Qed.
Print Assumptions C16_refines_dict_set.

(* a successful deletion at P removes exactly P and what is below it *)
Theorem C16_refines_dict_del :
  forall ab s a P s', Inv s -> step ab s (ODel a RRoot P) = (s', None) ->
  forall q, dict_of s' q = dict_del P (dict_of s) q.
Proof. exact refines_dict_del. Qed.
Print Assumptions C16_refines_dict_del.

(* the same through ANY object of the tree as receiver: an operation on the object at path pj with the relative path p
   is the operation on the collection with the absolute path pj ++ p (so the two refinement theorems hold for it) *)
Theorem C16_receiver_eq_absolute :
  forall ab s pj j p, Inv s -> get s RRoot pj = Ok j -> p <> [] ->
  (forall a k t, step ab s (ONew a (RObj j) p k t) = step ab s (ONew a RRoot (pj ++ p) k t)) /\
  (forall a v, step ab s (OSet a (RObj j) p v) = step ab s (OSet a RRoot (pj ++ p) v)) /\
  (forall a, step ab s (ODel a (RObj j) p) = step ab s (ODel a RRoot (pj ++ p))).
Proof. intros ab s pj j p H. exact (step_recv_abs ab s pj j p (proj1 H)). Qed.
Print Assumptions C16_receiver_eq_absolute.

Theorem C16_refines_dict_set_any_receiver :
  forall ab s a pj j p k t s', Inv s -> get s RRoot pj = Ok j -> p <> [] ->
  top_down s (ONew a (RObj j) p k t) = true -> step ab s (ONew a (RObj j) p k t) = (s', None) ->
  forall q, dict_of s' q = dict_set (pj ++ p) (List.length (heap s)) (dict_of s) q.
Proof. exact refines_dict_new_recv. Qed.
Print Assumptions C16_refines_dict_set_any_receiver.

Theorem C16_refines_dict_del_any_receiver :
  forall ab s a pj j p s', Inv s -> get s RRoot pj = Ok j -> p <> [] ->
  step ab s (ODel a (RObj j) p) = (s', None) ->
  forall q, dict_of s' q = dict_del (pj ++ p) (dict_of s) q.
Proof. exact refines_dict_del_recv. Qed.
Print Assumptions C16_refines_dict_del_any_receiver.

(* rejected insertions (any receiver) leave the dictionary unchanged; in the order "store, then re-target" (ab = true, the
   order of the code since 2e2fded) the operation has to be inside the discipline: the loop that runs after the store then
   raises nothing (a_key of the state after the store) *)
Theorem C16_refines_dict_rejected :
  forall ab s a r P k t s' e, Inv s -> (ab = true -> top_down s (ONew a r P k t) = true) ->
  step ab s (ONew a r P k t) = (s', Some e) ->
  forall q, dict_of s' q = dict_of s q.
Proof. exact refines_dict_new_rejected. Qed.
Print Assumptions C16_refines_dict_rejected.

(* the operations on aliases leave the dictionary unchanged *)
Theorem C16_refines_dict_alias_ops :
  forall ab s o, (exists a, o = OResolve a) \/ (exists a v, o = OSetTarget a v) ->
  forall q, dict_of (fst (step ab s o)) q = dict_of s q.
Proof. exact refines_dict_alias_ops. Qed.
Print Assumptions C16_refines_dict_alias_ops.

(* ---- navigation THROUGH aliases (Model/C16_through.v): Alias.members is a function of the final target's members NOW;
   a lookup returns an object of the heap (RN) or a wrapper alias (RW a suf m: reached from the alias a by the names suf,
   target m).  All four statements hold in EVERY state (no discipline), the last one under the structural invariant. *)

(* the names seen through an object, an alias or a wrapper are the names of its final target's members, in their order *)
Theorem C16_through_names :
  forall s x ms, members_t s x = Ok ms ->
  exists f, ref_final s x = Ok f /\ is_plain s f = true /\ map fst ms = map fst (members_of s f).
Proof. exact through_names. Qed.
Print Assumptions C16_through_names.

(* dotted lookup through aliases = chained lookup through aliases *)
Theorem C16_through_dotted_eq_chained :
  forall s p x q, gett_from s x (p ++ q) = match gett_from s x p with Ok y => gett_from s y q | Err e => Err e end.
Proof. exact gett_from_app. Qed.
Print Assumptions C16_through_dotted_eq_chained.

(* ... = chained lookup through the FINAL TARGETS: what a lookup through aliases returns is (a wrapper around) exactly the
   object found by going to the final target at every step and taking its member *)
Theorem C16_through_eq_final_targets :
  forall s p x y, gett_from s x p = Ok y -> getc s (obj_of x) p = Ok (obj_of y).
Proof. exact through_eq_chained. Qed.
Print Assumptions C16_through_eq_final_targets.

(* where no alias is on the way it is the plain lookup of the other theorems *)
Theorem C16_through_extends_get :
  forall s p i x, get s (RObj i) p = Ok x -> p <> [] -> gett_from s (RN i) p = Ok (RN x).
Proof. exact gett_from_plain. Qed.
Print Assumptions C16_through_extends_get.

(* what is returned for a path has that path (a wrapper: the alias's path plus the names walked since) *)
Theorem C16_through_path :
  forall s, Inv s -> forall p y, gett s RRoot p = Ok y -> ref_path s y = POk p.
Proof. intros s H. exact (gett_path s (proj1 H)). Qed.
Print Assumptions C16_through_path.
