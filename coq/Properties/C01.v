(* C01 — Static extraction is faithful to the source.
   Property theorems only: each closed by [exact] of a lemma from Proofs/, followed by Print Assumptions.

   Reading guide.  [run_visit] is the visitor machine: frame stack (Visitor.current and its parents), mutable
   type_guarded flag saved/restored by visit_if, emitted extension events, sticky Python error.  [spec_module] /
   [sem_stmt] is the recursive level semantics (no stack, the guard flag is an inherited attribute).
   [level_bindings_list k path g pk body] lists, declaratively and in source order, the bindings a module/class level
   makes (name, reported first line, kind, "conditional re-assignment" flag, type-guarded flag); [first_names] is
   first-occurrence order, [survivor] Griffe's tie-break (a later binding wins, except that an attribute assignment
   directly inside an `if`/`except` does not displace an existing member). *)
From Coq Require Import List ZArith String Bool Arith.
From Verif Require Import Lib.Sexp Model.C01_base Gen.C01_tables Model.C01_visitor Proofs.C01_visitor Proofs.C01_vis.
Import ListNotations.
Open Scope string_scope. Open Scope list_scope. Open Scope nat_scope.

(* The machine computes exactly the level semantics, for every statement list: the flag set by visit_if is in force
   exactly in the body (not the else branch) of a module-/class-level `if TYPE_CHECKING`, is restored afterwards, and
   members/instance attributes are attached to the right parent.  (The pre-fix visit_if, which reset the flag to False
   after any nested `if` and kept it for `else`, does not satisfy this equation.) *)
Theorem C01_type_guard_flag : forall mname body, run_visit mname body = spec_module mname body.
Proof. exact machine_computes_level_semantics. Qed.
Print Assumptions C01_type_guard_flag.

(* Members of the module = the names bound at module level, once each, in order of first binding. *)
Theorem C01_one_member_per_bound_name : forall mname body r,
  run_visit mname body = Ok r ->
  map fst (r_members r) = first_names [] (level_bindings_list InModule mname false PScope body).
Proof. exact one_member_per_bound_name. Qed.
Print Assumptions C01_one_member_per_bound_name.

(* ... and the same at every nesting level: whenever a class statement is evaluated (in any scope, at any depth, under
   any guard), the object it binds is a class whose members are the names bound in that class body (instance attributes
   of its __init__ included), once each, in order of first binding. *)
Theorem C01_one_member_per_bound_name_nested : forall g pk nd ln dln eln name ds body own up,
  exists o, lookup name (fmembers (l_own (sem_stmt g pk nd (SCls ln dln eln name ds body) own up))) = Some o /\
            ikind (oinfo o) = KCls /\
            map fst (omembers o) = first_names [] (level_bindings_list InClass (child_path own name) g PScope body).
Proof. exact class_members_bound_names. Qed.
Print Assumptions C01_one_member_per_bound_name_nested.

(* Kind, reported first line and runtime flag of each member are those of the surviving binding (accessor-decorated
   definitions x.setter / x.deleter are C02's subject and excluded). *)
Theorem C01_surviving_kind : forall mname body r n,
  has_accessor_list body = false -> run_visit mname body = Ok r ->
  option_map osum (lookup n (r_members r)) =
  option_map bsum (survivor n None (level_bindings_list InModule mname false PScope body)).
Proof. exact surviving_kind. Qed.
Print Assumptions C01_surviving_kind.

Theorem C01_surviving_kind_nested : forall g pk nd ln dln eln name ds body own up n,
  has_accessor_list body = false ->
  exists o, lookup name (fmembers (l_own (sem_stmt g pk nd (SCls ln dln eln name ds body) own up))) = Some o /\
            option_map osum (lookup n (omembers o)) =
            option_map bsum (survivor n None (level_bindings_list InClass (child_path own name) g PScope body)).
Proof. exact class_surviving_kind. Qed.
Print Assumptions C01_surviving_kind_nested.

(* No Python error for any statement list (the TypeError of an @overload def inside a class's __init__, finding F1,
   is repaired: the overload is dropped there, only modules and classes keep an overload buffer). *)
Theorem C01_visit_total : forall mname body, exists r, run_visit mname body = Ok r.
Proof. exact visit_total. Qed.
Print Assumptions C01_visit_total.

(* Every extension trace is well bracketed: the module/class instance event opens a bracket, its members event closes
   the innermost open one, every member's instance/alias event lies inside the bracket of its parent (or of the class
   enclosing the __init__ whose function is its parent), and nothing is left open. *)
Theorem C01_events_well_bracketed : forall mname body r,
  run_visit mname body = Ok r -> well_bracketed (r_events r) = true.
Proof. exact events_well_bracketed. Qed.
Print Assumptions C01_events_well_bracketed.

(* A name bound only by @overload definitions yields no member (finding F6). *)
Theorem C01_overload_only_refuted : exists r, run_visit "m" overload_only_witness = Ok r /\ r_members r = [].
Proof. exact overload_only_refuted. Qed.
Print Assumptions C01_overload_only_refuted.

(* Visibility: the ladders regenerated from mixins.py agree with the documented table on every input
   (finite domain: 3 * 2^10 * 5 inputs, by reflection). *)
Theorem C01_visibility_table_names : forall i,
  is_special i = Some (doc_is_special i) /\ is_private i = Some (doc_is_private i) /\
  is_class_private i = Some (doc_is_class_private i) /\ is_imported i = Some (doc_is_imported i).
Proof. exact visibility_table_names. Qed.
Print Assumptions C01_visibility_table_names.

Theorem C01_visibility_table : forall i, vin_consistent i = true ->
  is_exported i = Some (doc_is_exported i) /\ is_wildcard_exposed i = Some (doc_is_wildcard_exposed i) /\
  is_public i = Some (doc_is_public i).
Proof. exact visibility_table. Qed.
Print Assumptions C01_visibility_table.
