(* C01 — Static extraction is faithful to the source.
   Property theorems only: each closed by [exact] of a lemma from Proofs/, followed by Print Assumptions. *)
From Coq Require Import List ZArith String Bool Arith.
From Verif Require Import Lib.Sexp Model.C01_base Gen.C01_tables Model.C01_visitor Proofs.C01_visitor Proofs.C01_vis.
Import ListNotations.
Open Scope string_scope. Open Scope list_scope. Open Scope nat_scope.

(* The visitor machine (frame stack = Visitor.current and its parents, mutable type_guarded flag saved/restored by
   visit_if, sticky Python error) computes, for every statement list, exactly the recursive level semantics in which the
   type-guard flag is an inherited attribute (true exactly inside the body -- not the else branch -- of a module- or
   class-level `if TYPE_CHECKING`), a class body is evaluated on a fresh frame and attached to the class object, and
   instance attributes of an __init__ body go to the enclosing class. *)
Theorem C01_type_guard_flag : forall mname body, run_visit mname body = spec_module mname body.
Proof. exact machine_computes_level_semantics. Qed.
Print Assumptions C01_type_guard_flag.

(* No Python error for any statement list, except exactly when an @overload definition sits directly in the body of a
   class's __init__ (finding C01-F1); then the result is the TypeError the implementation raises. *)
Theorem C01_visit_total_modulo_known : forall mname body,
  (gap_overload_in_init_list InModule body = false -> exists r, run_visit mname body = Ok r) /\
  (gap_overload_in_init_list InModule body = true -> run_visit mname body = Err "TypeError").
Proof. exact visit_total_exact. Qed.
Print Assumptions C01_visit_total_modulo_known.

Theorem C01_visit_total_refuted : exists body, run_visit "m" body = Err "TypeError".
Proof. exists overload_in_init_witness. exact visit_total_refuted. Qed.
Print Assumptions C01_visit_total_refuted.

(* Every extension trace is well bracketed: the module/class instance event opens a bracket, its members event closes
   the innermost open one, every member's instance/alias event lies inside the bracket of its parent (or of the class
   enclosing the __init__ whose function is its parent), and nothing is left open. *)
Theorem C01_events_well_bracketed : forall mname body r,
  run_visit mname body = Ok r -> well_bracketed (r_events r) = true.
Proof. exact events_well_bracketed. Qed.
Print Assumptions C01_events_well_bracketed.

(* Visibility: the ladders regenerated from mixins.py agree with the documented table on every input. *)
Theorem C01_visibility_table_names : forall i,
  is_special i = Some (doc_is_special i) /\ is_private i = Some (doc_is_private i) /\
  is_class_private i = Some (doc_is_class_private i) /\ is_imported i = Some (doc_is_imported i).
Proof. intro i. repeat split. exact (vis_special i). exact (vis_private i). exact (vis_class_private i). exact (vis_imported i). Qed.
Print Assumptions C01_visibility_table_names.

Theorem C01_visibility_table_modulo_known : forall i, vin_consistent i = true ->
  (gap_no_parent i = false -> is_exported i = Some (doc_is_exported i) /\ is_wildcard_exposed i = Some (doc_is_wildcard_exposed i)) /\
  (gap_empty_all i = false -> is_public i = Some (doc_is_public i)).
Proof.
  intros i Hc. split; intros Hg.
  - split. exact (vis_exported_modulo_known i Hc Hg). exact (vis_wildcard_modulo_known i Hc Hg).
  - exact (vis_public_modulo_known i Hc Hg).
Qed.
Print Assumptions C01_visibility_table_modulo_known.

Theorem C01_visibility_table_refuted :
  (exists i, vin_consistent i = true /\ is_exported i = None /\ is_wildcard_exposed i = None) /\
  (exists i, vin_consistent i = true /\ is_public i = Some true /\ doc_is_public i = false).
Proof. split. exists root_module_vin. exact vis_exported_refuted. exists empty_all_vin. exact vis_public_refuted. Qed.
Print Assumptions C01_visibility_table_refuted.
