(* C01 — Static extraction is faithful to the source.
   Property theorems only: each closed by [exact] of a lemma from Proofs/, followed by Print Assumptions.

   Reading guide.  [run_visit] is the visitor machine: frame stack (Visitor.current and its parents), mutable
   type_guarded flag saved/restored by visit_if, emitted extension events, sticky Python error.  [spec_module] /
   [sem_stmt] is the recursive level semantics (no stack, the guard flag is an inherited attribute).
   [level_bindings_list k path g pk body] lists, declaratively and in source order, the bindings a module/class level
   makes (name, reported first line, kind, "conditional re-assignment" flag, type-guarded flag); [first_names] is
   first-occurrence order, [survivor] Griffe's tie-break (a later binding wins, except that an attribute assignment
   directly inside an `if`/`except` does not displace an existing member). *)
From Coq Require Import List ZArith String Bool Arith.
From Verif Require Import Lib.Sexp Model.C01_base Gen.C01_tables Gen.C01_dispatch Model.C01_visitor Model.C01_content Model.C01_raw
  Model.C01_layout Model.C01_dedent Model.C01_resolve Model.C01_ext Model.C01_lines Proofs.C01_visitor Proofs.C01_vis Proofs.C01_content Proofs.C01_raw
  Proofs.C01_layout Proofs.C01_dedent Proofs.C01_resolve Proofs.C01_ext Proofs.C01_lines.
Import ListNotations.
Open Scope string_scope. Open Scope list_scope. Open Scope nat_scope.

(* The machine computes exactly the level semantics, for every statement list: the flag set by visit_if is in force
   exactly in the body (not the else branch) of a module-/class-level `if TYPE_CHECKING`, is restored afterwards, and
   members/instance attributes are attached to the right parent.  (The pre-fix visit_if, which reset the flag to False
   after any nested `if` and kept it for `else`, does not satisfy this equation.) *)
Theorem C01_type_guard_flag : forall mname body, run_visit mname body = spec_module mname body.
Proof. exact machine_computes_level_semantics. Qed.
Print Assumptions C01_type_guard_flag.

(* Members of the module = the names bound at module level, once each, in order of first binding. *)
Theorem C01_one_member_per_bound_name : forall mname body r,
  run_visit mname body = Ok r ->
  map fst (r_members r) = first_names [] (level_bindings_list InModule mname false PScope body).
Proof. exact one_member_per_bound_name. Qed.
Print Assumptions C01_one_member_per_bound_name.

(* ... and the same at every nesting level: whenever a class statement is evaluated (in any scope, at any depth, under
   any guard), the object it binds is a class whose members are the names bound in that class body (instance attributes
   of its __init__ included), once each, in order of first binding. *)
Theorem C01_one_member_per_bound_name_nested : forall g pk nd ln dln eln name ds body own up,
  exists o, lookup name (fmembers (l_own (sem_stmt g pk nd (SCls ln dln eln name ds body) own up))) = Some o /\
            ikind (oinfo o) = KCls /\
            map fst (omembers o) = first_names [] (level_bindings_list InClass (child_path own name) g PScope body).
Proof. exact class_members_bound_names. Qed.
Print Assumptions C01_one_member_per_bound_name_nested.

(* Kind, reported first line and runtime flag of each member are those of the surviving binding (accessor-decorated
   definitions x.setter / x.deleter are C02's subject and excluded). *)
Theorem C01_surviving_kind : forall mname body r n,
  has_accessor_list body = false -> run_visit mname body = Ok r ->
  option_map osum (lookup n (r_members r)) =
  option_map bsum (survivor n None (level_bindings_list InModule mname false PScope body)).
Proof. exact surviving_kind. Qed.
Print Assumptions C01_surviving_kind.

Theorem C01_surviving_kind_nested : forall g pk nd ln dln eln name ds body own up n,
  has_accessor_list body = false ->
  exists o, lookup name (fmembers (l_own (sem_stmt g pk nd (SCls ln dln eln name ds body) own up))) = Some o /\
            option_map osum (lookup n (omembers o)) =
            option_map bsum (survivor n None (level_bindings_list InClass (child_path own name) g PScope body)).
Proof. exact class_surviving_kind. Qed.
Print Assumptions C01_surviving_kind_nested.

(* No Python error for any statement list (the TypeError of an @overload def inside a class's __init__, finding F1,
   is repaired: the overload is dropped there, only modules and classes keep an overload buffer). *)
Theorem C01_visit_total : forall mname body, exists r, run_visit mname body = Ok r.
Proof. exact visit_total. Qed.
Print Assumptions C01_visit_total.

(* Every extension trace is well bracketed: the module/class instance event opens a bracket, its members event closes
   the innermost open one, every member's instance/alias event lies inside the bracket of its parent (or of the class
   enclosing the __init__ whose function is its parent), and nothing is left open. *)
Theorem C01_events_well_bracketed : forall mname body r,
  run_visit mname body = Ok r -> well_bracketed (r_events r) = true.
Proof. exact events_well_bracketed. Qed.
Print Assumptions C01_events_well_bracketed.

(* A name bound only by @overload definitions yields no member (finding F6). *)
Theorem C01_overload_only_refuted : exists r, run_visit "m" overload_only_witness = Ok r /\ r_members r = [].
Proof. exact overload_only_refuted. Qed.
Print Assumptions C01_overload_only_refuted.

(* Visibility: the ladders regenerated from mixins.py agree with the documented table on every input
   (finite domain: 3 * 2^10 * 5 inputs, by reflection). *)
Theorem C01_visibility_table_names : forall i,
  is_special i = Some (doc_is_special i) /\ is_private i = Some (doc_is_private i) /\
  is_class_private i = Some (doc_is_class_private i) /\ is_imported i = Some (doc_is_imported i).
Proof. exact visibility_table_names. Qed.
Print Assumptions C01_visibility_table_names.

Theorem C01_visibility_table : forall i, vin_consistent i = true ->
  is_exported i = Some (doc_is_exported i) /\ is_wildcard_exposed i = Some (doc_is_wildcard_exposed i) /\
  is_public i = Some (doc_is_public i).
Proof. exact visibility_table. Qed.
Print Assumptions C01_visibility_table.

(* ---------------------------------------------------------------------------------------------------------------
   Content of the members (Model/C01_content.v).  [level_details_list k path g pk None body] lists, in source order,
   the bindings a level makes together with everything the visitor reads off the statement (line span, decorators,
   attribute labels of the scope kind, the docstring candidate); [step] is what one binding does to the member
   currently bound to its name; [run_table] folds [step] over the bindings starting from the empty table.
   [minfo] forgets the sub-members of a member table: (name, kind, span, runtime flag, labels, docstring span, target). *)

(* Module level: the member table -- names, their order, and for each member kind, line span, runtime flag, labels,
   docstring span and alias target -- is the declarative table.  No hypothesis: accessor decorators (x.setter) and
   @overload definitions are covered by [step]. *)
Theorem C01_member_table : forall mname body r,
  run_visit mname body = Ok r ->
  minfo (r_members r) = run_table (level_details_list InModule mname false PScope None body) [].
Proof. exact module_table. Qed.
Print Assumptions C01_member_table.

(* ... read one name at a time *)
Theorem C01_member_content : forall mname body r n,
  run_visit mname body = Ok r ->
  option_map oinfo (lookup n (r_members r)) = content n None (level_details_list InModule mname false PScope None body).
Proof. exact module_member_content. Qed.
Print Assumptions C01_member_content.

(* ... and for every class statement wherever it is evaluated (any scope, depth, guard): the class object carries its
   own info (labels = decorator-derived, docstring = head string of the body) and the table of its body, in which the
   attributes assigned through self.<name> in its __init__ are instance attributes of the class. *)
Theorem C01_member_table_nested : forall g pk nd ln dln eln name ds body own up,
  exists o, lookup name (fmembers (l_own (sem_stmt g pk nd (SCls ln dln eln name ds body) own up))) = Some o /\
            oinfo o = cls_info g ln dln eln ds body /\
            minfo (omembers o) = run_table (level_details_list InClass (child_path own name) g PScope None body) [].
Proof. exact class_table. Qed.
Print Assumptions C01_member_table_nested.

(* The function object of a class's __init__ keeps the definitions, classes and imports of its body as its members
   (assignments bind nothing on it), as long as it is the member bound to its name. *)
Theorem C01_init_function_members : forall g pk nd ln dln eln name a ds body own up o,
  descends own name a ds = true ->
  def_installed (fmembers own) name ds = true ->
  lookup name (fmembers (l_own (sem_stmt g pk nd (SDef ln dln eln name a ds body) own up))) = Some o ->
  ikind (oinfo o) = KFun ->
  minfo (omembers o) = run_table (level_details_list InInit (child_path own name) g PFunction None body) [].
Proof. exact init_function_table. Qed.
Print Assumptions C01_init_function_members.

(* The detailed bindings are the plain bindings of the theorems above with content attached. *)
Theorem C01_details_refine_bindings : forall k path g pk follow l, k <> InInit ->
  flat_map to_bindings (level_details_list k path g pk follow l) = level_bindings_list k path g pk l.
Proof. exact details_refine_bindings. Qed.
Print Assumptions C01_details_refine_bindings.

(* Decorator-derived labels, for every decorator list: a label is present exactly when the documented table
   ([doc_labels]: property, staticmethod, classmethod, abc.abstractmethod, functools.cache / lru_cache /
   cached_property, cached_property.cached_property, dataclasses.dataclass) gives it for the callable path of one of the
   decorators; the labels form a set.  (Class labels are [decorators_to_labels ds], see [cls_info].) *)
Theorem C01_decorator_labels_documented : forall ds,
  (forall l, In l (decorators_to_labels ds) <-> exists d, In d ds /\ In l (doc_deco_labels d)) /\
  NoDup (decorators_to_labels ds).
Proof. exact decorator_labels_documented. Qed.
Print Assumptions C01_decorator_labels_documented.

(* Labels of a function or property-attribute definition: "async" for a coroutine plus the decorator-derived ones. *)
Theorem C01_definition_labels_documented : forall a ds,
  (forall l, In l (def_labels a ds) <-> (a = true /\ l = "async") \/ exists d, In d ds /\ In l (doc_deco_labels d)) /\
  NoDup (def_labels a ds).
Proof. exact definition_labels_documented. Qed.
Print Assumptions C01_definition_labels_documented.

(* Attribute docstrings, for every statement list: the bindings of the list are those of its statements, each taken
   with the docstring candidate [doc_after l i] = the string statement at the next index of the same list (its
   constant's line span), and nothing else (not the first statement of a following else / finally block). *)
Theorem C01_attribute_docstring_follows : forall k path g pk l,
  level_details_list k path g pk None l = flat_map (fun p => level_details k path g pk (snd p) (fst p)) (with_next l) /\
  init_details_list g pk None l = flat_map (fun p => init_details g pk (snd p) (fst p)) (with_next l) /\
  forall i, nth_error (with_next l) i = match nth_error l i with Some s => Some (s, doc_after l i) | None => None end.
Proof. exact attribute_docstring_follows. Qed.
Print Assumptions C01_attribute_docstring_follows.

(* ---------------------------------------------------------------------------------------------------------------
   Raw modules (Model/C01_raw.v): trees of Python AST nodes tagged with their class names, lowered to statements by the
   visitor's own decision tables, regenerated from visitor.py / assignments.py into Gen/C01_dispatch.v on every run:
   [visit_handlers] (which kinds have a visit_ method; all others go to generic_visit), [name_builders] (which target
   nodes get_name accepts), [cond_parent_kinds], [type_checking_tests], ... *)

(* Membership over the regenerated tables: for every raw module the tables can lower, the visitor does not raise,
   the members are the bound names once each in first-binding order, and the member table is the declarative one. *)
Theorem C01_raw_member_table : forall mname raw body r,
  lower_module raw = Some body -> run_visit mname body = Ok r ->
  map fst (r_members r) = first_names [] (level_bindings_list InModule mname false PScope body) /\
  minfo (r_members r) = run_table (level_details_list InModule mname false PScope None body) [].
Proof. exact raw_member_table. Qed.
Print Assumptions C01_raw_member_table.

Theorem C01_raw_visit_total : forall mname raw body,
  lower_module raw = Some body -> exists r, run_visit mname body = Ok r.
Proof. exact raw_visit_total. Qed.
Print Assumptions C01_raw_visit_total.

(* A node of ANY kind without visit_ method (for, while, with, try, except handler, match, case, ...) binds at its
   level exactly what the statements of its fields bind, field after field; those are conditional re-assignments
   exactly when the kind is one of [cond_parent_kinds]. *)
Theorem C01_generic_kind_transparent : forall kind fields s,
  handler_of kind = None -> lower (RNode kind PNone fields) = Some s ->
  exists fs, lower_fields fields = Some fs /\
    forall k path g pk nd,
      level_bindings k path g pk s =
        flat_map (fun f => level_bindings_list k path g (if str_mem kind cond_parent_kinds then PHandler else POther) f) fs /\
      level_details k path g pk nd s =
        flat_map (fun f => level_details_list k path g (if str_mem kind cond_parent_kinds then PHandler else POther) None f) fs.
Proof. exact generic_kind_transparent. Qed.
Print Assumptions C01_generic_kind_transparent.

(* An assignment binds names only when get_name accepts every one of its targets ([name_builders]: Name, and Attribute
   chains ending in a Name); one rejected target (subscript, tuple, starred, call...) and the statement binds nothing. *)
Theorem C01_targets_accepted : forall ts,
  names_scope (map lower_target ts) = None <-> exists t, In t ts /\ get_name t = None.
Proof. exact targets_accepted. Qed.
Print Assumptions C01_targets_accepted.

(* ---------------------------------------------------------------------------------------------------------------
   Source text (Model/C01_layout.v).  A layout tree attaches physical lines to statements: gap lines (blank / comment)
   in front of an item, decorator lines, header lines (continued over several lines or not), the lines of a simple
   statement, the parenthesis lines and the constant's lines of a string statement.  [render_list] writes the text;
   [number_list 1] assigns CPython's line numbers and gives the statements the theorems above speak about; [occ_list]
   lists every place a span is reported for, with the text it is meant to cut out: for a function / class from the
   first decorator line, for a property-attribute from the `def` line, for a statement its own lines, for a docstring
   the lines of the string constant; each to the last line of the item. *)

(* Geometry, for every layout at any depth, sitting anywhere in a larger text: slicing by the reported span returns
   exactly that text. *)
Theorem C01_slice_reported_span : forall items pre post o,
  In o (occ_list (List.length pre + 1) items) ->
  slice (pre ++ render_list items ++ post) (o_first o) (o_last o) = o_text o.
Proof. exact slice_reported_span. Qed.
Print Assumptions C01_slice_reported_span.

(* Composition with the visitor, module level: the span reported for member n (kind k) is the span of an item that
   defines that very name with that kind ([tag_names]), slicing the rendered source by it returns that item's text,
   and slicing by the reported docstring span returns the lines of the string constant ([span_cuts]). *)
Theorem C01_member_span_slices : forall items mname r n i,
  run_visit mname (number_list 1 items) = Ok r -> lookup n (minfo (r_members r)) = Some i ->
  span_cuts (render_list items) (occ_list 1 items) n i.
Proof. exact module_spans_slice. Qed.
Print Assumptions C01_member_span_slices.

(* ... and for the members of every class item, wherever it is evaluated and wherever its text sits. *)
Theorem C01_member_span_slices_nested : forall g pk nd start gap decos header name body own up pre post,
  List.length pre + 1 = start ->
  exists o, lookup name (fmembers (l_own (sem_stmt g pk nd (number start (LCls gap decos header name body)) own up))) = Some o /\
    forall n i, lookup n (minfo (omembers o)) = Some i ->
      span_cuts (pre ++ render (LCls gap decos header name body) ++ post) (occ start (LCls gap decos header name body)) n i.
Proof. exact class_spans_slice. Qed.
Print Assumptions C01_member_span_slices_nested.

(* Extending the exports.  `__all__ += x`, `__all__.extend(x)` and `__all__.append(x)` (visit_augassign, visit_expr with
   the regenerated [all_receiver] / [all_methods]) lower to one and the same statement; calls of another method, on
   another receiver or without argument are no statement at all. *)
Theorem C01_all_extension_forms : forall items,
  lower (RNode "AugAssign" (PAug true items) []) = Some (SAugAll items) /\
  lower (RNode "Expr" (PCall "__all__" "extend" true items) []) = Some (SAugAll items) /\
  lower (RNode "Expr" (PCall "__all__" "append" true items) []) = Some (SAugAll items) /\
  lower (RNode "Expr" (PCall "__all__" "extend" false items) []) = Some SOther /\
  lower (RNode "Expr" (PCall "__all__" "remove" true items) []) = Some SOther /\
  lower (RNode "Expr" (PCall "" "extend" true items) []) = Some SOther /\
  lower (RNode "Expr" (PCall "other" "extend" true items) []) = Some SOther.
Proof. exact all_extension_forms. Qed.
Print Assumptions C01_all_extension_forms.

(* Its effect, wherever it is evaluated: the items are appended to the exports of a MODULE that already has an exports
   list, provided every item is a string or a name; in a class body, in an __init__ body, before any `__all__ = ...`,
   or with another constant among the items, nothing changes; members, imports, events, errors are never touched. *)
Theorem C01_all_extension_effect : forall items g pk nd own up,
  let r := sem_stmt g pk nd (SAugAll items) own up in
  l_up r = up /\ l_events r = [] /\ l_err r = None /\
  fmembers (l_own r) = fmembers own /\ fimports (l_own r) = fimports own /\
  fexports (l_own r) =
    match fkind own, fexports own with
    | InModule, Some ex => if items_ok items then Some (ex ++ items) else Some ex
    | _, e => e
    end.
Proof. exact all_extension_effect. Qed.
Print Assumptions C01_all_extension_effect.

(* Object.lines / Object.source.  The lines of a reported object are the item's text, its source is [dedent_ws] of it
   (textwrap.dedent, Model/C01_dedent.v): for every layout, at any depth. *)
Theorem C01_object_lines_source : forall items pre post o,
  In o (occ_list (List.length pre + 1) items) ->
  object_lines (pre ++ render_list items ++ post) (o_first o) (o_last o) = o_text o /\
  object_source (pre ++ render_list items ++ post) (o_first o) (o_last o) = dedent_ws (o_text o).
Proof. exact object_lines_source. Qed.
Print Assumptions C01_object_lines_source.

(* ... and [dedent_ws] keeps the text, for every list of lines and every mixture of blanks and tabs: as many lines; a
   whitespace-only line becomes empty; every other line is the SAME whitespace string [margin_ws ls] followed by what
   is kept (nothing but that whitespace is ever cut off, however little some line of the span is indented: flush-left
   string content, left-aligned comment, continuation at column 0, a tab where the others have blanks); and the margin
   is the longest such string: every whitespace prefix common to the non-blank lines is a prefix of it. *)
Theorem C01_source_dedent_only_whitespace : forall ls,
  List.length (dedent_ws ls) = List.length ls /\
  all_ws (margin_ws ls) = true /\
  (forall i l, nth_error ls i = Some l ->
     nth_error (dedent_ws ls) i = Some (if all_ws l then EmptyString else drop (String.length (margin_ws ls)) l) /\
     (all_ws l = false -> l = String.append (margin_ws ls) (drop (String.length (margin_ws ls)) l))) /\
  ((exists l, In l ls /\ all_ws l = false) ->
   forall p, (forall l, In l ls -> all_ws l = false -> String.prefix p (lead l) = true) -> String.prefix p (margin_ws ls) = true).
Proof. exact dedent_ws_spec. Qed.
Print Assumptions C01_source_dedent_only_whitespace.

(* ---------------------------------------------------------------------------------------------------------------
   Which callable a decorator spelling denotes (Model/C01_resolve.v).  Statements may carry unresolved references
   [DRef head rest]; [resolve_list] / [resolve_module] turn them into paths; every theorem above then speaks about the
   resolved statements. *)

(* The rule (Object.resolve from Visitor.current): a member of the current object wins; a module is the end of the
   chain; from a class the enclosing class bodies are skipped ([env] = the scopes enclosing the nearest class); from an
   __init__ function its class is consulted, and the class's own name resolves to the class. *)
Theorem C01_resolution_rule : forall own up env h,
  resolve_head own up env h =
  match fkind own with
  | InModule => scope_lookup own h
  | InClass => orelse (scope_lookup own h) (env h)
  | InInit => orelse (scope_lookup own h)
                     (if String.eqb h (fname up) then Some (fpath up) else orelse (scope_lookup up h) (env h))
  end.
Proof. exact resolution_rule. Qed.
Print Assumptions C01_resolution_rule.

(* Resolution happens in the scope OF THAT MOMENT, for every statement list cut anywhere: the statements after the cut
   are resolved against exactly the frames that the level semantics (= the visitor machine) has reached after the
   resolved statements before the cut -- so one spelling may resolve differently at two places of a module (shadowed
   in a class body, (re)bound later), and a memo keyed by the spelling is wrong. *)
Theorem C01_decorators_resolved_in_scope : forall pre rest g pk follow own up env,
  resolve_list g pk follow own up env (pre ++ rest) =
  (let pre' := resolve_list g pk (next_doc rest follow) own up env pre in
   let a := sem_list g pk (next_doc rest follow) pre' own up in
   pre' ++ resolve_list g pk follow (l_own a) (l_up a) env rest).
Proof. exact resolve_list_app. Qed.
Print Assumptions C01_decorators_resolved_in_scope.

(* ---------------------------------------------------------------------------------------------------------------
   Extension containers with a history (Model/C01_ext.v): registrations ([HAdd]) and visits ([HVisit]) interleaved on
   one container.  The visit that follows the prefix [pre] is announced to extension e completely, in order and once
   (what e receives is exactly the visit's trace, which is well bracketed) iff e was registered initially or by an
   `add` of the prefix -- however many visits the container had already served; otherwise e receives nothing of it. *)
Theorem C01_history_announces_to_registered : forall pre m b post c e,
  NoDup (c ++ adds pre) ->
  exists log, nth_error (run_history c (pre ++ HVisit m b :: post)) (visits pre) = Some log /\
    received e log = (if existsb (Nat.eqb e) (c ++ adds pre) then visit_events m b else []) /\
    well_bracketed (visit_events m b) = true.
Proof. exact history_announces_to_registered. Qed.
Print Assumptions C01_history_announces_to_registered.

(* ... and without any hypothesis on the container: an extension registered k times at that moment receives every event
   of the visit k times in a row (k = 0: nothing; k = 1: exactly the trace). *)
Theorem C01_history_announces_general : forall pre m b post c e,
  exists log, nth_error (run_history c (pre ++ HVisit m b :: post)) (visits pre) = Some log /\
    received e log = flat_map (fun ev => repeat ev (count_occ Nat.eq_dec (c ++ adds pre) e)) (visit_events m b).
Proof. exact history_announces_general. Qed.
Print Assumptions C01_history_announces_general.

(* ---------------------------------------------------------------------------------------------------------------
   The lines collection has a history (Model/C01_lines.v): loads with a loader of its own, the same loader again
   (reload), or a new loader given the collection of the previous one, of files whose text changes in between.
   Whatever the history before and after and whatever the collection held: right after a load, the collection holds for
   the loaded path exactly the text that load has read, so Object.source of a span a..b is [object_source] of THAT text
   (with C01_object_lines_source / C01_member_span_slices: the very definition). *)
Theorem C01_lines_last_store_wins : forall pre s post lc,
  nth_error (run_lines lc (pre ++ s :: post)) (List.length pre) = Some (Some (s_text s)) /\
  forall a b, source_from (load_step (final_collection lc pre) s) (s_path s) a b = Some (object_source (s_text s) a b).
Proof. exact lines_last_store_wins. Qed.
Print Assumptions C01_lines_last_store_wins.
