(* C20 — Loading from Git leaves repository and filesystem untouched on every path.
   Property theorems only: each closed by [exact] of a lemma from Proofs/, followed by Print Assumptions.
   The model of git (Model/C20_git.v: wt_add, wt_remove, wt_prune, branch_D) is modelled, not verified; it is tied
   to real git by the oracle correspondence of harness/props/c20.py. *)
From Coq Require Import List ZArith String Ascii Bool Arith.
From Verif Require Import Lib.Sexp Model.C20_git Proofs.C20_git.
Import ListNotations.
Open Scope string_scope. Open Scope list_scope. Open Scope nat_scope.

(* For every repository state, reference, package content, sequence of loader stages / extension hooks (any of which
   may write into the checkout or raise) and every placement of faults on the git calls (each may fail or raise,
   before or after taking effect): the repository after load_git is the repository before it EXACTLY WHEN the
   placement is benign, i.e. neither
     - `worktree add` took effect and then reported failure / was interrupted (gap_add_after, finding C20-F2), nor
     - a cleanup call itself failed: `worktree remove` or `branch -D` did not take effect, or `worktree remove`
       raised so that `branch -D` never ran (excluded_cleanup_fault: no implementation can restore then).
   Hypotheses: wf (every checked-out branch exists) and p is a fresh temp-dir name. The former hypothesis
   no_prunable is gone with the repair of finding C20-F3 (tmp_worktree no longer calls `git worktree prune`). *)
Theorem C20_state_restored_iff :
  forall s p ref tree evs isrepo F,
  wf s = true -> fresh p s = true ->
  (fst (load_git true isrepo F p ref tree evs s) = s <-> benign isrepo s ref F = true).
Proof. exact load_git_restored_iff. Qed.
Print Assumptions C20_state_restored_iff.

Theorem C20_state_restored_modulo_known :
  forall s p ref tree evs isrepo F,
  wf s = true -> fresh p s = true -> benign isrepo s ref F = true ->
  fst (load_git true isrepo F p ref tree evs s) = s.
Proof. exact load_git_state_restored. Qed.
Print Assumptions C20_state_restored_modulo_known.

(* No temporary directory and no checkout directory is left: for EVERY fault placement, with or without --force,
   without any hypothesis on the repository beyond the freshness of the temp-dir name. *)
Theorem C20_no_tmp_left :
  forall force isrepo F p ref tree evs s,
  fresh p s = true ->
  tmps (fst (load_git force isrepo F p ref tree evs s)) = tmps s /\
  dirs (fst (load_git force isrepo F p ref tree evs s)) = dirs s.
Proof. exact no_tmp_left. Qed.
Print Assumptions C20_no_tmp_left.

(* HEAD, the index / working tree / stash of the main worktree and the tags are never written, whatever fails. *)
Theorem C20_main_worktree_untouched :
  forall force isrepo F p ref tree evs s, same_main s (fst (load_git force isrepo F p ref tree evs s)).
Proof. exact main_worktree_untouched. Qed.
Print Assumptions C20_main_worktree_untouched.

(* check(): two loads; same conclusion. *)
Theorem C20_check_state_restored :
  forall s a tree breaking isrepo,
  wf s = true -> fresh (c_p1 a) s = true -> fresh (c_p2 a) s = true ->
  check_benign isrepo s a = true ->
  fst (check true isrepo a tree breaking s) = s.
Proof. exact check_state_restored. Qed.
Print Assumptions C20_check_state_restored.

Theorem C20_check_exit_code :
  forall force isrepo a tree breaking s ag s1 vo s2 vn,
  against_of a = inl ag -> ro_call (c_f_root a) isrepo = Rc0 -> c_ext_fails a = false ->
  load_git force isrepo (c_F1 a) (c_p1 a) ag tree (c_evs1 a) s = (s1, Returned vo) ->
  load_new force isrepo a tree s1 = (s2, Returned vn) ->
  check force isrepo a tree breaking s = (s2, Returned (if breaking_pair breaking vo vn then 1 else 0)).
Proof. exact check_exit_code. Qed.
Print Assumptions C20_check_exit_code.

Theorem C20_check_zero_sound :
  forall force isrepo a tree breaking s,
  snd (check force isrepo a tree breaking s) = Returned 0 ->
  exists ag s1 vo s2 vn,
    against_of a = inl ag /\
    load_git force isrepo (c_F1 a) (c_p1 a) ag tree (c_evs1 a) s = (s1, Returned vo) /\
    load_new force isrepo a tree s1 = (s2, Returned vn) /\
    breaking_pair breaking vo vn = false.
Proof. exact check_zero_sound. Qed.
Print Assumptions C20_check_zero_sound.

(* Any history of load_git / check operations with benign fault placements leaves the repository as it was. *)
Theorem C20_history_restored :
  forall tree breaking ops s,
  wf s = true -> forallb (op_ok s) ops = true ->
  fold_left (run_op tree breaking) ops s = s.
Proof. exact history_restored. Qed.
Print Assumptions C20_history_restored.

(* The repaired defect: without --force a file written into the checkout leaves residue; with it the same run restores. *)
Theorem C20_without_force_refuted :
  exists s p ref tree evs,
    wf s = true /\ fresh p s = true /\ benign true s ref no_faults = true /\
    fst (load_git false true no_faults p ref tree evs s) <> s /\
    fst (load_git true true no_faults p ref tree evs s) = s.
Proof. exact without_force_refuted. Qed.
Print Assumptions C20_without_force_refuted.

(* F2 *)
Theorem C20_state_restored_refuted_add_after :
  exists s p ref tree evs F,
    wf s = true /\ fresh p s = true /\ f_add F = FailAfter /\
    fst (load_git true true F p ref tree evs s) <> s /\
    snd (load_git true true F p ref tree evs s) = Raised "RuntimeError".
Proof. exact add_after_refuted. Qed.
Print Assumptions C20_state_restored_refuted_add_after.

Theorem C20_cleanup_fault_unrestorable :
  exists s p ref tree evs F,
    wf s = true /\ fresh p s = true /\ f_branchD F = FailBefore /\
    fst (load_git true true F p ref tree evs s) <> s.
Proof. exact cleanup_fault_refuted. Qed.
Print Assumptions C20_cleanup_fault_unrestorable.

(* Why dropping `git worktree prune` (repair of F3) loses nothing: in every state the finally block can be in, prune
   changes nothing when the user's repository has no prunable registration — its only effect ever was on those. *)
Theorem C20_prune_is_noop_in_cleanup :
  forall s p b c a, fresh p s = true -> no_prunable s = true -> wt_prune (conc s p b c a) = conc s p b c a.
Proof. exact prune_is_noop_in_cleanup. Qed.
Print Assumptions C20_prune_is_noop_in_cleanup.

(* _normalize: the checkout directory name has no separator, so it is a direct child of the temporary directory. *)
Theorem C20_normalize_no_separator :
  forall s, all_chars (fun c => c <> "/"%char /\ c <> "."%char /\ c <> " "%char /\ c <> "\"%char) (normalize s).
Proof. exact normalize_no_separator. Qed.
Print Assumptions C20_normalize_no_separator.

(* Breakage._location: the worktree prefix <tmp root>/griffe-worktree-*/<checkout name> is stripped, whatever the name. *)
Theorem C20_location_prefix_stripped :
  forall root suffix dirname rel,
  Forall (fun x => String.prefix wt_prefix x = false) root ->
  location true (checkout_parts root (wt_prefix ++ suffix) dirname ++ rel) = rel.
Proof. exact location_prefix_stripped. Qed.
Print Assumptions C20_location_prefix_stripped.

(* The checkout name (`_normalize(ref) or "ref"`, repair of F4) is never empty and is a single path component, so the
   checkout really is <tmp dir>/<name> as checkout_parts says. *)
Theorem C20_checkout_name_safe :
  forall ref, checkout_name ref <> "" /\
    all_chars (fun c => c <> "/"%char /\ c <> "."%char /\ c <> " "%char /\ c <> "\"%char) (checkout_name ref).
Proof. exact checkout_name_safe. Qed.
Print Assumptions C20_checkout_name_safe.

(* Returned objects: their lines come from the lines collection filled while the checkout existed. *)
Theorem C20_objects_self_contained :
  forall checkout files lc rel ls,
  NoDup (map fst files) -> In (rel, ls) files ->
  obj_lines (visit_files checkout files lc) (checkout ++ rel) = ls.
Proof. exact objects_self_contained. Qed.
Print Assumptions C20_objects_self_contained.
