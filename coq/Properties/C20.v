(* C20 — Loading from Git leaves repository and filesystem untouched on every path.
   Property theorems only: each closed by [exact] of a lemma from Proofs/, followed by Print Assumptions.
   The model of git (Model/C20_git.v: wt_add, wt_remove, wt_prune, branch_D and their torn forms) is modelled, not
   verified; it is tied to real git by the oracle correspondence of harness/props/c20.py.
   Argument order of load_git / check: [guard] (false: the code as it is; true: the proposed repair of finding F2),
   [force] (the --force flag of `worktree remove`, true in the code), [isrepo]. *)
From Coq Require Import List ZArith String Ascii Bool Arith.
From Verif Require Import Lib.Sexp Gen.C20_syspath Model.C20_import Model.C20_git Proofs.C20_git Proofs.C20_import.
Import ListNotations.
Open Scope string_scope. Open Scope list_scope. Open Scope nat_scope.

(* For every repository state, reference, package content, sequence of loader stages / extension hooks (any of which
   may write into the checkout or raise) and every placement of faults -- each git call may fail or raise, before or
   after taking effect, or be TORN (interrupted between its two halves: `worktree add` after `git branch`, `worktree
   remove` after deleting the directory); the removal of the TemporaryDirectory may raise at once, in the middle or on
   return --: the repository after load_git is the repository before it EXACTLY WHEN the placement is benign, i.e. none of
     - `worktree add` left an effect and did not report success (gap_add_after, finding C20-F2, now with its torn form),
     - a cleanup call itself failed: `worktree remove` or `branch -D` did not take (full) effect, or `worktree remove`
       raised so that `branch -D` never ran (excluded_cleanup_fault: no implementation can restore then),
     - the removal of the temporary directory itself failed (excluded_rmtree_fault).
   Hypotheses: wf (every checked-out branch exists) and p is a fresh temp-dir name. *)
Theorem C20_state_restored_iff :
  forall s p ref tree evs isrepo F,
  wf s = true -> fresh p s = true ->
  (fst (load_git false true isrepo F p ref tree evs s) = s <-> benign isrepo s ref F = true).
Proof. exact load_git_restored_iff. Qed.
Print Assumptions C20_state_restored_iff.

Theorem C20_state_restored_modulo_known :
  forall s p ref tree evs isrepo F,
  wf s = true -> fresh p s = true -> benign isrepo s ref F = true ->
  fst (load_git false true isrepo F p ref tree evs s) = s.
Proof. exact load_git_state_restored. Qed.
Print Assumptions C20_state_restored_modulo_known.

(* Every path through tmp_worktree + load_git ends in one of the enumerated states, whatever the placement: either
   nothing was ever created, or the final state is a_exit of one of four abstract states (checkout + registration +
   branch / registration + branch / branch / nothing), by what happened to the removal of the temporary directory. *)
Theorem C20_every_path_final_shape :
  forall s p ref tree evs isrepo F,
  wf s = true -> fresh p s = true ->
  fst (load_git false true isrepo F p ref tree evs s) = s \/
  exists c a, fst (load_git false true isrepo F p ref tree evs s) = a_exit s p (tmp_branch ref) c (f_rmtree F) a.
Proof. exact load_git_final_shape. Qed.
Print Assumptions C20_every_path_final_shape.

(* The proposed repair of F2 (existence test of the temporary branch, then `worktree add` inside the try block):
   the same equivalence WITHOUT a gap predicate -- only faults of the cleanup calls that have something to undo, and of
   the directory removal, are excluded (benign_guarded). *)
Theorem C20_repaired_state_restored_iff :
  forall s p ref tree evs isrepo F,
  wf s = true -> fresh p s = true ->
  (fst (load_git true true isrepo F p ref tree evs s) = s <-> benign_guarded isrepo s ref F = true).
Proof. exact load_git_guarded_restored_iff. Qed.
Print Assumptions C20_repaired_state_restored_iff.

(* ... in particular: whatever happens to the assert, mkdtemp, list and ADD calls (fail, raise, torn) and whatever the
   loader and the extensions do, the repository is restored as soon as the three cleanup operations work. *)
Theorem C20_repaired_restores_when_cleanup_works :
  forall s p ref tree evs isrepo F,
  wf s = true -> fresh p s = true ->
  f_remove F = NoFault -> f_branchD F = NoFault -> f_rmtree F = RmOk ->
  fst (load_git true true isrepo F p ref tree evs s) = s.
Proof. exact load_git_guarded_restored. Qed.
Print Assumptions C20_repaired_restores_when_cleanup_works.

(* ... and it never restores less than the code as it is. *)
Theorem C20_repair_never_worse :
  forall s p ref tree evs isrepo F,
  wf s = true -> fresh p s = true -> f_list F = NoFault ->
  fst (load_git false true isrepo F p ref tree evs s) = s ->
  fst (load_git true true isrepo F p ref tree evs s) = s.
Proof. exact guarded_at_least_as_good. Qed.
Print Assumptions C20_repair_never_worse.

(* No temporary directory and no checkout directory is left: for EVERY fault placement on the git calls and the
   loader, both variants, with or without --force, without any hypothesis on the repository beyond the freshness of the
   temp-dir name -- provided the removal of the TemporaryDirectory itself works ... *)
Theorem C20_no_tmp_left :
  forall guard force isrepo F p ref tree evs s,
  fresh p s = true -> rm_effective F = true ->
  tmps (fst (load_git guard force isrepo F p ref tree evs s)) = tmps s /\
  dirs (fst (load_git guard force isrepo F p ref tree evs s)) = dirs s.
Proof. exact no_tmp_left. Qed.
Print Assumptions C20_no_tmp_left.

(* ... and exactly then: once mkdtemp has run, a removal that raises at once or in the middle leaves the directory. *)
Theorem C20_tmp_left_when_removal_fails :
  forall guard force isrepo F p ref tree evs s,
  reaches_add isrepo F = true -> rm_effective F = false ->
  In p (tmps (fst (load_git guard force isrepo F p ref tree evs s))).
Proof. exact tmp_left_when_removal_fails. Qed.
Print Assumptions C20_tmp_left_when_removal_fails.

(* HEAD, the index / working tree / stash of the main worktree and the tags are never written, whatever fails. *)
Theorem C20_main_worktree_untouched :
  forall guard force isrepo F p ref tree evs s, same_main s (fst (load_git guard force isrepo F p ref tree evs s)).
Proof. exact main_worktree_untouched. Qed.
Print Assumptions C20_main_worktree_untouched.

(* check(): two loads; same conclusion. *)
Theorem C20_check_state_restored :
  forall s a tree breaking isrepo,
  wf s = true -> fresh (c_p1 a) s = true -> fresh (c_p2 a) s = true ->
  check_benign isrepo s a = true ->
  fst (check false true isrepo a tree breaking s) = s.
Proof. exact check_state_restored. Qed.
Print Assumptions C20_check_state_restored.

Theorem C20_check_repaired_state_restored :
  forall s a tree breaking isrepo,
  wf s = true -> fresh (c_p1 a) s = true -> fresh (c_p2 a) s = true ->
  check_benign_guarded isrepo s a = true ->
  fst (check true true isrepo a tree breaking s) = s.
Proof. exact check_guarded_state_restored. Qed.
Print Assumptions C20_check_repaired_state_restored.

Theorem C20_check_exit_code :
  forall guard force isrepo a tree breaking s ag s1 vo s2 vn,
  against_of a = inl ag -> ro_call (c_f_root a) isrepo = Rc0 -> c_ext_fails a = false ->
  load_git guard force isrepo (c_F1 a) (c_p1 a) ag tree (c_evs1 a) s = (s1, Returned vo) ->
  load_new guard force isrepo a tree s1 = (s2, Returned vn) ->
  check guard force isrepo a tree breaking s = (s2, Returned (if breaking_pair breaking vo vn then 1 else 0)).
Proof. exact check_exit_code. Qed.
Print Assumptions C20_check_exit_code.

Theorem C20_check_zero_sound :
  forall guard force isrepo a tree breaking s,
  snd (check guard force isrepo a tree breaking s) = Returned 0 ->
  exists ag s1 vo s2 vn,
    against_of a = inl ag /\
    load_git guard force isrepo (c_F1 a) (c_p1 a) ag tree (c_evs1 a) s = (s1, Returned vo) /\
    load_new guard force isrepo a tree s1 = (s2, Returned vn) /\
    breaking_pair breaking vo vn = false.
Proof. exact check_zero_sound. Qed.
Print Assumptions C20_check_zero_sound.

(* Any history of load_git / check operations with benign fault placements leaves the repository as it was. *)
Theorem C20_history_restored :
  forall tree breaking ops s,
  wf s = true -> forallb (op_ok s) ops = true ->
  fold_left (run_op tree breaking) ops s = s.
Proof. exact history_restored. Qed.
Print Assumptions C20_history_restored.

(* The repaired defect: without --force a file written into the checkout leaves residue; with it the same run restores. *)
Theorem C20_without_force_refuted :
  exists s p ref tree evs,
    wf s = true /\ fresh p s = true /\ benign true s ref no_faults = true /\
    fst (load_git false false true no_faults p ref tree evs s) <> s /\
    fst (load_git false true true no_faults p ref tree evs s) = s.
Proof. exact without_force_refuted. Qed.
Print Assumptions C20_without_force_refuted.

(* F2 *)
Theorem C20_state_restored_refuted_add_after :
  exists s p ref tree evs F,
    wf s = true /\ fresh p s = true /\ f_add F = FailAfter /\
    fst (load_git false true true F p ref tree evs s) <> s /\
    snd (load_git false true true F p ref tree evs s) = Raised "RuntimeError".
Proof. exact add_after_refuted. Qed.
Print Assumptions C20_state_restored_refuted_add_after.

(* F2, torn form: interrupted after `git branch`, before the registration: the branch alone stays. *)
Theorem C20_state_restored_refuted_add_torn :
  exists s p ref tree evs F,
    wf s = true /\ fresh p s = true /\ f_add F = Torn (Some "KeyboardInterrupt") /\
    fst (load_git false true true F p ref tree evs s) = leak_branch s (tmp_branch ref) 0 /\
    fst (load_git false true true F p ref tree evs s) <> s.
Proof. exact add_torn_refuted. Qed.
Print Assumptions C20_state_restored_refuted_add_torn.

Theorem C20_cleanup_fault_unrestorable :
  exists s p ref tree evs F,
    wf s = true /\ fresh p s = true /\ f_branchD F = FailBefore /\
    fst (load_git false true true F p ref tree evs s) <> s.
Proof. exact cleanup_fault_refuted. Qed.
Print Assumptions C20_cleanup_fault_unrestorable.

(* Why dropping `git worktree prune` (repair of F3) loses nothing: in every state the finally block can be in (a torn
   `worktree remove` aside), prune changes nothing when the user's repository has no prunable registration. *)
Theorem C20_prune_is_noop_in_cleanup :
  forall s p b c a, fresh p s = true -> no_prunable s = true -> a <> AStale -> wt_prune (conc s p b c a) = conc s p b c a.
Proof. exact prune_is_noop_in_cleanup. Qed.
Print Assumptions C20_prune_is_noop_in_cleanup.

(* _normalize: the checkout directory name has no separator, so it is a direct child of the temporary directory. *)
Theorem C20_normalize_no_separator :
  forall s, all_chars (fun c => c <> "/"%char /\ c <> "."%char /\ c <> " "%char /\ c <> "\"%char) (normalize s).
Proof. exact normalize_no_separator. Qed.
Print Assumptions C20_normalize_no_separator.

(* Breakage._location: the worktree prefix <tmp root>/griffe-worktree-*/<checkout name> is stripped, whatever the name. *)
Theorem C20_location_prefix_stripped :
  forall root suffix dirname rel,
  Forall (fun x => String.prefix wt_prefix x = false) root ->
  location true (checkout_parts root (wt_prefix ++ suffix) dirname ++ rel) = rel.
Proof. exact location_prefix_stripped. Qed.
Print Assumptions C20_location_prefix_stripped.

(* The checkout name (`_normalize(ref) or "ref"`, repair of F4) is never empty and is a single path component, so the
   checkout really is <tmp dir>/<name> as checkout_parts says. *)
Theorem C20_checkout_name_safe :
  forall ref, checkout_name ref <> "" /\
    all_chars (fun c => c <> "/"%char /\ c <> "."%char /\ c <> " "%char /\ c <> "\"%char) (checkout_name ref).
Proof. exact checkout_name_safe. Qed.
Print Assumptions C20_checkout_name_safe.

(* Returned objects: every file loaded from the checkout (static or dynamic analysis) gives the lines it had at that
   reference on EVERY file system -- in particular once the checkout no longer exists. *)
Theorem C20_objects_self_contained :
  forall fs checkout files lc rel ls,
  NoDup (map fst files) -> In (rel, ls) files ->
  obj_lines fs (visit_files checkout files lc) (checkout ++ rel) = ls.
Proof. exact objects_self_contained. Qed.
Print Assumptions C20_objects_self_contained.

(* ... and for every path and span whatsoever, lines and source of an object do not depend on the file system
   (the collection holds lines, never a promise to read them later; deferred_depends_on_filesystem shows the
   statement fails as soon as it holds one). *)
Theorem C20_lines_independent_of_filesystem :
  forall fs1 fs2 checkout files lc filepath lineno endlineno,
  all_stored lc = true ->
  obj_lines fs1 (visit_files checkout files lc) filepath = obj_lines fs2 (visit_files checkout files lc) filepath /\
  obj_source fs1 (visit_files checkout files lc) filepath lineno endlineno
  = obj_source fs2 (visit_files checkout files lc) filepath lineno endlineno.
Proof. exact lines_independent_of_filesystem. Qed.
Print Assumptions C20_lines_independent_of_filesystem.

(* `git worktree remove` resolves an argument that is a NAME against the last path component of every worktree (main,
   stale and locked ones included): where the removal by the checkout's absolute path -- what tmp_worktree passes --
   works, the removal by the name of the checkout directory is refused as soon as another worktree of the user's, or the
   repository directory itself, has that name. *)
Theorem C20_remove_by_name_refused_where_path_works :
  forall s p b c d nm name q,
  fresh p s = true -> has_branch b s = false ->
  nlookup p (snd nm) = Some name ->
  (String.eqb (fst nm) name = true \/ (registered q s = true /\ Nat.eqb q p = false /\ nlookup q (snd nm) = Some name)) ->
  wt_remove_named true nm name (conc s p b c (AFull d)) = None /\
  wt_remove true p (conc s p b c (AFull d)) = Some (conc s p b c ANoWt).
Proof. exact remove_by_name_refused_where_path_works. Qed.
Print Assumptions C20_remove_by_name_refused_where_path_works.

(* ---- the "package absent at that reference" path with inspection allowed (the default): GriffeLoader.load falls back to
   dynamic_import(top_module, finder.search_paths), and load_git restricts the search paths to the checkout.
   The import system of the calling process is part of the state (sys.path, sys.modules, which directory holds which
   module, byte code on or off, the __pycache__ entries written); the law of importer.sys_path is REGENERATED from
   src/_griffe/importer.py (Gen/C20_syspath.v). *)

(* the regenerated law: sys.path is replaced by the given paths while an import runs *)
Theorem C20_sys_path_law_replaces : forall paths old, sys_path_law paths old = paths.
Proof. exact law_is_replace. Qed.
Print Assumptions C20_sys_path_law_replaces.

(* for every process state and file system, with or without inspection: a package is only ever found in / imported from a
   search path inside the checkout, byte code is only ever written there, sys.path is restored -- provided the package is not
   already in sys.modules from elsewhere *)
Theorem C20_load_git_imports_only_from_checkout :
  forall pkg root sub inspection st o st',
  (forall d, mod_lookup pkg (sys_modules st) = Some d -> In d (git_search_paths root sub)) ->
  load_top pkg (git_search_paths root sub) inspection st = (o, st') ->
  sys_path st' = sys_path st /\
  pycache_confined (git_search_paths root sub) st st' /\
  match o with FoundOnDisk d | Imported d => In d (git_search_paths root sub) | NotFound => True end.
Proof. exact load_git_imports_only_from_checkout. Qed.
Print Assumptions C20_load_git_imports_only_from_checkout.

(* the absent package: ImportError and a process state that is exactly what it was *)
Theorem C20_absent_package_not_found :
  forall pkg root sub inspection st,
  mod_lookup pkg (sys_modules st) = None ->
  (forall d, In d (git_search_paths root sub) -> has_module st d pkg = false) ->
  load_top pkg (git_search_paths root sub) inspection st = (NotFound, st).
Proof. exact absent_package_not_found. Qed.
Print Assumptions C20_absent_package_not_found.

(* every history of imports one load performs (the fallback, then whatever the inspector asks for), under ANY law that puts
   nothing but the given paths on sys.path -- the regenerated one is such a law (generated_law_confining) *)
Theorem C20_imports_confined_every_history :
  forall law, confining law ->
  forall ms paths st os st',
  paths <> [] -> cache_inside ms paths st ->
  import_all_l law ms paths st = (os, st') ->
  sys_path st' = sys_path st /\ (forall d, In (Some d) os -> In d paths) /\ pycache_confined paths st st'.
Proof. exact import_all_confined. Qed.
Print Assumptions C20_imports_confined_every_history.

Theorem C20_generated_law_confining : confining sys_path_law.
Proof. exact generated_law_confining. Qed.
Print Assumptions C20_generated_law_confining.

(* a sys_path that keeps the interpreter's entries after the given ones is not confining: the absent package is imported
   from the user's working tree and byte-compiled there *)
Theorem C20_prepend_law_imports_working_tree :
  ~ confining prepend_law /\
  exists st pkg root,
    mod_lookup pkg (sys_modules st) = None /\
    (forall d, In d (git_search_paths root []) -> has_module st d pkg = false) /\
    fst (load_top_l prepend_law pkg (git_search_paths root []) true st) = Imported 1 /\
    pycache (snd (load_top_l prepend_law pkg (git_search_paths root []) true st)) = [(1, pkg)] /\
    ~ In 1 (git_search_paths root []).
Proof. exact prepend_law_imports_working_tree. Qed.
Print Assumptions C20_prepend_law_imports_working_tree.

(* the hypothesis on sys.modules is needed (code as it is): a package the calling process has already imported from its
   working tree is handed back whatever sys.path says -- load_git then returns the working tree's package for a reference
   where it is absent (nothing is written) *)
Theorem C20_cached_package_escapes :
  exists st pkg root,
    (forall d, In d (git_search_paths root []) -> has_module st d pkg = false) /\
    load_top pkg (git_search_paths root []) true st = (Imported 1, st) /\ ~ In 1 (git_search_paths root []).
Proof. exact cached_package_escapes. Qed.
Print Assumptions C20_cached_package_escapes.
