(* C03 — Stored expressions render back to equivalent Python code.  Property theorems only. *)
From Coq Require Import List ZArith String Ascii Bool Arith.
From Verif Require Import Lib.Sexp Model.C03_ops Gen.C03_tables Model.C03_expr Model.C03_spec
  Proofs.C03_ind Proofs.C03_iter Proofs.C03_rule Proofs.C03_render Proofs.C03_names Proofs.C03_expr.
Import ListNotations.
Open Scope string_scope. Open Scope list_scope. Open Scope nat_scope.

(* (T) the tables regenerated from expressions.py spell every operator as the Python grammar does, and every ast class of
   the expression grammar has a builder except Await *)
Theorem C03_tables_match_grammar :
  (forall o, unop_str o = Some (spec_unop o)) /\ (forall o, binop_str o = Some (spec_binop o)) /\
  (forall o, boolop_str o = Some (spec_boolop o)) /\ (forall o, cmpop_str o = Some (spec_cmpop o)) /\
  (forall k, mapped k = match k with NAwait => false | _ => true end).
Proof. exact (conj unop_table (conj binop_table (conj boolop_table (conj cmpop_table node_table)))). Qed.
Print Assumptions C03_tables_match_grammar.

(* str(expr) is the concatenation of the flat pieces (definition of Expr.__str__), flat iteration is the recursive
   expansion of one-layer iteration, and its pieces are plain strings and names only *)
Theorem C03_str_is_concat_of_flat : forall g,
  render g = sconcat (map item_text (iterate true g)) /\
  iterate true g = flatten (iterate false g) /\
  Forall is_piece (iterate true g).
Proof. intros g. exact (conj eq_refl (conj (iterate_flat_is_expansion g) (flat_items_are_pieces g))). Qed.
Print Assumptions C03_str_is_concat_of_flat.

(* building with string parsing in mode m = building, with parsing off, the tree in which exactly the strings selected by
   [subst] (flag on, not under a Literal[...] slice, not literal text of an f-string, not in a subscripted value, not in a
   lambda default, not inside an already parsed string, content parses) are replaced by their parsed code *)
Theorem C03_string_annotation_rule : forall e c,
  no_parsed e = true -> build c e = build (npc c) (subst (pm c) (injoin c) (infmt c) e).
Proof. exact string_annotation_rule. Qed.
Print Assumptions C03_string_annotation_rule.

(* with the flag off nothing is parsed (postponed evaluation in effect: every string stays a string) *)
Theorem C03_strings_untouched_when_off : forall e j f, subst NoParse j f e = e.
Proof. exact subst_noparse_id. Qed.
Print Assumptions C03_strings_untouched_when_off.

(* _build never raises on a well-formed tree without await, whatever the flags *)
Theorem C03_build_total : forall e c,
  pm c = NoParse -> wf e = true -> has_await e = false -> exists g, build c e = Some g.
Proof. exact build_total. Qed.
Print Assumptions C03_build_total.

(* every Name id and attribute name of the tree is a name piece, in textual order, unless a sub-expression is dropped
   (format spec, await) *)
Theorem C03_names_all_present_modulo_known : forall e c g,
  pm c = NoParse -> wf e = true -> drops e = false -> build c e = Some g ->
  item_names (iterate true g) = src_names e.
Proof. exact names_all_present. Qed.
Print Assumptions C03_names_all_present_modulo_known.

(* a dotted chain r.x1...xn is stored as one ExprAttribute whose i-th name has the (i-1)-th as parent, so that
   ExprName.path of the i-th name is the dotted prefix r.x1...xi (what name resolution follows) *)
Theorem C03_dotted_chain_parent_links : forall cx r x attrs,
  build cx (chain_expr (PName r) (x :: attrs)) = Some (GAttribute (GName r ParScope :: chain_names r (x :: attrs))).
Proof. exact dotted_chain_parent_links. Qed.
Print Assumptions C03_dotted_chain_parent_links.

(* the statement without gap hypothesis is false of the faithful model: one witness per known finding
   (each is replayed on the implementation on every run) *)
Theorem C03_render_refuted : exists e, wf e = true /\ ~ render_claim P_TEST e.
Proof. exact render_claim_refuted. Qed.
Print Assumptions C03_render_refuted.
Theorem C03_render_refuted_F1 : refutes G_GROUP w_F1. Proof. exact refuted_F1. Qed.
Print Assumptions C03_render_refuted_F1.
Theorem C03_render_refuted_F3 : refutes G_FSTRING w_F3. Proof. exact refuted_F3. Qed.
Print Assumptions C03_render_refuted_F3.
Theorem C03_render_refuted_F4 : refutes G_LAMBDA w_F4 /\ refutes G_LAMBDA w_F4b. Proof. exact (conj refuted_F4 refuted_F4b). Qed.
Print Assumptions C03_render_refuted_F4.
Theorem C03_render_refuted_F6 : refutes G_GENEXP w_F6. Proof. exact refuted_F6. Qed.
Print Assumptions C03_render_refuted_F6.
Theorem C03_render_refuted_F7 : refutes G_EMPTY_SLICE_TUPLE w_F7. Proof. exact refuted_F7. Qed.
Print Assumptions C03_render_refuted_F7.
Theorem C03_render_refuted_F8 : refutes G_YIELD w_F8. Proof. exact refuted_F8. Qed.
Print Assumptions C03_render_refuted_F8.
Theorem C03_render_refuted_F9 : refutes G_INT_ATTR w_F9. Proof. exact refuted_F9. Qed.
Print Assumptions C03_render_refuted_F9.
Theorem C03_render_refuted_F10 : refutes G_AWAIT w_F10. Proof. exact refuted_F10. Qed.
Print Assumptions C03_render_refuted_F10.

(* the strongest true statement: outside the eight decidable gap families that remain after the repairs (F2, F5, F11, F12 fixed), for every well-formed tree of any depth and
   width and every storing position (top = minimal precedence of the position), str(build e) is, character for
   character, the text of the precedence-aware reference printer *)
Theorem C03_render_eq_reference_modulo_known : forall top e,
  wf e = true -> known_gap top e = false ->
  exists g, build ctx0 e = Some g /\ render g = ref_top top e.
Proof. exact render_eq_reference_modulo_known. Qed.
Print Assumptions C03_render_eq_reference_modulo_known.

(* the same with string annotations parsed (mode m): the text is the reference text of the substituted tree *)
Theorem C03_render_eq_reference_with_strings : forall top m e,
  no_parsed e = true -> wf (subst m false false e) = true -> known_gap top (subst m false false e) = false ->
  exists g, build (mkCtx m false false false) e = Some g /\ render g = ref_top top (subst m false false e).
Proof. exact render_eq_reference_with_strings. Qed.
Print Assumptions C03_render_eq_reference_with_strings.
