(* C03 — Stored expressions render back to equivalent Python code.  Property theorems only.
   fx ranges over the combinations of the rendering repairs (Model/C03_ops.v: fixes); fx_none is the printer before any of
   them, fx_all the printer with all of them, tree_fixes (Gen/C03_tables.v) what the translator found in the tree under test.
   env is the table of names the module's import statements bind. *)
From Coq Require Import List ZArith String Ascii Bool Arith.
From Verif Require Import Lib.Sexp Model.C03_ops Gen.C03_tables Model.C03_expr Model.C03_spec Model.C03_run
  Proofs.C03_ind Proofs.C03_iter Proofs.C03_rule Proofs.C03_render Proofs.C03_names Proofs.C03_expr Proofs.C03_repaired Proofs.C03_walk.
Import ListNotations.
Open Scope string_scope. Open Scope list_scope. Open Scope nat_scope.

(* (T) the tables regenerated from expressions.py spell every operator as the Python grammar does, and every ast class of
   the expression grammar has a builder except Await *)
Theorem C03_tables_match_grammar :
  (forall o, unop_str o = Some (spec_unop o)) /\ (forall o, binop_str o = Some (spec_binop o)) /\
  (forall o, boolop_str o = Some (spec_boolop o)) /\ (forall o, cmpop_str o = Some (spec_cmpop o)) /\
  (forall k, mapped k = match k with NAwait => false | _ => true end).
Proof. exact (conj unop_table (conj binop_table (conj boolop_table (conj cmpop_table node_table)))). Qed.
Print Assumptions C03_tables_match_grammar.

(* (T) every entry of _binary_op_precedence read from expressions.py is the level the model compares with, and when the tree
   has the precedence machinery the table gives every binary operator of the grammar its grammar level *)
Theorem C03_precedence_table_matches_grammar :
  forallb (fun p => Nat.eqb (gbinop_prec (fst p)) (snd p)) gen_binop_prec = true /\
  (fx_prec tree_fixes = true ->
   forallb (fun o => existsb (fun p => String.eqb (fst p) (spec_binop o) && Nat.eqb (snd p) (binop_prec o)) gen_binop_prec) all_binops = true).
Proof. exact (conj prec_table_sound prec_table_complete). Qed.
Print Assumptions C03_precedence_table_matches_grammar.

(* (T) the model's iterate and _precedence are defined over constants regenerated from the `precedence=` arguments of every
   _yield / _join call of every Expr*.iterate method and from the branches of _precedence; they are the levels the Python
   grammar gives those operand positions and node classes (a source that requires another level somewhere regenerates another
   constant: the model follows it, this theorem and the round-trip theorem stop compiling) *)
Theorem C03_operand_requirements_match_grammar :
  forallb (fun p => Nat.eqb (fst p) (snd p)) slot_table = true /\
  pr_BoolOp_if_operator = spec_boolop L_Or /\ pr_UnaryOp_if_operator = spec_unop U_Not /\
  (forall o, gprec (GBinOp (GStr "") (spec_binop o) (GStr "")) = binop_prec o) /\
  (forall o vs, gprec (GBoolOp (spec_boolop o) vs) = boolop_prec o) /\ (forall o v, gprec (GUnaryOp (spec_unop o) v) = unop_prec o).
Proof. exact slot_requirements_match. Qed.
Print Assumptions C03_operand_requirements_match_grammar.

(* str(expr) is the concatenation of the flat pieces (definition of Expr.__str__), flat iteration is the recursive
   expansion of one-layer iteration (parentheses included), and its pieces are plain strings and names only *)
Theorem C03_str_is_concat_of_flat : forall fx g,
  render fx g = sconcat (map item_text (iterate fx true g)) /\
  iterate fx true g = flatten fx (iterate fx false g) /\
  Forall is_piece (iterate fx true g).
Proof. intros fx g. exact (conj eq_refl (conj (iterate_flat_is_expansion fx g) (flat_items_are_pieces fx g))). Qed.
Print Assumptions C03_str_is_concat_of_flat.

(* what a renderer does with iter(expr) -- one layer at a time, descending into every sub-expression that is not a name --
   yields exactly the flat iteration, whenever that walk ends within its fuel (decidable: the extracted model evaluates it on
   every case of the check, with fuel 400); and the amount of fuel does not matter once it suffices *)
Theorem C03_recursive_walk_is_flat : forall fx n g,
  forallb is_pieceb (rwalk fx n g) = true -> rwalk fx n g = iterate fx true g.
Proof. exact rwalk_is_flat. Qed.
Print Assumptions C03_recursive_walk_is_flat.
Theorem C03_recursive_walk_fuel_irrelevant : forall fx n m g,
  forallb is_pieceb (rwalk fx n g) = true -> forallb is_pieceb (rwalk fx m g) = true -> rwalk fx n g = rwalk fx m g.
Proof. exact rwalk_fuel_irrelevant. Qed.
Print Assumptions C03_recursive_walk_fuel_irrelevant.

(* building with string parsing in mode m = building, with parsing off, the tree in which exactly the strings selected by
   [subst] (flag on, not under a slice of a name chain that the module's imports resolve to typing.Literal /
   typing_extensions.Literal (sticky), not literal text of an f-string, not in a subscripted value, not in a lambda default,
   not inside an already parsed string, content parses) are replaced by their parsed code.  Without the repair of F14 the
   source must not subscript a chain with a non-name root that spells typing.Literal (rule_ok) *)
Theorem C03_string_annotation_rule : forall fx env e c,
  rule_ok (fx_litroot fx) e = true -> build fx env c e = build fx env (npc c) (subst fx env (pm c) (injoin c) (infmt c) e).
Proof. exact string_annotation_rule. Qed.
Print Assumptions C03_string_annotation_rule.

(* ... with that repair (present in the tree) the hypothesis is only "a source tree" (no PParsed) *)
Theorem C03_string_annotation_rule_repaired : forall fx env e c,
  fx_litroot fx = true -> no_parsed e = true -> build fx env c e = build fx env (npc c) (subst fx env (pm c) (injoin c) (infmt c) e).
Proof. intros fx env e c Hf Hn. apply string_annotation_rule. rewrite Hf. exact Hn. Qed.
Print Assumptions C03_string_annotation_rule_repaired.
(* with the flag off nothing is parsed (postponed evaluation in effect: every string stays a string) *)
Theorem C03_strings_untouched_when_off : forall fx env e j f, subst fx env NoParse j f e = e.
Proof. exact subst_noparse_id. Qed.
Print Assumptions C03_strings_untouched_when_off.

(* what _build_subscript tests: the canonical path of the built left part is, for a chain of names, the resolution of its
   root through the module's imports followed by the attribute names (and a chain with another root forgets that root) *)
Theorem C03_canonical_path_of_chain : forall fx env v c g,
  pm c = NoParse -> rule_ok (fx_litroot fx) v = true -> build fx env c v = Some g ->
  match src_canon env v with
  | Some p => gcanon env g = Some p /\ chain_shape g
  | None => pure_chain g = false /\ (is_name_or_attr_src v = true -> gcanon env g = quirk_canon v)
  end.
Proof. intros fx env v c g. exact (canon_of_build fx env v c g). Qed.
Print Assumptions C03_canonical_path_of_chain.

(* _build never raises on a well-formed tree without await, whatever the flags *)
Theorem C03_build_total : forall fx env e c,
  pm c = NoParse -> wf e = true -> has_await fx e = false -> exists g, build fx env c e = Some g.
Proof. exact build_total. Qed.
Print Assumptions C03_build_total.

(* every Name id and attribute name of the tree is a name piece, in textual order, unless a sub-expression is dropped
   (await; a format spec when the tree does not store it) *)
Theorem C03_names_all_present_modulo_known : forall fx env e c g,
  pm c = NoParse -> wf e = true -> drops fx e = false -> build fx env c e = Some g ->
  item_names (iterate fx true g) = src_names e.
Proof. exact names_all_present. Qed.
Print Assumptions C03_names_all_present_modulo_known.

(* a dotted chain r.x1...xn is stored as one ExprAttribute whose i-th name has the (i-1)-th as parent, so that
   ExprName.path of the i-th name is the dotted prefix r.x1...xi, and its canonical path is the resolution of r followed by
   x1...xn (what name resolution follows) *)
Theorem C03_dotted_chain_parent_links : forall fx env cx r x attrs,
  build fx env cx (chain_expr (PName r false) (x :: attrs)) = Some (GAttribute (GName r ParScope :: chain_names r (x :: attrs))).
Proof. exact dotted_chain_parent_links. Qed.
Print Assumptions C03_dotted_chain_parent_links.
Theorem C03_dotted_chain_canonical_path : forall fx env cx r x attrs g,
  pm cx = NoParse -> build fx env cx (chain_expr (PName r false) (x :: attrs)) = Some g ->
  gcanon env g = Some (fold_left (fun p a => (p ++ "." ++ a)%string) (x :: attrs) (resolve env r)).
Proof. exact dotted_chain_canonical. Qed.
Print Assumptions C03_dotted_chain_canonical_path.

(* names the expression binds itself (comprehension targets, lambda parameters: the flags the scoping rule [scope_ok] gives,
   cross-checked against the harness's on every case) have no parent and resolve to themselves; the others to what the module
   binds *)
Theorem C03_local_names_have_no_path : forall fx env c id,
  build fx env c (PName id true) = Some (GName id ParNone) /\ gcanon env (GName id ParNone) = Some id /\
  build fx env c (PName id false) = Some (GName id ParScope) /\ gcanon env (GName id ParScope) = Some (resolve env id).
Proof. exact local_name_unresolved. Qed.
Print Assumptions C03_local_names_have_no_path.

(* what is stored for an expression depends on nothing that was built before it (the model is a function; the correspondence
   check ties the implementation to it on sequences of builds in one process) *)
Theorem C03_build_history_independent : forall fx pre env cx e post,
  nth (List.length pre) (build_seq fx (pre ++ (env, cx, e) :: post)) None = build fx env cx e.
Proof. exact build_seq_independent. Qed.
Print Assumptions C03_build_history_independent.

(* Expr.modernize() changes nothing in this version *)
Theorem C03_modernize_is_identity : forall fx g, render fx (modernize g) = render fx g.
Proof. exact modernize_id. Qed.
Print Assumptions C03_modernize_is_identity.

(* (T) the translator found every repair in the tree under test: the model of the tree is the one with all of them *)
Theorem C03_tree_has_all_repairs : tree_fixes = fx_all.
Proof. exact tree_is_repaired. Qed.
Print Assumptions C03_tree_has_all_repairs.

(* the statement without any hypothesis is still false of the faithful model: the two gap families that remain, each with a
   computed witness that is replayed on the implementation on every run *)
Theorem C03_render_refuted : exists e, wf e = true /\ ~ render_claim fx_all P_TEST e.
Proof. exact render_claim_refuted. Qed.
Print Assumptions C03_render_refuted.
Theorem C03_render_refuted_F8 : refutes fx_all G_YIELD w_F8. Proof. exact refuted_F8. Qed.
Print Assumptions C03_render_refuted_F8.
Theorem C03_render_refuted_F10 : refutes fx_all G_AWAIT w_F10. Proof. exact refuted_F10. Qed.
Print Assumptions C03_render_refuted_F10.

(* the strongest true statement, for every combination of repairs: outside the decidable gap families that the repairs
   present leave, for every well-formed tree of any depth and width and every storing position (top = minimal precedence of
   the position), str(build e) is, character for character, the text of the precedence-aware reference printer *)
Theorem C03_render_eq_reference_modulo_known : forall fx env top e,
  wf e = true -> known_gap fx top e = false ->
  exists g, build fx env ctx0 e = Some g /\ render fx g = ref_top top e.
Proof. exact render_eq_reference_modulo_known. Qed.
Print Assumptions C03_render_eq_reference_modulo_known.

(* the same with string annotations parsed (mode m): the text is the reference text of the substituted tree *)
Theorem C03_render_eq_reference_with_strings : forall fx env top m e,
  rule_ok (fx_litroot fx) e = true -> wf (subst fx env m false false e) = true ->
  known_gap fx top (subst fx env m false false e) = false ->
  exists g, build fx env (mkCtx m false false false) e = Some g /\ render fx g = ref_top top (subst fx env m false false e).
Proof. exact render_eq_reference_with_strings. Qed.
Print Assumptions C03_render_eq_reference_with_strings.

(* THE TREE (every repair present): NO grouping, f-string, lambda, generator, empty-tuple, yield-operand or integer-attribute
   hypothesis.  For every well-formed tree whose f-strings are made of literal text and replacement fields (every tree the
   parser produces), without await (no builder), not a bare yield in a position that needs an expression *)
Theorem C03_render_eq_reference_repaired : forall env top e,
  wf e = true -> fshape e = true -> has_await fx_all e = false -> (prec e <? top) = false ->
  exists g, build fx_all env ctx0 e = Some g /\ render fx_all g = ref_top top e.
Proof. exact render_eq_reference_repaired. Qed.
Print Assumptions C03_render_eq_reference_repaired.
Theorem C03_render_eq_reference_repaired_with_strings : forall env top m e,
  no_parsed e = true -> wf (subst fx_all env m false false e) = true -> fshape (subst fx_all env m false false e) = true ->
  has_await fx_all (subst fx_all env m false false e) = false -> (prec (subst fx_all env m false false e) <? top) = false ->
  exists g, build fx_all env (mkCtx m false false false) e = Some g /\ render fx_all g = ref_top top (subst fx_all env m false false e).
Proof. exact render_eq_reference_repaired_with_strings. Qed.
Print Assumptions C03_render_eq_reference_repaired_with_strings.
