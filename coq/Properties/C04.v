(* C04 — Names in expressions resolve to the object Python scoping binds them to.  Property theorems only. *)
From Coq Require Import List String Bool Arith.
From Verif Require Import Lib.Sexp Model.C04_scope Proofs.C04_scope Model.C04_expr Proofs.C04_expr Model.C04_stubs Proofs.C04_stubs.
Import ListNotations.
Open Scope string_scope. Open Scope list_scope. Open Scope nat_scope.

(* relative_to_absolute equals importlib._bootstrap._resolve_name wherever CPython does not raise ImportError:
   level 0, and every level from 1 to the number of enclosing packages, for __init__ and plain modules alike *)
Theorem C04_relative_to_absolute_eq_cpython : forall level mrev is_init module name p,
  cpython_from_target level mrev is_init module name = Some p ->
  relative_to_absolute level mrev is_init module name = p.
Proof. exact relative_to_absolute_eq_cpython. Qed.
Print Assumptions C04_relative_to_absolute_eq_cpython.

Theorem C04_relative_in_domain : forall level mrev is_init module name,
  1 <= level -> level <= List.length (package_rev mrev is_init) ->
  exists p, cpython_from_target level mrev is_init module name = Some p.
Proof. exact relative_in_domain. Qed.
Print Assumptions C04_relative_in_domain.

(* import statements bind the same name to the same path as CPython *)
Theorem C04_import_binding_eq_cpython : forall comps asname,
  comps <> [] -> visit_import comps asname = cpython_import comps asname.
Proof. exact import_binding_eq_cpython. Qed.
Print Assumptions C04_import_binding_eq_cpython.

(* from-imports: same alias name and target as CPython; where the visitor records no alias member, the name CPython
   binds is the path of a member of the visited scope with that very name (a submodule / the scope's own member) *)
Theorem C04_importfrom_binding_eq_cpython : forall mrev is_init scope level module name asname a p,
  cpython_importfrom mrev is_init level module name asname = Some (a, p) ->
  match visit_importfrom mrev is_init scope level module name asname with
  | FAlias a' p' => a' = a /\ p' = p
  | FImportsOnly a' p' => a' = a /\ p' = p /\ p = scope +++ "." +++ a
  | FSkip => a = name /\ p = join_dots (rev mrev) +++ "." +++ name /\ is_init = true
  end.
Proof. exact importfrom_binding_eq_cpython. Qed.
Print Assumptions C04_importfrom_binding_eq_cpython.

(* resolution ends with a justified path or with the caught NameResolutionError (only when no scope up to the nearest module binds the name) *)
Theorem C04_resolve_total : forall c n,
  (exists p, resolve c n = Some p /\ justified c n p /\ canonical c n = p) \/
  (resolve c n = None /\ unbound c n /\ canonical c n = n).
Proof. exact resolve_total. Qed.
Print Assumptions C04_resolve_total.

Theorem C04_unknown_unchanged : forall c n,
  (forall f, In f c -> lookup n (fmembers f) = None /\ mem n (fparams f) = false /\ fname f <> n) ->
  resolve c n = None /\ canonical c n = n.
Proof. exact unknown_unchanged. Qed.
Print Assumptions C04_unknown_unchanged.

Theorem C04_resolve_justified : forall c n p, resolve c n = Some p -> justified c n p.
Proof. exact resolve_justified. Qed.
Print Assumptions C04_resolve_justified.

(* The unqualified statement "resolve = CPython's lookup" is false of the faithful model and of the code
   (each witness is replayed on the implementation on every run). *)
Theorem C04_outer_class_leak_refuted :
  exists c n, wf_chain c = true /\ resolve c n <> py_lookup c n.
Proof. exact outer_class_leak_refuted. Qed.
Print Assumptions C04_outer_class_leak_refuted.

Theorem C04_method_body_leak_refuted :
  exists c n, wf_chain c = true /\ resolve c n <> py_lookup c n.
Proof. exact method_body_leak_refuted. Qed.
Print Assumptions C04_method_body_leak_refuted.

(* a module is the last scope consulted (its parent package is not in scope): it answers from its own members or raises *)
Theorem C04_module_is_last_scope : forall f rest n, is_module f = true ->
  resolve (f :: rest) n = match lookup n (fmembers f) with Some m => Some (member_path (f :: rest) n m) | None => None end.
Proof. exact module_is_last_scope. Qed.
Print Assumptions C04_module_is_last_scope.

Theorem C04_local_binder_refuted :
  exists c n, wf_chain c = true /\ gap_class c n = false /\ canonical c n <> py_canonical true c n.
Proof. exact local_binder_refuted. Qed.
Print Assumptions C04_local_binder_refuted.

(* For every chain of scopes the visitor can build and every name: unless the walk stops in an enclosing class body
   (F1), Object.resolve returns exactly what CPython's scoping binds -- same path, and
   NameResolutionError exactly when CPython finds no static binding. *)
Theorem C04_resolve_eq_python_modulo_known : forall c n,
  wf_chain c = true -> gap_class c n = false ->
  resolve c n = py_lookup c n.
Proof. exact resolve_eq_python_modulo_known. Qed.
Print Assumptions C04_resolve_eq_python_modulo_known.

Theorem C04_canonical_eq_python_modulo_known : forall local c n,
  wf_chain c = true -> gap_class c n = false -> gap_local local c n = false ->
  canonical c n = py_canonical local c n.
Proof. exact canonical_eq_python_modulo_known. Qed.
Print Assumptions C04_canonical_eq_python_modulo_known.

(* dotted chains: the ExprAttribute's path is the resolved root followed by the segments, and so is every prefix *)
Theorem C04_attribute_chain_segmentwise : forall c x,
  attr_canonical c x = dotted_from (canonical c (aroot x)) (asegs x).
Proof. exact attribute_chain_segmentwise. Qed.
Print Assumptions C04_attribute_chain_segmentwise.

Theorem C04_attribute_chain_prefixes : forall c x k e,
  nth_error (build_attr x) k = Some e ->
  e_canonical c e = dotted_from (canonical c (aroot x)) (firstn k (asegs x)).
Proof. exact attribute_chain_prefixes. Qed.
Print Assumptions C04_attribute_chain_prefixes.

(* ================================================================ part 2 (Model/C04_expr.v, Proofs/C04_expr.v)
   The model describes Object.resolve and the expression builders in both forms: as the code stands, and with the three
   prepared repairs (switches v_skip / v_locals / v_inner, read from the source under test on every run). *)

(* the form without any switch is the model of part 1 *)
Theorem C04_resolve_v_asis : forall c n, resolve_v false false c n = resolve c n.
Proof. exact resolve_v_asis. Qed.
Print Assumptions C04_resolve_v_asis.

(* both forms of the walk: CPython's lookup unless the walk stops in a class body CPython does not consult *)
Theorem C04_resolve_v_eq_python_modulo : forall sk c n,
  wf_chain c = true -> gap_class_v sk c n = false ->
  resolve_v sk false c n = py_lookup c n.
Proof. exact resolve_v_eq_python_modulo. Qed.
Print Assumptions C04_resolve_v_eq_python_modulo.

(* THE AGREEMENT THEOREM WITHOUT A GAP HYPOTHESIS: the repaired walk, on every chain of classes and modules the visitor
   can build (every stored expression outside an __init__ body) and every name, is CPython's lookup: innermost class
   body, then the module globals; same path, NameResolutionError exactly when there is no static binding. *)
Theorem C04_resolve_fixed_eq_python : forall c n,
  wf_chain c = true -> no_functions c = true ->
  resolve_v true false c n = py_lookup c n.
Proof. exact resolve_fixed_eq_python. Qed.
Print Assumptions C04_resolve_fixed_eq_python.

Theorem C04_canonical_fixed_eq_python : forall c n,
  wf_chain c = true -> no_functions c = true ->
  canonical_v true c n = py_canonical false c n.
Proof. exact canonical_fixed_eq_python. Qed.
Print Assumptions C04_canonical_fixed_eq_python.

(* what remains after the repair (C04-F6): the body of __init__ is resolved through the Function object, i.e. the class *)
Theorem C04_init_body_leak_refuted :
  exists c n, wf_chain c = true /\ resolve_v true false c n <> py_lookup c n /\ gap_class_v true c n = true.
Proof. exact init_body_leak_refuted. Qed.
Print Assumptions C04_init_body_leak_refuted.

(* whole expressions, identifier by identifier (lambda parameters and defaults, comprehension targets, first iterable,
   nested function scopes in class bodies, string annotations), for every form of the builders *)
Theorem C04_expr_eq_python_modulo : forall v c e,
  wf_chain c = true -> e_gap v c e = false -> g_names v c e = p_names c e.
Proof. exact expr_eq_python_modulo. Qed.
Print Assumptions C04_expr_eq_python_modulo.

(* ... and without a gap hypothesis for the repaired code *)
Theorem C04_expr_fixed_eq_python : forall c e,
  wf_chain c = true -> no_functions c = true -> g_names v_fixed c e = p_names c e.
Proof. exact expr_fixed_eq_python. Qed.
Print Assumptions C04_expr_fixed_eq_python.

(* each of the three repairs is necessary for the previous theorem *)
Theorem C04_each_repair_needed :
  (exists c e, wf_chain c = true /\ no_functions c = true /\ g_names (mkV false true true) c e <> p_names c e) /\
  (exists c e, wf_chain c = true /\ no_functions c = true /\ g_names (mkV true false true) c e <> p_names c e) /\
  (exists c e, wf_chain c = true /\ no_functions c = true /\ g_names (mkV true true false) c e <> p_names c e).
Proof. exact each_repair_needed. Qed.
Print Assumptions C04_each_repair_needed.

(* C04-F4 on the code as it stands: a free name inside a comprehension of a class body is resolved through the class *)
Theorem C04_asis_inner_scope_refuted :
  exists c e, wf_chain c = true /\ no_functions c = true /\ g_names v_asis c e <> p_names c e /\ e_gap v_asis c e = true.
Proof. exact asis_inner_scope_refuted. Qed.
Print Assumptions C04_asis_inner_scope_refuted.

(* `global n` in the referencing scope (no well-formedness needed): the module's binding unless a scope below answers *)
Theorem C04_global_decl_modulo : forall sk c n,
  gap_global c n = false -> resolve_v sk false c n = py_global c n.
Proof. exact global_decl_modulo. Qed.
Print Assumptions C04_global_decl_modulo.

Theorem C04_global_decl_refuted :
  exists c n, wf_chain c = true /\ no_functions c = true /\ resolve_v true false c n <> py_lookup_decl DGlobal c n /\ gap_global c n = true.
Proof. exact global_decl_refuted. Qed.
Print Assumptions C04_global_decl_refuted.

(* no bind-once restriction: for every list of binding statements (any order, re-bindings, uses anywhere) the member
   table of the visitor and CPython's final namespace give each name the same dotted path (flow-insensitive reading:
   the last binding wins), unless that last binding is an import of the scope's own member, which the visitor skips *)
Theorem C04_members_last_wins : forall mrev is_init scope ss ps n,
  p_members mrev is_init ss = Some ps ->
  silent_last mrev is_init scope ss n = false ->
  option_map (den scope n) (lookup n (g_members mrev is_init scope ss)) = option_map (den scope n) (lookup n ps).
Proof. exact members_last_wins. Qed.
Print Assumptions C04_members_last_wins.

(* dotted chains over either form of the walk *)
Theorem C04_attribute_chain_segmentwise_v : forall sk c x,
  attr_canonical_v sk c x = dotted_from (canonical_v sk c (aroot x)) (asegs x).
Proof. exact attribute_chain_segmentwise_v. Qed.
Print Assumptions C04_attribute_chain_segmentwise_v.

Theorem C04_attribute_chain_prefixes_v : forall sk c x k e,
  nth_error (build_attr x) k = Some e ->
  e_canonical_v sk c e = dotted_from (canonical_v sk c (aroot x)) (firstn k (asegs x)).
Proof. exact attribute_chain_prefixes_v. Qed.
Print Assumptions C04_attribute_chain_prefixes_v.

(* Decorator.callable_path: the head chain's resolved root followed by its segments, whatever the calls *)
Theorem C04_callable_path_head : forall sk c d,
  callable_path_v sk c d = dotted_from (canonical_v sk c (aroot (deco_head d))) (asegs (deco_head d)).
Proof. exact callable_path_head. Qed.
Print Assumptions C04_callable_path_head.

(* `nonlocal n` in a class body written directly inside a function (__init__) that binds n, the class body not binding n
   itself: both forms of the walk give the function's binding, as CPython does *)
Theorem C04_nonlocal_decl_direct : forall sk L f r n,
  wf_chain (L :: f :: r) = true -> is_class L = true -> is_function f = true ->
  g_bind L (f :: r) n = None -> n <> fname f -> py_bind f r n <> None ->
  resolve_v sk false (L :: f :: r) n = py_lookup_decl DNonlocal (L :: f :: r) n.
Proof. exact nonlocal_decl_direct. Qed.
Print Assumptions C04_nonlocal_decl_direct.

(* comprehension targets: every name of the target is local, starred ones included (nested tuples / lists such as `a, ( *b, c)` or
   `[a, *b]`); a collection that forgets Starred breaks the agreement theorem (computed witness; seeded change C04-m7) *)
Theorem C04_starred_targets_needed :
  exists c e, wf_chain c = true /\ no_functions c = true /\ g_names_with tnames_nostar v_fixed c e <> p_names c e
              /\ g_names v_fixed c e = p_names c e.
Proof. exact starred_targets_needed. Qed.
Print Assumptions C04_starred_targets_needed.

(* ================================================================ part 3 (Model/C04_stubs.v, Proofs/C04_stubs.v)
   The scope of a name written in a stubs file (.pyi) is that file's module, wherever the merge moves its objects. *)

(* the walk sees a module frame only through its name and its lookup of the name *)
Theorem C04_resolve_module_congr : forall sk n F F' rest, same_lookup n F F' ->
  forall cs skipping, resolve_v sk skipping (cs ++ F :: rest) n = resolve_v sk skipping (cs ++ F' :: rest) n.
Proof. exact resolve_v_module_congr. Qed.
Print Assumptions C04_resolve_module_congr.

(* expressions that keep the stubs scope chain (merged annotations, objects defined on both sides): resolution in the stubs
   module = resolution in the reference module (stubs text as the module, submodules attached), for every form of the walk, all
   frames above and below, every name -- unless the name is a submodule the stubs module does not itself hold (C04-F7) *)
Theorem C04_stub_scope_kept : forall sk f subs S rest cs n,
  fkind f = KModule -> gap_stub_kept subs S n = false ->
  resolve_v sk false (cs ++ stub_frame f S :: rest) n = resolve_v sk false (cs ++ reference_frame f subs S :: rest) n.
Proof. exact stub_scope_kept. Qed.
Print Assumptions C04_stub_scope_kept.

(* objects declared in the stubs only, moved into the merged concrete module (concrete members, names only the stubs bind --
   import aliases included --, submodules): the same, unless the concrete module binds the name differently from the stubs *)
Theorem C04_stub_scope_moved : forall sk f subs C S rest cs n,
  fkind f = KModule -> gap_stub_moved subs C S n = false ->
  resolve_v sk false (cs ++ merged_frame f subs C S :: rest) n = resolve_v sk false (cs ++ reference_frame f subs S :: rest) n.
Proof. exact stub_scope_moved. Qed.
Print Assumptions C04_stub_scope_moved.

Theorem C04_stub_scope_moved_subset : forall sk f subs C S rest cs n,
  fkind f = KModule ->
  (forall k c, lookup k C = Some c -> lookup k S = Some c) ->
  resolve_v sk false (cs ++ merged_frame f subs C S :: rest) n = resolve_v sk false (cs ++ reference_frame f subs S :: rest) n.
Proof. exact stub_scope_moved_subset. Qed.
Print Assumptions C04_stub_scope_moved_subset.

Theorem C04_stub_submodule_refuted :
  exists f subs S cs n, fkind f = KModule /\ gap_stub_kept subs S n = true /\
    resolve_v true false (cs ++ stub_frame f S :: []) n <> resolve_v true false (cs ++ reference_frame f subs S :: []) n.
Proof. exact stub_submodule_refuted. Qed.
Print Assumptions C04_stub_submodule_refuted.
