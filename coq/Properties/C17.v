(* C17 -- Static and dynamic analysis agree on the API skeleton.
   Property theorems only: each closed by [exact] of a lemma from Proofs/, followed by Print Assumptions.
   kind_ladder / handlers / decorator tables / kind_map are Gen/C17_tables.v, regenerated from /repo on every run. *)
From Coq Require Import List ZArith String Bool Arith.
From Verif Require Import Lib.Sexp Model.C02_kinds Model.C02_params Proofs.C02_params Model.C17_base Gen.C17_tables Model.C17_agents Proofs.C17_agents
  Model.C17_bases Proofs.C17_bases Model.C17_pyobj Proofs.C17_pyobj Model.C17_star Proofs.C17_star Model.C17_rebind Proofs.C17_rebind Model.C17_hooks Proofs.C17_hooks.
From Verif Require Model.C04_scope.
Import ListNotations.
Open Scope string_scope. Open Scope list_scope. Open Scope nat_scope.

(* ---- kinds.  Finite domain: the 24 definition forms of [all_defforms] (def / async def at module level and as
   instance, static and class methods, property, cached_property, class, nested class, module and class constants;
   the 10 import forms are the subject of the alias rule below).  For every form defined where it is found (its
   module is its parent's module) the member the Inspector creates from what CPython reports has the same Griffe kind
   and the same shared labels (async, staticmethod, classmethod, property, cached) as the member the Visitor creates
   from the source text. *)
Theorem C17_kind_agrees :
  forall d e p cur name hf,
  is_import d = false ->
  ae_child_mod e = Some p -> ae_parent_mod e = Some p ->
  skeleton (inspect_child (runtime_features d) e cur name hf) = skeleton (visitor_member d).
Proof. exact kind_agrees_in_place. Qed.
Print Assumptions C17_kind_agrees.

(* module / class / function / attribute agrees for every form, gap or not *)
Theorem C17_gkind_agrees :
  forall d, is_import d = false ->
  member_gkind (visitor_member d) = member_gkind (inspect_member (runtime_features d)).
Proof. exact gkind_agrees. Qed.
Print Assumptions C17_gkind_agrees.

(* for EVERY vector of runtime observations (not only those of the 24 forms) the ladder's kind has an inspect_<kind>
   handler: the dispatch never falls through to generic_inspect *)
Theorem C17_inspector_dispatch_total :
  forall f e, inspect_member f <> MErr e.
Proof. exact inspect_member_no_error. Qed.
Print Assumptions C17_inspector_dispatch_total.

(* ---- alias rule.  relative_to_absolute = importlib's _resolve_name for every module depth and every level that
   CPython accepts ... *)
Theorem C17_relative_import_eq_cpython :
  forall m i R, m_path m <> [] -> cpy_from_module m i = Some R -> relative_to_absolute m i = R ++ [i_name i].
Proof. exact relative_eq_cpython. Qed.
Print Assumptions C17_relative_import_eq_cpython.

(* ... and the inputs CPython rejects (the module is not importable: outside the property) are clamped, not raised *)
Theorem C17_relative_import_beyond_top :
  forall m i, m_path m <> [] -> 0 < i_level i -> cpy_from_module m i = None ->
  relative_to_absolute m i = firstn 1 (m_path m) ++ i_module i ++ [i_name i].
Proof. exact relative_beyond_top. Qed.
Print Assumptions C17_relative_import_beyond_top.

(* an imported class / function / coroutine function, through a chain of re-exports of ANY length that CPython
   executes: the Inspector creates an alias to the defining module's member, and following the Visitor's aliases
   ends at the same path -- provided importer and definer are not the same module up to leading underscores (F4) *)
Theorem C17_alias_rule :
  forall sc t e h r D q cur hf,
  importable_as_alias t = true ->
  chain_paths_ok (h :: r) -> cpy_chain_ok (h :: r) D q = true ->
  ae_has_parent e = true -> ae_parent_mod e = Some (m_path (h_mod h)) -> ae_child_mod e = Some D -> ae_qualname e = [q] ->
  cyclic (m_path (h_mod h)) D = false -> same_components (m_path (h_mod h)) D = false -> not_builtin_like e D ->
  inspect_child (runtime_features (DImported sc t)) e cur (bound_name (h_imp h)) hf = MAlias (D ++ [q]) /\
  static_final (h :: r) (D ++ [q]) = Some (D ++ [q]).
Proof. exact alias_rule. Qed.
Print Assumptions C17_alias_rule.

(* the head of the chain is an alias on the static side too, unless it is one of the two statements the visitor skips *)
Theorem C17_alias_static_head :
  forall cur m i R, m_path m <> [] -> cpy_from_module m i = Some R ->
  (is_nil (i_module i) && (i_level i =? 1) && is_none (i_as i) && m_init m) = false ->
  R ++ [i_name i] <> cur ++ [bound_name i] ->
  visit_importfrom cur m i = MAlias (R ++ [i_name i]).
Proof. exact visit_importfrom_alias. Qed.
Print Assumptions C17_alias_static_head.

Theorem C17_alias_rule_refuted_same_components :
  exists sc t e h D q cur hf,
    importable_as_alias t = true /\ chain_paths_ok [h] /\ cpy_chain_ok [h] D q = true /\
    ae_has_parent e = true /\ ae_parent_mod e = Some (m_path (h_mod h)) /\ ae_child_mod e = Some D /\ ae_qualname e = [q] /\
    m_path (h_mod h) <> D /\
    visit_importfrom cur (h_mod h) (h_imp h) = MAlias (D ++ [q]) /\
    inspect_child (runtime_features (DImported sc t)) e cur (bound_name (h_imp h)) hf = MObj GFunction [].
Proof. exact alias_rule_refuted_same_components. Qed.
Print Assumptions C17_alias_rule_refuted_same_components.

(* imported module: alias to the module's own path -- whatever its name (underscore twins of the importing module and
   built-in `_x` modules included, since the repair of F4's module variant and of F11) -- or nothing when it is the
   submodule the loader attaches *)
Theorem C17_alias_module_rule :
  forall sc e M P cur name hf,
  ae_has_parent e = true -> ae_parent_mod e = Some M -> ae_child_mod e = Some P ->
  cyclic M P = false ->
  inspect_child (runtime_features (DImported sc TModule)) e cur name hf =
  if path_eqb P (cur ++ [name]) then (if hf then MNothing else MObj GModule []) else MAlias P.
Proof. exact dynamic_module_rule. Qed.
Print Assumptions C17_alias_module_rule.

Theorem C17_submodule_import_no_member :
  forall m sub e hf,
  m_path m <> [] -> m_init m = true ->
  ae_has_parent e = true -> ae_parent_mod e = Some (m_path m) -> ae_child_mod e = Some (m_path m ++ [sub]) ->
  cyclic (m_path m) (m_path m ++ [sub]) = false -> hf = true ->
  visit_importfrom (m_path m) m (mkImp 1 [] sub None) = MNothing /\
  inspect_child (runtime_features (DImported SMod TModule)) e (m_path m) sub hf = MNothing.
Proof. exact submodule_import_no_member. Qed.
Print Assumptions C17_submodule_import_no_member.

(* the stated exception: an imported plain value is an attribute on the dynamic side, whatever its origin *)
Theorem C17_alias_value_exception :
  forall sc e cur name hf,
  inspect_child (runtime_features (DImported sc TValue)) e cur name hf =
  MObj GAttribute [if in_class sc then "class" else "module"].
Proof. exact dynamic_value_rule. Qed.
Print Assumptions C17_alias_value_exception.

(* ---- parameters, for every argument-list length (through C02_parameters_eq_cpython): the same list on both sides *)
Theorem C17_params_agree :
  forall a, wf a = true -> visitor_parameters a = Ok (inspector_parameters a).
Proof. exact params_agree. Qed.
Print Assumptions C17_params_agree.

Theorem C17_visitor_required_is_cpython :
  forall a, wf a = true ->
  exists vs, visitor_parameters a = Ok vs /\ map gp_required vs = map cpython_required (inspect_signature a).
Proof. exact visitor_required_is_cpython. Qed.
Print Assumptions C17_visitor_required_is_cpython.

Theorem C17_inspector_required_is_cpython :
  forall a, map gp_required (inspector_parameters a) = map cpython_required (inspect_signature a).
Proof. exact inspector_required_is_cpython. Qed.
Print Assumptions C17_inspector_required_is_cpython.

(* ---- docstrings: both agents hand the raw text to Docstring, which cleans it once *)
Theorem C17_docstring_agree :
  forall v, static_doc v = dynamic_doc v.
Proof. exact docstring_agree. Qed.
Print Assumptions C17_docstring_agree.

(* ---- which members the Inspector looks at (ObjectNode._pick_member) *)
Theorem C17_pick_member_spec :
  forall e, pick_member e = negb (mem_str (pk_name e) exclude_specials) && negb (pk_is_type e) && negb (pk_is_object e)
                            && negb (pk_is_ancestor e) && pk_in_vars e.
Proof. exact pick_member_spec. Qed.
Print Assumptions C17_pick_member_spec.

Theorem C17_pick_member_none_in_submodule :
  forall n k, pick_member (mkPick n false false false true k true) = negb (mem_str n exclude_specials).
Proof. exact pick_member_none_in_submodule. Qed.
Print Assumptions C17_pick_member_none_in_submodule.

(* ---- base classes.  For every class definition, in any nesting of class bodies inside a module, with any number of
   written bases `Name`, `Name[...]`, `root.attr[...]`: if every head is well bound (a class defined in an enclosing
   scope; a class imported through a re-export chain of any length that CPython executes; a name imported from outside
   the package, e.g. typing.Generic; a builtin) and class creation keeps the written bases (gap F8: `rewrites`), the
   Visitor's resolved base paths and the Inspector's are the same list (builtins without their module, object left
   out), and the Inspector's list is CPython's __bases__ without object. *)
Theorem C17_bases_agree :
  forall sc (bs : list (bexpr * bval)) rb,
  Forall (fun bv => well_bound sc (fst bv) (snd bv)) bs ->
  cpython_bases (map (fun bv => eval_base (fst bv) (snd bv)) bs) = Some rb ->
  rewrites (map (fun bv => eval_base (fst bv) (snd bv)) bs) = false ->
  norm_bases (static_bases sc (map fst bs)) = norm_bases (inspector_bases rb) /\
  inspector_bases rb = map join_dot (filter (fun p => negb (path_eqb p builtins_object)) rb).
Proof. exact bases_agree_well_bound. Qed.
Print Assumptions C17_bases_agree.

(* classes, C[...] of user generics, list[int], Protocol[T], and Generic[T] unless Protocol is a base or a generic
   alias follows it: class creation keeps the written bases, whatever the number of bases *)
Theorem C17_bases_kept_when_safe :
  forall vs, all_safe vs vs = true -> rewrites vs = false.
Proof. exact no_rewrite_when_safe. Qed.
Print Assumptions C17_bases_kept_when_safe.

(* F8 witnesses: `class L(List[int])`, `class K(Generic[T], G[T])` *)
Theorem C17_bases_refuted_typing_alias :
  let vs := [eval_base (BxSub (BxName "List")) (VTypingAlias ["typing"; "List"] ["builtins"; "list"])] in
  rewrites vs = true /\ cpython_bases vs = Some [["builtins"; "list"]; typing_generic].
Proof. exact rewrites_typing_alias. Qed.
Print Assumptions C17_bases_refuted_typing_alias.

Theorem C17_bases_refuted_generic_dropped :
  let vs := [eval_base (BxSub (BxName "Generic")) (VClass typing_generic true);
             eval_base (BxSub (BxName "G")) (VClass ["m"; "G"] true)] in
  rewrites vs = true /\ cpython_bases vs = Some [["m"; "G"]].
Proof. exact rewrites_generic_dropped. Qed.
Print Assumptions C17_bases_refuted_generic_dropped.

(* the path the Visitor stores for a base name, per kind of binding (Object.resolve as modelled by C04, then the
   aliases of the modules collection) *)
Theorem C17_base_path_of_name :
  forall sc b n, bhead b = BxName n -> no_own_name sc n = true ->
  static_base_path sc b =
  match find_frame sc n with
  | None => n
  | Some (SLocal, suffix) => (C04_scope.path_of (c04_chain suffix) ++ "." ++ n)%string
  | Some (SExt t, _) => join_dot t
  | Some (SChain c D q, _) =>
      match static_final c (D ++ [q]) with
      | Some f => join_dot f
      | None => match alias_target (SChain c D q) with Some t => join_dot t | None => ""%string end
      end
  end.
Proof. exact static_base_name. Qed.
Print Assumptions C17_base_path_of_name.

(* ... and that walk finds the binding CPython's scoping finds (C04's theorem, on the scopes of a class statement) *)
Theorem C17_base_name_is_python_binding :
  forall sc n,
  C04_scope.wf_chain (c04_chain sc) = true -> C04_scope.gap_class (c04_chain sc) n = false ->
  C04_scope.resolve (c04_chain sc) n = C04_scope.py_lookup (c04_chain sc) n.
Proof. exact base_name_python_binding. Qed.
Print Assumptions C17_base_name_is_python_binding.

(* ---- the trusted base stated once (Model/C17_pyobj.v: attribute access on a class / module, inspect.is*, callable,
   what each statement stores): the 14 observations tabulated per definition form are the derived ones ... *)
Theorem C17_observations_derived :
  forall d p, derived_features d p = runtime_features d p.
Proof. exact derived_is_table. Qed.
Print Assumptions C17_observations_derived.

(* ... so the kind theorem holds over the derived observations *)
Theorem C17_kind_agrees_derived :
  forall d e p cur name hf,
  is_import d = false ->
  ae_child_mod e = Some p -> ae_parent_mod e = Some p ->
  skeleton (inspect_child (derived_features d) e cur name hf) = skeleton (visitor_member d).
Proof. exact kind_agrees_derived. Qed.
Print Assumptions C17_kind_agrees_derived.

(* for EVERY vector of observations and every environment: the Inspector's member is a plain attribute iff the ladder
   ends on ATTRIBUTE *)
Theorem C17_plain_attribute_iff :
  forall f e cur name hf, skeleton (inspect_child f e cur name hf) = plain_skel <-> inspector_okind f = KAttribute.
Proof. exact child_plain_iff. Qed.
Print Assumptions C17_plain_attribute_iff.

(* NAME = <value>, any value of the object universe (nested wrappers included), any scope, any environment: the agents
   agree exactly when the value is plain; gap F9 is the negation *)
Theorem C17_assigned_agrees_iff :
  forall sc v e cur name hf,
  skeleton (inspector_xmember (XAssigned sc v) e cur name hf) = skeleton (visitor_xmember (XAssigned sc v))
  <-> gap_assigned (XAssigned sc v) = false.
Proof. exact assigned_agrees_iff. Qed.
Print Assumptions C17_assigned_agrees_iff.

Theorem C17_assigned_refuted :
  gap_assigned (XAssigned SMod (OFunction false)) = true /\
  gap_assigned (XAssigned SMod (OPartial (OFunction false))) = true /\
  gap_assigned (XAssigned SCls OClass) = true /\
  inspect_member (observe false (OFunction false)) = MObj GFunction [] /\
  visitor_xmember (XAssigned SMod (OFunction false)) = MObj GAttribute ["module-attribute"].
Proof. exact assigned_refuted. Qed.
Print Assumptions C17_assigned_refuted.

Theorem C17_annotated_bound_agrees :
  forall sc cv e cur name hf,
  skeleton (inspector_xmember (XAnnotated sc cv true) e cur name hf) = skeleton (visitor_xmember (XAnnotated sc cv true)).
Proof. exact annotated_bound_agrees. Qed.
Print Assumptions C17_annotated_bound_agrees.

(* NAME: ann without value: static-only; the stated exception "instance attributes" covers it exactly in a class body
   without ClassVar, otherwise it is gap F10 *)
Theorem C17_annotated_unbound :
  forall sc cv e cur name hf,
  inspector_xmember (XAnnotated sc cv false) e cur name hf = MNothing /\
  member_gkind (visitor_xmember (XAnnotated sc cv false)) = Some GAttribute /\
  (gap_unbound (XAnnotated sc cv false) = false <-> (in_class sc = true /\ cv = false)).
Proof. exact annotated_unbound. Qed.
Print Assumptions C17_annotated_unbound.

(* ---- `import a.b.c [as x]` in module M or in a class body of M: both agents record an alias to the bound module,
   unless it is M itself (F6) *)
Theorem C17_import_stmt_agrees :
  forall sc M cur name asname builtins hf,
  binds_ancestor M name asname = false ->
  cyclic M (import_bound name asname) = false ->
  import_bound name asname <> cur ++ [fst (visit_import name asname)] ->
  snd (inspect_import sc M cur name asname builtins hf) = snd (visit_import name asname) /\
  fst (inspect_import sc M cur name asname builtins hf) = fst (visit_import name asname).
Proof. exact import_stmt_agrees. Qed.
Print Assumptions C17_import_stmt_agrees.

Theorem C17_import_stmt_self :
  forall sc M cur name asname builtins hf,
  binds_ancestor M name asname = true ->
  snd (inspect_import sc M cur name asname builtins hf) = MNothing /\ snd (visit_import name asname) = MAlias M.
Proof. exact import_stmt_self. Qed.
Print Assumptions C17_import_stmt_self.

Theorem C17_import_stmt_refuted_self :
  exists sc M cur name asname builtins hf,
    snd (visit_import name asname) = MAlias ["pkg"] /\ snd (inspect_import sc M cur name asname builtins hf) = MNothing.
Proof. exact import_stmt_refuted_self. Qed.
Print Assumptions C17_import_stmt_refuted_self.

(* ---- wildcard imports: the names expand_wildcards brings are the names CPython binds, for every member list of the
   source module and every __all__ that CPython accepts ... *)
Theorem C17_wildcard_names_agree :
  forall all ms ns l,
  namespace_of ms ns -> cpython_star all ns = Some l ->
  forall n, In n (griffe_star all ms) <-> In n l.
Proof. exact star_names_agree. Qed.
Print Assumptions C17_wildcard_names_agree.

(* ... and for every module body (any interleaving of definitions and wildcard imports) each name is bound, in the
   loaded tree, by the statement whose binding survives at runtime *)
Theorem C17_wildcard_binder_agree :
  forall n body, griffe_binder n body = cpy_binder n 0 body None.
Proof. exact binder_agree. Qed.
Print Assumptions C17_wildcard_binder_agree.

(* ---- a name bound several times in one scope (imports, definitions, assignments, any number, any order): when the
   statements CPython does not execute are exactly the branch assignments the visitor skips (gap F12 otherwise), the
   binding the visitor keeps is the one that survives at runtime *)
Theorem C17_rebind_agree :
  forall l, gap_rebind l = false -> visit_all l = run_all l.
Proof. exact rebind_agree. Qed.
Print Assumptions C17_rebind_agree.

Theorem C17_rebind_refuted_type_checking :
  let l := [mkB BImport true false; mkB BAssign true true] in
  gap_rebind l = true /\ visit_all l = Some BImport /\ run_all l = Some BAssign.
Proof. exact rebind_refuted_type_checking. Qed.
Print Assumptions C17_rebind_refuted_type_checking.

(* ... with the places of the statements and the conditions themselves in the model (TYPE_CHECKING, its negation, version
   tests, except handlers): nothing about which branch runs is supplied from outside; the kept member is moreover a
   runtime one.  gap_cond is the exact, decidable F12 predicate *)
Theorem C17_rebind_cond_agree :
  forall l, gap_cond l = false ->
  option_map fst (visit_all_c l) = run_all (map lower l) /\
  (forall k g, visit_all_c l = Some (k, g) -> g = true).
Proof. exact rebind_cond_agree. Qed.
Print Assumptions C17_rebind_cond_agree.

Theorem C17_rebind_cond_refuted :
  gap_cond [mkC BImport (PThen CTypeChecking); mkC BAssign (PElse CTypeChecking)] = true /\
  visit_all_c [mkC BImport (PThen CTypeChecking); mkC BAssign (PElse CTypeChecking)] = Some (BImport, false) /\
  run_all (map lower [mkC BImport (PThen CTypeChecking); mkC BAssign (PElse CTypeChecking)]) = Some BAssign /\
  gap_cond [mkC BAssign (PThen CNotTypeChecking); mkC BImport (PElse CNotTypeChecking)] = true /\
  visit_all_c [mkC BAssign (PThen CNotTypeChecking); mkC BImport (PElse CNotTypeChecking)] = Some (BImport, false).
Proof. exact rebind_cond_refuted. Qed.
Print Assumptions C17_rebind_cond_refuted.

(* ---- read-only extension hooks.  ObjectNode.children is a cached property whose stored value is regenerated from
   runtime.py (children_impl).  For every object tree and every history of reads of node.children by extensions (from
   the hooks of the node or of any node above it, any number of times), the Inspector traverses the whole tree, the
   same as without extensions *)
Theorem C17_passive_hooks_invariant :
  forall hook path t,
  inspect_tree children_impl hook path t = inspect_tree children_impl no_hooks path t /\
  inspect_tree children_impl hook path t = t.
Proof. exact hooks_invariant. Qed.
Print Assumptions C17_passive_hooks_invariant.

(* every reader of a list-valued cache gets all the members; the traversal's visibility test is the cache model's *)
Theorem C17_children_reads :
  forall (members : list string) k,
  seen_after CList members k = members /\ seen_after CGenerator members (S k) = [] /\
  (forall impl, seen_after impl members k = if visible impl k then members else []).
Proof. intros members k. repeat split; [apply seen_after_clist|apply seen_after_generator|intros impl; apply visible_spec]. Qed.
Print Assumptions C17_children_reads.

Theorem C17_passive_hooks_refuted_generator :
  exists hook t, inspect_tree CGenerator no_hooks [] t = t /\ inspect_tree CGenerator hook [] t = ONode "pkg" [] /\ t <> ONode "pkg" [].
Proof. exact hooks_refuted_generator. Qed.
Print Assumptions C17_passive_hooks_refuted_generator.
