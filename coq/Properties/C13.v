(* C13 - Well-formed docstrings parse back to the structure that was written.  Statements only. *)
From Coq Require Import List Ascii String Bool Arith.
From Verif Require Import Model.C13_strings Model.C13_google Model.C13_google_spec Model.C13_sphinx Proofs.C13_strings Proofs.C13_google Proofs.C13_sphinx.
Import ListNotations.
Open Scope list_scope.
Open Scope nat_scope.

(* Google style, default options, any indentation >= 1, any parent: every list of free-text, item (Parameters, Other
   Parameters, Raises, Warns, Attributes, Functions, Classes, Modules, Returns, Yields, Receives, under every alias in the
   keyword table regenerated from the source, with or without section title) and admonition sections that satisfies the
   decidable predicate wf_secs parses back to exactly what was written: same kinds in written order, same titles, item
   names, annotations (written, else the parent's), default values and descriptions (multi-line, blank lines, deeper
   indentation preserved).  wf_secs carries no known-gap exclusion any more: findings C13-F1 and C13-F2 are repaired in the
   source and the model follows the repaired code (non-greedy type group; annotation reset per Attributes item). *)
Theorem C13_google_roundtrip : forall c ind secs, 1 <= ind -> wf_secs c secs = true ->
  parse_google default_opts c (render_google ind secs) = POk (expect_google c secs).
Proof. exact google_roundtrip. Qed.
Print Assumptions C13_google_roundtrip.

(* Section i of the parsed document equals what section i parses to when it is the whole docstring: nothing leaks across
   section boundaries. *)
Theorem C13_no_leak : forall c ind secs i s, 1 <= ind -> wf_secs c secs = true -> nth_error secs i = Some s ->
  exists parsed,
    parse_google default_opts c (render_google ind secs) = POk parsed /\
    nth_error parsed i = Some (expect_sec c s) /\
    parse_google default_opts c (render_google ind [s]) = POk [expect_sec c s].
Proof. exact google_no_leak. Qed.
Print Assumptions C13_no_leak.

(* Parameters / Other Parameters: an annotation omitted in the docstring is the parent signature's, the default value is
   always the parent signature's (Parameters.__getitem__ ignores leading stars). *)
Theorem C13_signature_fallback : forall c ind h t its k, (k = KParams \/ k = KOther) -> 1 <= ind ->
  wf_secs c [WItems k h t its] = true ->
  exists items,
    parse_google default_opts c (render_google ind [WItems k h t its]) = POk [GItems k t items] /\
    Forall2 (fun it p =>
               p_name p = Some (oapp (w_name it)) /\
               p_ann p = match w_ann it with Some a => Some a | None => parent_annotation c (oapp (w_name it)) end /\
               p_value p = parent_default c (oapp (w_name it))) its items.
Proof. exact google_signature_fallback_params. Qed.
Print Assumptions C13_signature_fallback.

(* Returns / Yields / Receives: an omitted annotation is _annotation_from_parent of the return annotation (generator
   slot by section kind, tuple element by item index when several items are documented). *)
Theorem C13_signature_fallback_returns : forall c ind h t its k, (k = KReturns \/ k = KYields \/ k = KReceives) -> 1 <= ind ->
  wf_secs c [WItems k h t its] = true ->
  exists items,
    parse_google default_opts c (render_google ind [WItems k h t its]) = POk [GItems k t items] /\
    forall i it, nth_error its i = Some it ->
      exists p, nth_error items i = Some p /\
        p_ann p = match w_ann it with
                  | Some a => Some a
                  | None => annotation_from_parent c (gen_index_of k) (negb (List.length its <=? 1)) i
                  end.
Proof. exact google_signature_fallback_returns. Qed.
Print Assumptions C13_signature_fallback_returns.

(* The witnesses of the repaired findings C13-F1 (a typed Returns item whose description contains "):") and C13-F2 (an
   Attributes item without type after a typed one, unknown to the parent) are well-formed and parse back as written. *)
Theorem C13_former_gaps_roundtrip :
  (wf_secs no_parent f1_witness = true /\ wf_secs f2_ctx f2_witness = true) /\
  parse_google default_opts no_parent (render_google 4 f1_witness) =
    POk [GText (s_of "Summary.");
         GItems KReturns None [mkItem (Some (s_of "x")) (Some (s_of "int")) (s_of "see f(a): b") None]] /\
  parse_google default_opts f2_ctx (render_google 4 f2_witness) =
    POk [GText (s_of "Summary.");
         GItems KAttrs None [mkItem (Some (s_of "a")) (Some (s_of "int")) (s_of "A.") None;
                             mkItem (Some (s_of "b")) None (s_of "B.") None]].
Proof. exact (conj former_gaps_wf google_former_gaps_roundtrip). Qed.
Print Assumptions C13_former_gaps_roundtrip.

(* Non-vacuity: a six-section document (aliases, title, blank lines, deeper indentation, stars, parent fallback for
   annotation, default and tuple elements, an admonition) satisfies wf_secs. *)
Theorem C13_wf_satisfiable : wf_secs sample_ctx sample_doc = true.
Proof. exact sample_wf. Qed.
Print Assumptions C13_wf_satisfiable.

(* Sphinx style, partial: for every free text followed by a field list of :param: (optional inline type), :var:, :raises: and
   :returns: fields (every field-name alias, any order, multi-line descriptions, distinct parameter / attribute names)
   parsing gives back the text and the items, grouped in Sphinx's fixed order text / parameters / attributes / returns /
   raises, written order kept inside each group, descriptions joined with single blanks, omitted annotations and
   defaults taken from the parent.  Missing for the full statement: separate :type: / :vartype: / :rtype: fields
   (finding C13-F8 shows the order dependence there), repeated names, blank lines inside descriptions. *)
Theorem C13_sphinx_roundtrip_partial : forall c ra text fields, wf_sphinx text fields = true ->
  parse_sphinx c ra (render_sphinx text fields) = expect_sphinx c ra text fields.
Proof. exact sphinx_roundtrip_partial. Qed.
Print Assumptions C13_sphinx_roundtrip_partial.

(* Finding C13-F8 in the model: `:type a: str` after `:param a:` loses against the signature's `int`; before it, it wins. *)
Theorem C13_sphinx_type_order_refuted_F8 :
  parse_sphinx f8_ctx true f8_lines =
    [GText (s_of "Summary."); GItems KParams None [mkItem (Some (s_of "a")) (Some (s_of "int")) (s_of "The a.") None]] /\
  parse_sphinx f8_ctx true f8_lines_swapped =
    [GText (s_of "Summary."); GItems KParams None [mkItem (Some (s_of "a")) (Some (s_of "str")) (s_of "The a.") None]].
Proof. exact sphinx_type_after_param_F8. Qed.
Print Assumptions C13_sphinx_type_order_refuted_F8.

Theorem C13_sphinx_wf_satisfiable : wf_sphinx sphinx_sample_text sphinx_sample = true.
Proof. exact sphinx_sample_wf. Qed.
Print Assumptions C13_sphinx_wf_satisfiable.
