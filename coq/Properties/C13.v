(* C13 - Well-formed docstrings parse back to the structure that was written.  Statements only. *)
From Coq Require Import List Ascii String Bool Arith.
From Verif Require Import Model.C13_strings Model.C13_google Model.C13_google_spec Model.C13_sphinx Model.C13_numpy Model.C13_numpy_spec
  Model.C13_sphinx_spec Model.C13_history
  Proofs.C13_strings Proofs.C13_google Proofs.C13_sphinx Proofs.C13_numpy Proofs.C13_sphinx_full Proofs.C13_history.
Import ListNotations.
Open Scope list_scope.
Open Scope nat_scope.

(* Google style, EVERY value of the item options (returns_multiple_items, returns_named_value, receives_multiple_items,
   receives_named_value), any indentation >= 1, any parent: every list of free-text, item (Parameters, Other Parameters,
   Raises, Warns, Attributes, Functions, Classes, Modules, Returns, Yields, Receives, under every alias in the keyword table
   regenerated from the source, with or without section title; Returns / Yields / Receives sections written the way the
   option values in force prescribe: WRet), Examples (prose and console chunks, doctest flags trimmed or kept as
   trim_doctest_flags says) and admonition sections, free text with fenced code blocks, that satisfies the decidable predicate wf_secs parses
   back to exactly what was written: same kinds in written order, same titles, item names, annotations (written, else the
   parent's), default values and descriptions (multi-line, blank lines, deeper indentation preserved; blank lines between
   items belong to no description).  wf_secs carries no known-gap exclusion: findings C13-F1, F2 and F9 are repaired in the
   source and the model follows the repaired code. *)
Theorem C13_google_roundtrip : forall o c ind secs, 1 <= ind -> wf_secs o c secs = true ->
  parse_google o c (render_google ind secs) = POk (expect_google c secs).
Proof. exact google_roundtrip. Qed.
Print Assumptions C13_google_roundtrip.

(* Section i of the parsed document equals what section i parses to when it is the whole docstring: nothing leaks across
   section boundaries. *)
Theorem C13_no_leak : forall o c ind secs i s, 1 <= ind -> wf_secs o c secs = true -> nth_error secs i = Some s ->
  exists parsed,
    parse_google o c (render_google ind secs) = POk parsed /\
    nth_error parsed i = Some (expect_sec c s) /\
    parse_google o c (render_google ind [s]) = POk [expect_sec c s].
Proof. exact google_no_leak. Qed.
Print Assumptions C13_no_leak.

(* Parameters / Other Parameters: an annotation omitted in the docstring is the parent signature's, the default value is
   always the parent signature's (Parameters.__getitem__ ignores leading stars). *)
Theorem C13_signature_fallback : forall o c ind h t its k, (k = KParams \/ k = KOther) -> 1 <= ind ->
  wf_secs o c [WItems k h t its] = true ->
  exists items,
    parse_google o c (render_google ind [WItems k h t its]) = POk [GItems k t items] /\
    Forall2 (fun it p =>
               p_name p = Some (oapp (w_name it)) /\
               p_ann p = match w_ann it with Some a => Some a | None => parent_annotation c (oapp (w_name it)) end /\
               p_value p = parent_default c (oapp (w_name it))) its items.
Proof. exact google_signature_fallback_params. Qed.
Print Assumptions C13_signature_fallback.

(* Returns / Yields / Receives: an omitted annotation is _annotation_from_parent of the return annotation (generator
   slot by section kind, tuple element by item index when several items are documented). *)
Theorem C13_signature_fallback_returns : forall o c ind h t its k, (k = KReturns \/ k = KYields \/ k = KReceives) -> 1 <= ind ->
  wf_secs o c [WItems k h t its] = true ->
  exists items,
    parse_google o c (render_google ind [WItems k h t its]) = POk [GItems k t items] /\
    forall i it, nth_error its i = Some it ->
      exists p, nth_error items i = Some p /\
        p_ann p = match w_ann it with
                  | Some a => Some a
                  | None => annotation_from_parent c (gen_index_of k) (negb (List.length its <=? 1)) i
                  end.
Proof. exact google_signature_fallback_returns. Qed.
Print Assumptions C13_signature_fallback_returns.

(* The same under any option values (sections written in the corresponding mode): the parent's tuple is split by the number
   of documented items, never by the value of *_multiple_items. *)
Theorem C13_signature_fallback_returns_modes : forall o c ind m n h t its k, (k = KReturns \/ k = KYields \/ k = KReceives) -> 1 <= ind ->
  wf_secs o c [WRet m n k h t its] = true ->
  exists items,
    parse_google o c (render_google ind [WRet m n k h t its]) = POk [GItems k t items] /\
    forall i it, nth_error its i = Some it ->
      exists p, nth_error items i = Some p /\
        p_ann p = match w_ann it with
                  | Some a => Some a
                  | None => annotation_from_parent c (gen_index_of k) (negb (List.length its <=? 1)) i
                  end.
Proof. exact google_signature_fallback_returns_modes. Qed.
Print Assumptions C13_signature_fallback_returns_modes.

(* Non-vacuity of the option modes, fences and Examples: a document with fenced code in its free text, single-item unnamed
   sections and an Examples section is well-formed under returns_multiple_items=False, returns_named_value=False. *)
Theorem C13_modes_wf_satisfiable : wf_secs modes_opts modes_ctx modes_doc = true.
Proof. exact modes_wf. Qed.
Print Assumptions C13_modes_wf_satisfiable.

(* The witnesses of the repaired findings C13-F1 (a typed Returns item whose description contains "):") and C13-F2 (an
   Attributes item without type after a typed one, unknown to the parent) are well-formed and parse back as written. *)
Theorem C13_former_gaps_roundtrip :
  (wf_secs default_opts no_parent f1_witness = true /\ wf_secs default_opts f2_ctx f2_witness = true) /\
  parse_google default_opts no_parent (render_google 4 f1_witness) =
    POk [GText (s_of "Summary.");
         GItems KReturns None [mkItem (Some (s_of "x")) (Some (s_of "int")) (s_of "see f(a): b") None]] /\
  parse_google default_opts f2_ctx (render_google 4 f2_witness) =
    POk [GText (s_of "Summary.");
         GItems KAttrs None [mkItem (Some (s_of "a")) (Some (s_of "int")) (s_of "A.") None;
                             mkItem (Some (s_of "b")) None (s_of "B.") None]].
Proof. exact (conj former_gaps_wf google_former_gaps_roundtrip). Qed.
Print Assumptions C13_former_gaps_roundtrip.

(* Non-vacuity: a six-section document (aliases, title, blank lines, deeper indentation, stars, parent fallback for
   annotation, default and tuple elements, an admonition) satisfies wf_secs. *)
Theorem C13_wf_satisfiable : wf_secs default_opts sample_ctx sample_doc = true.
Proof. exact sample_wf. Qed.
Print Assumptions C13_wf_satisfiable.

(* Sphinx style, partial: for every free text followed by a field list of :param: (optional inline type), :var:, :raises: and
   :returns: fields (every field-name alias, any order, multi-line descriptions, distinct parameter / attribute names)
   parsing gives back the text and the items, grouped in Sphinx's fixed order text / parameters / attributes / returns /
   raises, written order kept inside each group, descriptions joined with single blanks, omitted annotations and
   defaults taken from the parent.  Missing for the full statement: separate :type: / :vartype: / :rtype: fields
   (finding C13-F8 shows the order dependence there), repeated names, blank lines inside descriptions. *)
Theorem C13_sphinx_roundtrip_partial : forall c ra text fields, wf_sphinx text fields = true ->
  parse_sphinx c ra (render_sphinx text fields) = expect_sphinx c ra text fields.
Proof. exact sphinx_roundtrip_partial. Qed.
Print Assumptions C13_sphinx_roundtrip_partial.

(* Finding C13-F8 in the model: `:type a: str` after `:param a:` loses against the signature's `int`; before it, it wins. *)
Theorem C13_sphinx_type_order_refuted_F8 :
  parse_sphinx f8_ctx true f8_lines =
    [GText (s_of "Summary."); GItems KParams None [mkItem (Some (s_of "a")) (Some (s_of "int")) (s_of "The a.") None]] /\
  parse_sphinx f8_ctx true f8_lines_swapped =
    [GText (s_of "Summary."); GItems KParams None [mkItem (Some (s_of "a")) (Some (s_of "str")) (s_of "The a.") None]].
Proof. exact sphinx_type_after_param_F8. Qed.
Print Assumptions C13_sphinx_type_order_refuted_F8.

Theorem C13_sphinx_wf_satisfiable : wf_sphinx sphinx_sample_text sphinx_sample = true.
Proof. exact sphinx_sample_wf. Qed.
Print Assumptions C13_sphinx_wf_satisfiable.

(* Numpydoc style, default options, any parent: every docstring made of an optional leading free text and any list of item
   sections (Parameters, Other Parameters with several names per item, `, optional` and the three default spellings;
   Attributes; Functions / Classes / Modules; Raises / Warns; Returns / Yields / Receives in the `name : type`, `name :`,
   `: type`, `:` spellings) under every alias of the keyword table regenerated from numpy.py, admonitions and Deprecated
   sections, with multi-line / blank-line / deeper-indented descriptions (dash-only lines included) and blank lines between
   items, that satisfies the decidable predicate wf_nsecs parses back to exactly what was written: kinds in written order,
   names, annotations (written, else the parent's: per name for parameters, per tuple element for several Returns / Yields /
   Receives items), defaults, descriptions.  The one hypothesis besides well-formedness is the decidable complement of the
   known finding C13-F6 (a single Yields / Receives item without type whose parent part is a tuple).  Finding C13-F5 (the
   bare `name` spelling) is outside the written structure: render_numpy always writes `name :`. *)
Theorem C13_numpy_roundtrip_modulo_known : forall c secs, wf_nsecs c secs = true -> gap_F6 c secs = false ->
  parse_numpy n_default_opts c (render_numpy secs) = POk (expect_numpy c secs).
Proof. exact numpy_roundtrip. Qed.
Print Assumptions C13_numpy_roundtrip_modulo_known.

(* Numpy: section i of the parsed document is what section i parses to on its own. *)
Theorem C13_numpy_no_leak : forall c secs i s, wf_nsecs c secs = true -> gap_F6 c secs = false -> nth_error secs i = Some s ->
  exists parsed,
    parse_numpy n_default_opts c (render_numpy secs) = POk parsed /\
    nth_error parsed i = Some (n_expect_sec c s) /\
    parse_numpy n_default_opts c (render_numpy [s]) = POk [n_expect_sec c s].
Proof. exact numpy_no_leak. Qed.
Print Assumptions C13_numpy_no_leak.

(* Numpy Parameters / Other Parameters: every name of an item (names documented together included) gets the written type
   and default, else its OWN annotation and default from the parent signature (the C13-F10 repair). *)
Theorem C13_numpy_signature_fallback : forall c h its k, (k = KParams \/ k = KOther) ->
  wf_nsecs c [NItems k h its] = true ->
  parse_numpy n_default_opts c (render_numpy [NItems k h its]) = POk [GItems k None (flat_map (param_items c) its)].
Proof. exact numpy_signature_fallback_params. Qed.
Print Assumptions C13_numpy_signature_fallback.

(* Finding C13-F5 in the model: the documented "just the name" spelling of a Returns item comes back as its TYPE. *)
Theorem C13_numpy_bare_name_refuted_F5 :
  parse_numpy n_default_opts no_parent f5_lines =
  POk [GText (s_of "Summary.");
       GItems KReturns None [mkItem (Some []) (Some (s_of "success")) (s_of "Whether it succeeded.") None]].
Proof. exact numpy_bare_name_F5. Qed.
Print Assumptions C13_numpy_bare_name_refuted_F5.

(* Finding C13-F6 in the model: a well-formed document inside the gap predicate whose parse differs from what was written
   (the single Yields item gets `int`, the first element of the parent's tuple[int, str]). *)
Theorem C13_numpy_single_yield_refuted_F6 :
  wf_nsecs f6_ctx f6_doc = true /\ gap_F6 f6_ctx f6_doc = true /\
  parse_numpy n_default_opts f6_ctx (render_numpy f6_doc) =
    POk [GText (s_of "Summary."); GItems KYields None [mkItem (Some []) (Some (s_of "int")) (s_of "Both.") None]] /\
  expect_numpy f6_ctx f6_doc =
    [GText (s_of "Summary."); GItems KYields None [mkItem (Some []) (Some (s_of "tuple[int, str]")) (s_of "Both.") None]].
Proof. exact numpy_single_yield_F6. Qed.
Print Assumptions C13_numpy_single_yield_refuted_F6.

(* Non-vacuity of the Numpy theorem: a six-section document satisfies its hypotheses. *)
Theorem C13_numpy_wf_satisfiable : wf_nsecs n_sample_ctx n_sample_doc = true /\ gap_F6 n_sample_ctx n_sample_doc = false.
Proof. exact n_sample_wf. Qed.
Print Assumptions C13_numpy_wf_satisfiable.

(* Sphinx style, the full field list: free text, then any list, in any order, of :param: (optional inline type), :type:,
   :var:, :vartype:, :raises:, :returns:, :rtype: fields under every field-name alias, descriptions over several lines with
   blank lines inside and after them and deeper-indented lines, the same name documented as parameter and as attribute,
   repeated exception types.  If the field list is well-formed (each name once per kind, at most one type field per name,
   at most one :rtype:) and outside the decidable known gap C13-F8 (a :type: / :vartype: field AFTER its :param: / :var: field
   without inline type while the parent annotates the name), parsing gives back the text and the items grouped in Sphinx's
   fixed order text / parameters / attributes / returns / raises, written order kept inside each group, every description
   as its lines without indentation joined by single blanks, every annotation by the documented precedence inline type,
   then the type field wherever it stands, then the parent's.  Supersedes C13_sphinx_roundtrip_partial. *)
Theorem C13_sphinx_roundtrip_modulo_known : forall c ra text fields,
  wf_sphinx_full text fields = true -> gap_F8 c fields = false ->
  parse_sphinx c ra (render_sphinx_full text fields) = expect_sphinx_full c ra text fields.
Proof. exact sphinx_roundtrip_full. Qed.
Print Assumptions C13_sphinx_roundtrip_modulo_known.

(* Finding C13-F8 as an instance of the gap predicate: a well-formed field list inside gap_F8 (it renders to the F8 witness
   lines) whose parse differs from what was written. *)
Theorem C13_sphinx_type_after_param_refuted_F8 :
  wf_sphinx_full [s_of "Summary."] f8_fields = true /\ gap_F8 f8_ctx f8_fields = true /\
  render_sphinx_full [s_of "Summary."] f8_fields = f8_lines /\
  parse_sphinx f8_ctx true (render_sphinx_full [s_of "Summary."] f8_fields) <> expect_sphinx_full f8_ctx true [s_of "Summary."] f8_fields.
Proof. exact sphinx_F8_in_gap. Qed.
Print Assumptions C13_sphinx_type_after_param_refuted_F8.

(* Non-vacuity of the full Sphinx theorem: an eleven-field list with every field kind satisfies its hypotheses. *)
Theorem C13_sphinx_full_wf_satisfiable : wf_sphinx_full xsample_text xsample = true /\ gap_F8 xsample_ctx xsample = false.
Proof. exact xsample_wf. Qed.
Print Assumptions C13_sphinx_full_wf_satisfiable.

(* ---- histories: several Docstring objects whose configured options live in SHARED dictionaries (one per load), any sequence
   of parse(style, **options) / .parsed calls on any of them, assignments of a new options dictionary to a docstring and
   writes into a configured dictionary (Model/C13_history.v).  The configuration (every dictionary of the heap, every
   docstring's lines, parent, parser and reference to its dictionary) after a history is the configuration after its explicit
   writes alone: parse and parsed leave no trace. *)
Theorem C13_history_config_is_writes : forall ops st1 st2, config st1 = config st2 ->
  config (fst (hexec st1 ops)) = config (fst (hexec st2 (writes_only ops))).
Proof. exact history_config_is_writes. Qed.
Print Assumptions C13_history_config_is_writes.

(* parse never mutates configured options. *)
Theorem C13_parse_preserves_options : forall st ops, read_only ops = true -> config (fst (hexec st ops)) = config st.
Proof. exact parse_preserves_options. Qed.
Print Assumptions C13_parse_preserves_options.

(* After ANY history a parse call returns what it returns on docstrings that only saw the explicit writes of that history:
   the result is parse_pure of the current lines, the style given or configured, and the per-call options or else the
   current content of the dictionary the docstring refers to. *)
Theorem C13_history_parse_is_pure : forall st ops i s o,
  snd (hstep (fst (hexec st ops)) (HParse i s o)) = snd (hstep (fst (hexec st (writes_only ops))) (HParse i s o)).
Proof. exact history_parse_is_pure. Qed.
Print Assumptions C13_history_parse_is_pure.

(* The round-trip theorems hold after any history of parse / parsed calls (any docstrings, any per-call options, shared
   dictionaries): well-formedness is judged under the options in force for THIS call. *)
Theorem C13_google_roundtrip_after_history : forall st ops i d o ind secs, read_only ops = true ->
  nth_error (hs_docs st) i = Some d -> 1 <= ind -> hd_lines d = render_google ind secs ->
  wf_secs (resolve_g (in_force (hs_heap st) d o)) (hp_ctx (hd_parent d)) secs = true ->
  snd (hstep (fst (hexec st ops)) (HParse i (Some HGoogle) o)) = ObsRes (HG (POk (expect_google (hp_ctx (hd_parent d)) secs))).
Proof. exact google_roundtrip_after_history. Qed.
Print Assumptions C13_google_roundtrip_after_history.

Theorem C13_numpy_roundtrip_after_history : forall st ops i d o secs, read_only ops = true ->
  nth_error (hs_docs st) i = Some d -> hd_lines d = render_numpy secs ->
  resolve_n (hp_is_init (hd_parent d)) (in_force (hs_heap st) d o) = n_default_opts ->
  wf_nsecs (hp_ctx (hd_parent d)) secs = true -> gap_F6 (hp_ctx (hd_parent d)) secs = false ->
  snd (hstep (fst (hexec st ops)) (HParse i (Some HNumpy) o)) = ObsRes (HN (POk (expect_numpy (hp_ctx (hd_parent d)) secs))).
Proof. exact numpy_roundtrip_after_history. Qed.
Print Assumptions C13_numpy_roundtrip_after_history.

Theorem C13_sphinx_roundtrip_after_history : forall st ops i d o text fields, read_only ops = true ->
  nth_error (hs_docs st) i = Some d -> hd_lines d = render_sphinx_full text fields ->
  wf_sphinx_full text fields = true -> gap_F8 (hp_ctx (hd_parent d)) fields = false ->
  snd (hstep (fst (hexec st ops)) (HParse i (Some HSphinx) o)) =
  ObsRes (HS (expect_sphinx_full (hp_ctx (hd_parent d)) (hp_ret_attr (hd_parent d)) text fields)).
Proof. exact sphinx_roundtrip_after_history. Qed.
Print Assumptions C13_sphinx_roundtrip_after_history.

(* `parsed` is computed once (documented caching): after its first read no history changes what it returns. *)
Theorem C13_history_parsed_cached : forall ops st i d r, nth_error (hs_docs st) i = Some d -> hd_parsed d = Some r ->
  snd (hstep (fst (hexec st ops)) (HReadParsed i)) = ObsRes r.
Proof. exact history_parsed_cached. Qed.
Print Assumptions C13_history_parsed_cached.

(* The value of a docstring can be assigned at any time: `lines` gives the lines of the CURRENT value after any history ... *)
Theorem C13_history_lines_current : forall st ops i,
  snd (hstep (fst (hexec st ops)) (HReadLines i)) = snd (hstep (fst (hexec st (writes_only ops))) (HReadLines i)).
Proof. exact history_lines_current. Qed.
Print Assumptions C13_history_lines_current.

(* ... and after an assignment, whatever was parsed or read before, `lines` gives the new lines and parse parses them. *)
Theorem C13_value_assignment_takes_effect : forall st ops i d ls s o, read_only ops = true ->
  nth_error (hs_docs st) i = Some d ->
  let st' := fst (hstep (fst (hexec st ops)) (HSetValue i ls)) in
  snd (hstep st' (HReadLines i)) = ObsLines ls /\
  snd (hstep st' (HParse i s o)) = ObsRes (parse_pure (hd_parent d) ls (pick_hstyle s (hd_parser d)) (in_force (hs_heap st) d o)).
Proof. exact value_assignment_takes_effect. Qed.
Print Assumptions C13_value_assignment_takes_effect.

(* Non-vacuity / aliasing: two docstrings share dictionary 0, a third has its own.  Per-call options on one docstring leave the
   others alone; a write into the shared dictionary is seen by both sharers only; a new dictionary assigned to one is not
   seen by the other. *)
Theorem C13_history_aliasing_example :
  snd (hexec hx_state [HParse 0 None [(ORetNamed, false)]; HParse 1 None []; HParse 0 None [];
                       HMutate 0 ORetNamed false; HParse 0 None []; HParse 1 None []; HParse 2 None [];
                       HSetOptions 0 []; HParse 0 None []; HParse 1 None []]) =
  [ObsRes hx_unnamed; ObsRes hx_named; ObsRes hx_named;
   ObsNone; ObsRes hx_unnamed; ObsRes hx_unnamed; ObsRes hx_named;
   ObsNone; ObsRes hx_named; ObsRes hx_unnamed].
Proof. exact history_aliasing. Qed.
Print Assumptions C13_history_aliasing_example.
