(* C11 — API diff: silent on compatible change, reports every public removal / re-kinding.  Property theorems only.
   (Model of the code after the repairs of findings C11-F1, F2, F3: no known-gap hypothesis is left.)
   Stores are arbitrary graphs of objects (modules, classes, functions, attributes, aliases with resolved / unresolvable /
   cyclic targets); fbc is the model of find_breaking_changes with its seen_paths guard; breakages l is what it reports. *)
From Coq Require Import List Arith Bool String.
From Verif Require Import Lib.Sexp Model.C10_kinds Gen.C10_tables Model.C10_diff Model.C11_apidiff Proofs.C11_apidiff Model.C11_elab Proofs.C11_elab Model.C11_dispatch Proofs.C11_ladder.
From Verif Require Model.C07_mro.
Import ListNotations.
Open Scope string_scope. Open Scope list_scope. Open Scope nat_scope.

(* a package compared with an identical copy of itself reports nothing *)
Theorem C11_self_silent : forall g, wf_store g = true ->
  forall fuel r s l, fbc g g fuel r r = Ok s l -> breakages g g l = [].
Proof. exact self_silent. Qed.
Print Assumptions C11_self_silent.

(* compatible edits: on a set U of old objects closed under public members and alias targets the new store may add members
   anywhere, add parameters that leave fdiff_m (C10's parameter rules of the code under test) empty, add a return annotation, add bases; everything outside U may change *)
Theorem C11_compatible_edits_silent : forall go gn (U : nat -> Prop),
  (forall i oi nj, U i -> get go i = Some oi -> get gn i = Some nj -> ext_node oi nj /\ ext_members go oi nj) ->
  (forall i oi n m mo, U i -> get go i = Some oi -> In (n, m) (all_members oi) -> get go m = Some mo ->
     is_public oi mo = true -> U m) ->
  (forall i oi t, U i -> get go i = Some oi -> nbody oi = BAlias (TRes t) -> U t) ->
  forall fuel r s l, U r -> fbc go gn fuel r r = Ok s l -> breakages go gn l = [].
Proof. exact extension_silent. Qed.
Print Assumptions C11_compatible_edits_silent.

(* ... in particular optional keyword-only parameters inserted after the positional ones *)
Theorem C11_added_optional_kwonly_silent : forall s1 extra s2,
  nodup_names (s1 ++ s2) = true ->
  (forall p, In p s2 -> is_pos (pkind p) = false) ->
  (forall p, In p extra -> pkind p = KO /\ required p = false /\ find (pname p) (s1 ++ s2) = None) ->
  fdiff_m (s1 ++ s2) (s1 ++ extra ++ s2) = [].
Proof. exact fdiff_add_optional_kwonly. Qed.
Print Assumptions C11_added_optional_kwonly_silent.

(* ... and arbitrary changes to objects that are not publicly reachable *)
Theorem C11_private_changes_silent : forall go gn (U : nat -> Prop),
  wf_store go = true ->
  (forall i, U i -> get gn i = get go i) ->
  (forall i oi n m mo, U i -> get go i = Some oi -> In (n, m) (all_members oi) -> get go m = Some mo ->
     is_public oi mo = true -> U m) ->
  (forall i oi t, U i -> get go i = Some oi -> nbody oi = BAlias (TRes t) -> U t) ->
  forall fuel r s l, U r -> fbc go gn fuel r r = Ok s l -> breakages go gn l = [].
Proof. exact private_changes_silent. Qed.
Print Assumptions C11_private_changes_silent.

(* private / imported-but-not-exported objects are never reported: every reported object is the counterpart of an old object
   reachable from the root through public members and alias targets; a removed object is a public member of such an object *)
Theorem C11_private_never_reported : forall go gn fuel ri rj s l b,
  fbc go gn fuel ri rj = Ok s l -> In b (breakages go gn l) ->
  (is_removal b = false /\ exists i, PubReach go gn ri rj i (brk_obj b)) \/
  (is_removal b = true /\ exists i j oi n mo, PubReach go gn ri rj i j /\ get go i = Some oi /\
      In (n, brk_obj b) (all_members oi) /\ get go (brk_obj b) = Some mo /\ is_public oi mo = true).
Proof. exact private_never_reported. Qed.
Print Assumptions C11_private_never_reported.

(* completeness: removing a public member of the root or of a visited container is reported ... *)
Theorem C11_public_removal_reported : forall go gn ri rj fuel s l,
  fbc go gn fuel ri rj = Ok s l ->
  forall c j oi nj n m mo, Scanned go gn ri rj c j -> get go c = Some oi -> get gn j = Some nj ->
  In (n, m) (all_members oi) -> get go m = Some mo -> is_public oi mo = true -> lookup n (all_members nj) = None ->
  In (BRemoved m) (breakages go gn l).
Proof. exact public_removal_reported. Qed.
Print Assumptions C11_public_removal_reported.

(* ... a visited pair of objects of different kinds is reported (Visit: reached from the roots through public members of
   same-kind containers and through resolvable alias targets -- also through re-exports and inherited members) ... *)
Theorem C11_rekinding_reported : forall go gn ri rj fuel s l,
  fbc go gn fuel ri rj = Ok s l ->
  forall c j oi nj, Visit go gn ri rj c j -> get go c = Some oi -> get gn j = Some nj ->
  is_alias oi = false -> is_alias nj = false -> kind_of oi <> kind_of nj ->
  In (BKind j) (breakages go gn l).
Proof. exact rekinding_reported. Qed.
Print Assumptions C11_rekinding_reported.

(* ... a visited class that lost a base is reported ... *)
Theorem C11_base_removed_reported : forall go gn ri rj fuel s l,
  fbc go gn fuel ri rj = Ok s l ->
  forall c j oi nj im ob inh ms im' nb inh' ms',
  Visit go gn ri rj c j -> get go c = Some oi -> get gn j = Some nj ->
  nbody oi = BClass im ob inh ms -> nbody nj = BClass im' nb inh' ms' -> List.length nb < List.length ob ->
  In (BBase j) (breakages go gn l).
Proof. exact base_removed_reported. Qed.
Print Assumptions C11_base_removed_reported.

(* ... a visited attribute whose value changed is reported ... *)
Theorem C11_value_changed_reported : forall go gn ri rj fuel s l,
  fbc go gn fuel ri rj = Ok s l ->
  forall c j oi nj ov nv, Visit go gn ri rj c j -> get go c = Some oi -> get gn j = Some nj ->
  nbody oi = BAttribute ov -> nbody nj = BAttribute nv -> ov <> nv ->
  In (BValue j) (breakages go gn l).
Proof. exact value_changed_reported. Qed.
Print Assumptions C11_value_changed_reported.

(* ... and so is every parameter breakage C10's fdiff_m (table rules + the regenerated old-side collision rule) finds on a visited function pair *)
Theorem C11_parameter_breakage_reported : forall go gn ri rj fuel s l,
  fbc go gn fuel ri rj = Ok s l ->
  forall c j oi nj os oret ns nret p, Visit go gn ri rj c j -> get go c = Some oi -> get gn j = Some nj ->
  nbody oi = BFunction os oret -> nbody nj = BFunction ns nret -> In p (fdiff_m os ns) ->
  In (BParam j p) (breakages go gn l).
Proof. exact parameter_breakage_reported. Qed.
Print Assumptions C11_parameter_breakage_reported.

(* every pair that must be visited is examined exactly as the code examines it (the log is what breakages are computed from) *)
Theorem C11_visited_pairs_examined : forall go gn ri rj fuel s l,
  fbc go gn fuel ri rj = Ok s l -> forall i j, Visit go gn ri rj i j -> In (EHead i j) l.
Proof. exact visit_logged. Qed.
Print Assumptions C11_visited_pairs_examined.

(* unresolvable and cyclic re-exports are skipped, never raised, and the seen_paths guard makes the comparison terminate:
   on well-formed stores -- whatever the alias targets -- it completes with fuel = |old| * |new| + 1 (what the extracted model passes) *)
Theorem C11_terminates_never_raises : forall go gn, wf_store go = true -> wf_store gn = true ->
  forall fuel ri rj, ri < List.length go -> rj < List.length gn -> List.length go * List.length gn < fuel ->
  exists s l, fbc go gn fuel ri rj = Ok s l.
Proof. exact fbc_total. Qed.
Print Assumptions C11_terminates_never_raises.

(* the command-line check exits 0 exactly when the comparison completed and reported nothing *)
Theorem C11_exit_code_iff : forall go gn r,
  check_exit go gn r = 0 <-> exists s l, r = Ok s l /\ breakages go gn l = [].
Proof. exact exit_code_iff. Qed.
Print Assumptions C11_exit_code_iff.

(* is_public is the ladder its docstring words, rule by rule (an empty __all__ included) *)
Theorem C11_is_public_matches_doc : forall p m, is_public p m = is_public_doc p m.
Proof. exact is_public_matches_doc. Qed.
Print Assumptions C11_is_public_matches_doc.

(* ======== elaboration layer (Model/C11_elab.v): alias targets, resolved bases, MRO and inherited members are computed inside
   Coq from the declared structure (raw stores); [elab r] is the store the comparison runs on.
   provider r c n = CPython's lookup of n on class c: the declared member, else the member of the first class along the MRO
   (C07's model of Class.mro()) that declares n.  view r c cn n = the member the elaborated class shows under n. ======== *)

(* the inherited view is CPython's lookup: the member shown under n is the provider itself (declared) or one fresh alias
   (appended node, public = None) whose target is the provider -- the nearest definition along the MRO, never a more distant one *)
Theorem C11_inherited_view_is_mro_lookup : forall r c cn n o, rclass_of r c cn -> provider r c n = Some o ->
  exists j, view r c cn n = Some j /\
            (j = o \/ (lookup n (rmembers cn) = None /\ List.length (rnodes r) <= j /\
                       get (elab r) j = Some (mkNode n None (BAlias (TRes o))))).
Proof. exact view_is_provider. Qed.
Print Assumptions C11_inherited_view_is_mro_lookup.

(* ... and a name nothing provides (or an uncomputable MRO) shows no member at all *)
Theorem C11_inherited_view_none : forall r c cn n, rclass_of r c cn -> provider r c n = None -> view r c cn n = None.
Proof. exact view_none. Qed.
Print Assumptions C11_inherited_view_none.

(* at any depth: when a pair of classes is compared, the comparison reaches the definitions that CPython's lookup provides
   for every name whose view on the old class is public -- whether declared or inherited on either side *)
Theorem C11_visit_through_inheritance : forall ro rn ri rj c c' cn cn' n o o' on on',
  Visit (elab ro) (elab rn) ri rj c c' -> rclass_of ro c cn -> rclass_of rn c' cn' ->
  provider ro c n = Some o -> provider rn c' n = Some o' ->
  rget ro o = Some on -> r_is_alias on = false -> rget rn o' = Some on' -> r_is_alias on' = false ->
  (forall j mo, view ro c cn n = Some j -> get (elab ro) j = Some mo -> is_public (elab_node ro (inhs ro) c cn) mo = true) ->
  Visit (elab ro) (elab rn) ri rj o o'.
Proof. exact visit_through_inheritance. Qed.
Print Assumptions C11_visit_through_inheritance.

(* the alias made for an inherited name is public unless the name is private or imported into the class *)
Theorem C11_inherited_alias_public : forall r ll c cn n o, r_is_class cn = true ->
  is_private n = false -> smem n (imports_of (elab_node r ll c cn)) = false ->
  is_public (elab_node r ll c cn) (mkNode n None (BAlias (TRes o))) = true.
Proof. exact inherited_alias_public. Qed.
Print Assumptions C11_inherited_alias_public.

(* one-step re-exports: the comparison follows a visited alias to the object its target path names in the modules collection *)
Theorem C11_visit_through_reexport : forall ro rn ri rj a a' an an' p p' t t' tn tn',
  Visit (elab ro) (elab rn) ri rj a a' ->
  rget ro a = Some an -> rbody_of an = RAlias p -> walk ro p = WOk t -> rget ro t = Some tn -> r_is_alias tn = false ->
  rget rn a' = Some an' -> rbody_of an' = RAlias p' -> walk rn p' = WOk t' -> rget rn t' = Some tn' -> r_is_alias tn' = false ->
  Visit (elab ro) (elab rn) ri rj t t'.
Proof. exact visit_through_reexport. Qed.
Print Assumptions C11_visit_through_reexport.

Theorem C11_visit_reexport_vs_object : forall ro rn ri rj a a' an an' p t tn,
  Visit (elab ro) (elab rn) ri rj a a' ->
  rget ro a = Some an -> rbody_of an = RAlias p -> walk ro p = WOk t -> rget ro t = Some tn -> r_is_alias tn = false ->
  rget rn a' = Some an' -> r_is_alias an' = false ->
  Visit (elab ro) (elab rn) ri rj t a'.
Proof. exact visit_reexport_vs_object. Qed.
Print Assumptions C11_visit_reexport_vs_object.

(* every local incompatibility (kind, value, parameters, bases, return) between the definitions CPython's lookup provides
   for a public name of a compared class is reported -- also when the old or the new definition sits in a private
   intermediate base class *)
Theorem C11_inherited_change_reported : forall ro rn ri rj fuel s l,
  fbc (elab ro) (elab rn) fuel ri rj = Ok s l ->
  forall c c' cn cn' n o o' on on' b,
  Visit (elab ro) (elab rn) ri rj c c' -> rclass_of ro c cn -> rclass_of rn c' cn' ->
  provider ro c n = Some o -> provider rn c' n = Some o' ->
  rget ro o = Some on -> r_is_alias on = false -> rget rn o' = Some on' -> r_is_alias on' = false ->
  (forall j mo, view ro c cn n = Some j -> get (elab ro) j = Some mo -> is_public (elab_node ro (inhs ro) c cn) mo = true) ->
  In b (local (elab ro) (elab rn) (EHead o o')) -> In b (breakages (elab ro) (elab rn) l).
Proof. exact inherited_change_reported. Qed.
Print Assumptions C11_inherited_change_reported.

Theorem C11_inherited_rekinding_reported : forall ro rn ri rj fuel s l,
  fbc (elab ro) (elab rn) fuel ri rj = Ok s l ->
  forall c c' cn cn' n o o' on on',
  Visit (elab ro) (elab rn) ri rj c c' -> rclass_of ro c cn -> rclass_of rn c' cn' ->
  provider ro c n = Some o -> provider rn c' n = Some o' ->
  rget ro o = Some on -> r_is_alias on = false -> rget rn o' = Some on' -> r_is_alias on' = false ->
  (forall j mo, view ro c cn n = Some j -> get (elab ro) j = Some mo -> is_public (elab_node ro (inhs ro) c cn) mo = true) ->
  rkind on <> rkind on' -> In (BKind o') (breakages (elab ro) (elab rn) l).
Proof. exact inherited_rekinding_reported. Qed.
Print Assumptions C11_inherited_rekinding_reported.

(* a public name CPython's lookup finds on the old class and no longer on the new one is reported as removed (on the class's own path) *)
Theorem C11_inherited_removal_reported : forall ro rn ri rj fuel s l,
  fbc (elab ro) (elab rn) fuel ri rj = Ok s l ->
  forall c c' cn cn' n o on,
  Visit (elab ro) (elab rn) ri rj c c' -> rclass_of ro c cn -> rclass_of rn c' cn' ->
  provider ro c n = Some o -> rget ro o = Some on -> provider rn c' n = None ->
  (forall j mo, view ro c cn n = Some j -> get (elab ro) j = Some mo -> is_public (elab_node ro (inhs ro) c cn) mo = true) ->
  exists j, view ro c cn n = Some j /\ In (BRemoved j) (breakages (elab ro) (elab rn) l).
Proof. exact inherited_removal_reported. Qed.
Print Assumptions C11_inherited_removal_reported.

(* ======== tie to the code: the definitions regenerated from mixins.py / diff.py on every run (Gen/C11_ladder.v) ======== *)

(* is_public (all theorems above use it) IS the regenerated ladder applied to the facts of (parent, member); spelled out: *)
Theorem C11_is_public_is_generated_ladder : forall p m, is_public p m = is_public_gen (facts_of p m).
Proof. reflexivity. Qed.
Print Assumptions C11_is_public_is_generated_ladder.

Theorem C11_generated_ladder_reads : forall x,
  is_public_gen x =
  if f_public_set x then f_public_val x
  else if negb (f_is_alias x) && f_is_module x && negb (starts_with "_" (f_name x)) then true
  else if f_has_parent x && f_parent_is_module x && f_parent_has_exports x then f_in_parent_exports x
  else if starts_with "_" (f_name x) && negb (starts_with "__" (f_name x) && ends_with "__" (f_name x)) then false
  else if f_has_parent x && f_in_parent_imports x then false
  else true.
Proof. exact is_public_gen_spec. Qed.
Print Assumptions C11_generated_ladder_reads.

(* the regenerated if/elif chain of _type_based_yield: alias first, then kind change, then by kind *)
Theorem C11_generated_dispatch_reads : forall a b kd k,
  dispatch_gen a b kd k =
  if a || b then AAlias else if kd then AKindChanged
  else match k with KModule => AMembers | KClass => AClass | KFunction => AFunction | KAttribute => AAttribute | KAlias => ANothing end.
Proof. exact dispatch_gen_spec. Qed.
Print Assumptions C11_generated_dispatch_reads.

(* the traversal written around the regenerated definitions (what the harness extracts and runs against the implementation)
   computes the model all theorems above are about: same log, same breakages, same exit code, for every pair of stores *)
Theorem C11_generated_traversal_is_model : forall go gn fuel ri rj,
  fbc_g go gn fuel ri rj = fbc go gn fuel ri rj /\
  (forall l, breakages_g go gn l = breakages go gn l) /\ (forall r, check_exit_g go gn r = check_exit go gn r).
Proof. intros. split; [apply fbc_agree|]. split; [apply breakages_agree|apply check_exit_agree]. Qed.
Print Assumptions C11_generated_traversal_is_model.

(* ======== the elaborated pipeline as a whole ======== *)

(* elaborating a well-formed raw store (what the harness abstraction of a loaded collection guarantees, checked per case) gives a
   well-formed store: all theorems stated for well-formed stores apply to what the elaboration computes *)
Theorem C11_elab_well_formed : forall r, rwf r = true -> wf_store (elab r) = true.
Proof. exact elab_wf. Qed.
Print Assumptions C11_elab_well_formed.

(* unresolvable / cyclic re-exports (missing names, a -> b -> a, chains ending nowhere: now *computed* from the target paths)
   are skipped, never raised, and nothing loops: elaboration + comparison complete with the fuel the extracted model passes *)
Theorem C11_elab_comparison_total : forall ro rn, rwf ro = true -> rwf rn = true ->
  forall ri rj, ri < List.length (rnodes ro) -> rj < List.length (rnodes rn) ->
  exists s l, fbc (elab ro) (elab rn) (default_fuel (elab ro) (elab rn)) ri rj = Ok s l.
Proof. exact elab_comparison_total. Qed.
Print Assumptions C11_elab_comparison_total.

Theorem C11_elab_self_silent : forall r, rwf r = true ->
  forall fuel ri s l, fbc (elab r) (elab r) fuel ri ri = Ok s l -> breakages (elab r) (elab r) l = [].
Proof. exact elab_self_silent. Qed.
Print Assumptions C11_elab_self_silent.

(* Alias.target's chain walk (resolve_target / _resolve_target with the _passed_through flags) ends within #nodes links: any
   larger fuel gives the same outcome, so the out-of-fuel answer of the model is never observed *)
Theorem C11_alias_target_fuel_irrelevant : forall r i f, List.length (rnodes r) < f -> chase r f [] i = outcome r i.
Proof. exact outcome_fuel_irrelevant. Qed.
Print Assumptions C11_alias_target_fuel_irrelevant.

(* no Visit hypothesis left: a public class of the root module is compared with its namesake, and for every name whose view on it
   is public, every local incompatibility between the definitions CPython's lookup provides -- at any depth of the hierarchy, in
   public or private base classes -- is reported *)
Theorem C11_root_class_inherited_change_reported : forall ro rn ri rj fuel s l,
  fbc (elab ro) (elab rn) fuel ri rj = Ok s l ->
  forall rmo rmn e im ms e' im' ms' cname c c' cn cn' n o o' on on' b,
  rget ro ri = Some rmo -> rbody_of rmo = RModule e im ms -> rget rn rj = Some rmn -> rbody_of rmn = RModule e' im' ms' ->
  lookup cname ms = Some c -> lookup cname ms' = Some c' -> rclass_of ro c cn -> rclass_of rn c' cn' ->
  is_public (elab_node ro (inhs ro) ri rmo) (elab_node ro (inhs ro) c cn) = true ->
  provider ro c n = Some o -> provider rn c' n = Some o' ->
  rget ro o = Some on -> r_is_alias on = false -> rget rn o' = Some on' -> r_is_alias on' = false ->
  (forall j mo, view ro c cn n = Some j -> get (elab ro) j = Some mo -> is_public (elab_node ro (inhs ro) c cn) mo = true) ->
  In b (local (elab ro) (elab rn) (EHead o o')) -> In b (breakages (elab ro) (elab rn) l).
Proof. exact root_class_change_reported. Qed.
Print Assumptions C11_root_class_inherited_change_reported.
