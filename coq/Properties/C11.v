(* C11 — API diff: silent on compatible change, reports every public removal / re-kinding.  Property theorems only.
   (Model of the code after the repairs of findings C11-F1, F2, F3: no known-gap hypothesis is left.)
   Stores are arbitrary graphs of objects (modules, classes, functions, attributes, aliases with resolved / unresolvable /
   cyclic targets); fbc is the model of find_breaking_changes with its seen_paths guard; breakages l is what it reports. *)
From Coq Require Import List Arith Bool String.
From Verif Require Import Lib.Sexp Model.C10_kinds Gen.C10_tables Model.C10_diff Model.C11_apidiff Proofs.C11_apidiff.
Import ListNotations.
Open Scope string_scope. Open Scope list_scope. Open Scope nat_scope.

(* a package compared with an identical copy of itself reports nothing *)
Theorem C11_self_silent : forall g, wf_store g = true ->
  forall fuel r s l, fbc g g fuel r r = Ok s l -> breakages g g l = [].
Proof. exact self_silent. Qed.
Print Assumptions C11_self_silent.

(* compatible edits: on a set U of old objects closed under public members and alias targets the new store may add members
   anywhere, add parameters that leave fdiff empty, add a return annotation, add bases; everything outside U may change *)
Theorem C11_compatible_edits_silent : forall go gn (U : nat -> Prop),
  (forall i oi nj, U i -> get go i = Some oi -> get gn i = Some nj -> ext_node oi nj /\ ext_members go oi nj) ->
  (forall i oi n m mo, U i -> get go i = Some oi -> In (n, m) (all_members oi) -> get go m = Some mo ->
     is_public oi mo = true -> U m) ->
  (forall i oi t, U i -> get go i = Some oi -> nbody oi = BAlias (TRes t) -> U t) ->
  forall fuel r s l, U r -> fbc go gn fuel r r = Ok s l -> breakages go gn l = [].
Proof. exact extension_silent. Qed.
Print Assumptions C11_compatible_edits_silent.

(* ... in particular optional keyword-only parameters inserted after the positional ones *)
Theorem C11_added_optional_kwonly_silent : forall s1 extra s2,
  nodup_names (s1 ++ s2) = true ->
  (forall p, In p s2 -> is_pos (pkind p) = false) ->
  (forall p, In p extra -> pkind p = KO /\ required p = false /\ find (pname p) (s1 ++ s2) = None) ->
  fdiff (s1 ++ s2) (s1 ++ extra ++ s2) = [].
Proof. exact fdiff_add_optional_kwonly. Qed.
Print Assumptions C11_added_optional_kwonly_silent.

(* ... and arbitrary changes to objects that are not publicly reachable *)
Theorem C11_private_changes_silent : forall go gn (U : nat -> Prop),
  wf_store go = true ->
  (forall i, U i -> get gn i = get go i) ->
  (forall i oi n m mo, U i -> get go i = Some oi -> In (n, m) (all_members oi) -> get go m = Some mo ->
     is_public oi mo = true -> U m) ->
  (forall i oi t, U i -> get go i = Some oi -> nbody oi = BAlias (TRes t) -> U t) ->
  forall fuel r s l, U r -> fbc go gn fuel r r = Ok s l -> breakages go gn l = [].
Proof. exact private_changes_silent. Qed.
Print Assumptions C11_private_changes_silent.

(* private / imported-but-not-exported objects are never reported: every reported object is the counterpart of an old object
   reachable from the root through public members and alias targets; a removed object is a public member of such an object *)
Theorem C11_private_never_reported : forall go gn fuel ri rj s l b,
  fbc go gn fuel ri rj = Ok s l -> In b (breakages go gn l) ->
  (is_removal b = false /\ exists i, PubReach go gn ri rj i (brk_obj b)) \/
  (is_removal b = true /\ exists i j oi n mo, PubReach go gn ri rj i j /\ get go i = Some oi /\
      In (n, brk_obj b) (all_members oi) /\ get go (brk_obj b) = Some mo /\ is_public oi mo = true).
Proof. exact private_never_reported. Qed.
Print Assumptions C11_private_never_reported.

(* completeness: removing a public member of the root or of a visited container is reported ... *)
Theorem C11_public_removal_reported : forall go gn ri rj fuel s l,
  fbc go gn fuel ri rj = Ok s l ->
  forall c j oi nj n m mo, Scanned go gn ri rj c j -> get go c = Some oi -> get gn j = Some nj ->
  In (n, m) (all_members oi) -> get go m = Some mo -> is_public oi mo = true -> lookup n (all_members nj) = None ->
  In (BRemoved m) (breakages go gn l).
Proof. exact public_removal_reported. Qed.
Print Assumptions C11_public_removal_reported.

(* ... a visited pair of objects of different kinds is reported (Visit: reached from the roots through public members of
   same-kind containers and through resolvable alias targets -- also through re-exports and inherited members) ... *)
Theorem C11_rekinding_reported : forall go gn ri rj fuel s l,
  fbc go gn fuel ri rj = Ok s l ->
  forall c j oi nj, Visit go gn ri rj c j -> get go c = Some oi -> get gn j = Some nj ->
  is_alias oi = false -> is_alias nj = false -> kind_of oi <> kind_of nj ->
  In (BKind j) (breakages go gn l).
Proof. exact rekinding_reported. Qed.
Print Assumptions C11_rekinding_reported.

(* ... a visited class that lost a base is reported ... *)
Theorem C11_base_removed_reported : forall go gn ri rj fuel s l,
  fbc go gn fuel ri rj = Ok s l ->
  forall c j oi nj im ob inh ms im' nb inh' ms',
  Visit go gn ri rj c j -> get go c = Some oi -> get gn j = Some nj ->
  nbody oi = BClass im ob inh ms -> nbody nj = BClass im' nb inh' ms' -> List.length nb < List.length ob ->
  In (BBase j) (breakages go gn l).
Proof. exact base_removed_reported. Qed.
Print Assumptions C11_base_removed_reported.

(* ... a visited attribute whose value changed is reported ... *)
Theorem C11_value_changed_reported : forall go gn ri rj fuel s l,
  fbc go gn fuel ri rj = Ok s l ->
  forall c j oi nj ov nv, Visit go gn ri rj c j -> get go c = Some oi -> get gn j = Some nj ->
  nbody oi = BAttribute ov -> nbody nj = BAttribute nv -> ov <> nv ->
  In (BValue j) (breakages go gn l).
Proof. exact value_changed_reported. Qed.
Print Assumptions C11_value_changed_reported.

(* ... and so is every parameter breakage C10's fdiff finds on a visited function pair *)
Theorem C11_parameter_breakage_reported : forall go gn ri rj fuel s l,
  fbc go gn fuel ri rj = Ok s l ->
  forall c j oi nj os oret ns nret p, Visit go gn ri rj c j -> get go c = Some oi -> get gn j = Some nj ->
  nbody oi = BFunction os oret -> nbody nj = BFunction ns nret -> In p (fdiff os ns) ->
  In (BParam j p) (breakages go gn l).
Proof. exact parameter_breakage_reported. Qed.
Print Assumptions C11_parameter_breakage_reported.

(* every pair that must be visited is examined exactly as the code examines it (the log is what breakages are computed from) *)
Theorem C11_visited_pairs_examined : forall go gn ri rj fuel s l,
  fbc go gn fuel ri rj = Ok s l -> forall i j, Visit go gn ri rj i j -> In (EHead i j) l.
Proof. exact visit_logged. Qed.
Print Assumptions C11_visited_pairs_examined.

(* unresolvable and cyclic re-exports are skipped, never raised, and the seen_paths guard makes the comparison terminate:
   on well-formed stores -- whatever the alias targets -- it completes with fuel = |old| * |new| + 1 (what the extracted model passes) *)
Theorem C11_terminates_never_raises : forall go gn, wf_store go = true -> wf_store gn = true ->
  forall fuel ri rj, ri < List.length go -> rj < List.length gn -> List.length go * List.length gn < fuel ->
  exists s l, fbc go gn fuel ri rj = Ok s l.
Proof. exact fbc_total. Qed.
Print Assumptions C11_terminates_never_raises.

(* the command-line check exits 0 exactly when the comparison completed and reported nothing *)
Theorem C11_exit_code_iff : forall go gn r,
  check_exit go gn r = 0 <-> exists s l, r = Ok s l /\ breakages go gn l = [].
Proof. exact exit_code_iff. Qed.
Print Assumptions C11_exit_code_iff.

(* is_public is the ladder its docstring words, rule by rule (an empty __all__ included) *)
Theorem C11_is_public_matches_doc : forall p m, is_public p m = is_public_doc p m.
Proof. exact is_public_matches_doc. Qed.
Print Assumptions C11_is_public_matches_doc.
