(* C11 — API diff: silent on compatible change, reports every public removal / re-kinding.  Property theorems only.
   Stores are arbitrary graphs of objects (modules, classes, functions, attributes, aliases with resolved / unresolvable /
   cyclic targets); fbc is the model of find_breaking_changes with its seen_paths guard; breakages l is what it reports. *)
From Coq Require Import List Arith Bool String.
From Verif Require Import Lib.Sexp Model.C10_kinds Gen.C10_tables Model.C10_diff Model.C11_apidiff Proofs.C11_apidiff.
Import ListNotations.
Open Scope string_scope. Open Scope list_scope. Open Scope nat_scope.

(* a package compared with an identical copy of itself reports nothing *)
Theorem C11_self_silent : forall g, wf_store g = true ->
  forall fuel r s l, fbc g g fuel r r = Ok s l -> breakages g g l = [].
Proof. exact self_silent. Qed.
Print Assumptions C11_self_silent.

(* compatible edits: on a set U of old objects closed under public members and alias targets the new store may add members
   anywhere, add parameters that leave fdiff empty, add a return annotation, add bases; everything outside U may change *)
Theorem C11_compatible_edits_silent : forall go gn (U : nat -> Prop),
  (forall i oi nj, U i -> get go i = Some oi -> get gn i = Some nj -> ext_node oi nj /\ ext_members go oi nj) ->
  (forall i oi n m mo, U i -> get go i = Some oi -> In (n, m) (all_members oi) -> get go m = Some mo ->
     is_public oi mo = true -> U m) ->
  (forall i oi t, U i -> get go i = Some oi -> nbody oi = BAlias (TRes t) -> U t) ->
  forall fuel r s l, U r -> fbc go gn fuel r r = Ok s l -> breakages go gn l = [].
Proof. exact extension_silent. Qed.
Print Assumptions C11_compatible_edits_silent.

(* ... in particular optional keyword-only parameters inserted after the positional ones *)
Theorem C11_added_optional_kwonly_silent : forall s1 extra s2,
  nodup_names (s1 ++ s2) = true ->
  (forall p, In p s2 -> is_pos (pkind p) = false) ->
  (forall p, In p extra -> pkind p = KO /\ required p = false /\ find (pname p) (s1 ++ s2) = None) ->
  fdiff (s1 ++ s2) (s1 ++ extra ++ s2) = [].
Proof. exact fdiff_add_optional_kwonly. Qed.
Print Assumptions C11_added_optional_kwonly_silent.

(* ... and arbitrary changes to objects that are not publicly reachable *)
Theorem C11_private_changes_silent : forall go gn (U : nat -> Prop),
  wf_store go = true ->
  (forall i, U i -> get gn i = get go i) ->
  (forall i oi n m mo, U i -> get go i = Some oi -> In (n, m) (all_members oi) -> get go m = Some mo ->
     is_public oi mo = true -> U m) ->
  (forall i oi t, U i -> get go i = Some oi -> nbody oi = BAlias (TRes t) -> U t) ->
  forall fuel r s l, U r -> fbc go gn fuel r r = Ok s l -> breakages go gn l = [].
Proof. exact private_changes_silent. Qed.
Print Assumptions C11_private_changes_silent.

(* private / imported-but-not-exported objects are never reported: every reported object is the counterpart of an old object
   reachable from the root through public members and alias targets; a removed object is a public member of such an object *)
Theorem C11_private_never_reported : forall go gn fuel ri rj s l b,
  fbc go gn fuel ri rj = Ok s l -> In b (breakages go gn l) ->
  (is_removal b = false /\ exists i, PubReach go gn ri rj i (brk_obj b)) \/
  (is_removal b = true /\ exists i j oi n mo, PubReach go gn ri rj i j /\ get go i = Some oi /\
      In (n, brk_obj b) (all_members oi) /\ get go (brk_obj b) = Some mo /\ is_public oi mo = true).
Proof. exact private_never_reported. Qed.
Print Assumptions C11_private_never_reported.

(* completeness, for a consistent old->new counterpart map cp (the decidable known-gap predicate of finding C11-F2 is its
   negation): removing a public member of the root or of a reached container is reported ... *)
Theorem C11_public_removal_reported : forall go gn cp ri rj fuel s l,
  fbc go gn fuel ri rj = Ok s l -> consistent go gn cp = true -> cp_get cp ri = Some rj ->
  forall c j oi nj n m mo, Scanned go gn cp ri rj c j -> get go c = Some oi -> get gn j = Some nj ->
  In (n, m) (all_members oi) -> get go m = Some mo -> is_public oi mo = true -> lookup n (all_members nj) = None ->
  In (BRemoved m) (breakages go gn l).
Proof. exact public_removal_reported. Qed.
Print Assumptions C11_public_removal_reported.

(* ... a reached object whose counterpart has another kind is reported ... *)
Theorem C11_rekinding_reported : forall go gn cp ri rj fuel s l,
  fbc go gn fuel ri rj = Ok s l -> consistent go gn cp = true -> cp_get cp ri = Some rj ->
  forall c j oi nj, Reach go gn cp ri rj c -> cp_get cp c = Some j -> get go c = Some oi -> get gn j = Some nj ->
  is_alias oi = false -> is_alias nj = false -> kind_of oi <> kind_of nj ->
  In (BKind j) (breakages go gn l).
Proof. exact rekinding_reported. Qed.
Print Assumptions C11_rekinding_reported.

(* ... a reached class that lost a base is reported ... *)
Theorem C11_base_removed_reported : forall go gn cp ri rj fuel s l,
  fbc go gn fuel ri rj = Ok s l -> consistent go gn cp = true -> cp_get cp ri = Some rj ->
  forall c j oi nj im ob inh ms im' nb inh' ms',
  Reach go gn cp ri rj c -> cp_get cp c = Some j -> get go c = Some oi -> get gn j = Some nj ->
  nbody oi = BClass im ob inh ms -> nbody nj = BClass im' nb inh' ms' -> List.length nb < List.length ob ->
  In (BBase j) (breakages go gn l).
Proof. exact base_removed_reported. Qed.
Print Assumptions C11_base_removed_reported.

(* ... a reached attribute whose value changed is reported ... *)
Theorem C11_value_changed_reported : forall go gn cp ri rj fuel s l,
  fbc go gn fuel ri rj = Ok s l -> consistent go gn cp = true -> cp_get cp ri = Some rj ->
  forall c j oi nj ov nv, Reach go gn cp ri rj c -> cp_get cp c = Some j -> get go c = Some oi -> get gn j = Some nj ->
  nbody oi = BAttribute ov -> nbody nj = BAttribute nv -> ov <> nv ->
  In (BValue j) (breakages go gn l).
Proof. exact value_changed_reported. Qed.
Print Assumptions C11_value_changed_reported.

(* ... and so is every parameter breakage C10's fdiff finds on a reached function *)
Theorem C11_parameter_breakage_reported : forall go gn cp ri rj fuel s l,
  fbc go gn fuel ri rj = Ok s l -> consistent go gn cp = true -> cp_get cp ri = Some rj ->
  forall c j oi nj os oret ns nret p, Reach go gn cp ri rj c -> cp_get cp c = Some j -> get go c = Some oi -> get gn j = Some nj ->
  nbody oi = BFunction os oret -> nbody nj = BFunction ns nret -> In p (fdiff os ns) ->
  In (BParam j p) (breakages go gn l).
Proof. exact parameter_breakage_reported. Qed.
Print Assumptions C11_parameter_breakage_reported.

(* without the consistency hypothesis the statement is false of the faithful model (finding C11-F2: seen_paths remembers
   old paths only, so a public re-export that now points elsewhere is not compared once its old target has been) *)
Theorem C11_public_change_reported_refuted_F2 :
  exists go gn ri rj fuel s l i j b,
    wf_store go = true /\ wf_store gn = true /\ fbc go gn fuel ri rj = Ok s l /\
    PubReach go gn ri rj i j /\ In b (local go gn (EHead i j)) /\ ~ In b (breakages go gn l).
Proof. exact public_change_reported_refuted_F2. Qed.
Print Assumptions C11_public_change_reported_refuted_F2.

(* unresolvable re-exports are skipped, never raised: only a cyclic target can abort the comparison *)
Theorem C11_unresolvable_skipped_not_raised : forall go gn, no_cyclic go = true -> no_cyclic gn = true ->
  forall fuel ri rj, fbc go gn fuel ri rj <> ErrCyclic.
Proof. exact unresolvable_never_raises. Qed.
Print Assumptions C11_unresolvable_skipped_not_raised.

(* termination via seen_paths: on well-formed stores without cyclic targets the comparison completes with
   fuel = number of old objects + 1 (the fuel the extracted model passes) *)
Theorem C11_terminates : forall go gn, wf_store go = true -> wf_store gn = true -> no_cyclic go = true -> no_cyclic gn = true ->
  forall fuel ri rj, ri < List.length go -> rj < List.length gn -> List.length go < fuel ->
  exists s l, fbc go gn fuel ri rj = Ok s l.
Proof. exact fbc_total. Qed.
Print Assumptions C11_terminates.

(* "cyclic re-exports are skipped instead of aborting" is false of the faithful model (finding C11-F1) *)
Theorem C11_cyclic_aborts_refuted :
  exists g r, wf_store g = true /\ fbc g g (default_fuel g) r r = ErrCyclic /\ check_exit g g (fbc g g (default_fuel g) r r) <> 0.
Proof. exact cyclic_aborts_refuted. Qed.
Print Assumptions C11_cyclic_aborts_refuted.

(* the command-line check exits 0 exactly when the comparison completed and reported nothing *)
Theorem C11_exit_code_iff : forall go gn r,
  check_exit go gn r = 0 <-> exists s l, r = Ok s l /\ breakages go gn l = [].
Proof. exact exit_code_iff. Qed.
Print Assumptions C11_exit_code_iff.

(* is_public is its documented ladder except under an empty __all__ (finding C11-F3) *)
Theorem C11_is_public_matches_doc_modulo_F3 : forall p m, empty_all p = false -> is_public p m = is_public_doc p m.
Proof. exact is_public_matches_doc_modulo_F3. Qed.
Print Assumptions C11_is_public_matches_doc_modulo_F3.
Theorem C11_is_public_doc_refuted_F3 : exists p m, is_public p m = true /\ is_public_doc p m = false.
Proof. exact is_public_doc_refuted_F3. Qed.
Print Assumptions C11_is_public_doc_refuted_F3.
