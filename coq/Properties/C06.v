(* C06 — Alias resolution is total, all-or-nothing and cycle-safe on any import graph.
   Property theorems only: each closed by [exact] of a lemma from Proofs/, followed by Print Assumptions.
   The model describes the code after the repairs of findings C06-F1, F2, F4 and F5 (F3 stays known). *)
From Coq Require Import List String Bool Arith.
From Verif Require Import Lib.Sexp Model.C06_alias Proofs.C06_alias Proofs.C06_fixpoint Proofs.C06_sideload.
Import ListNotations.
Open Scope list_scope. Open Scope nat_scope.

(* Alias.resolve_target, on every well-formed heap (= every import graph, cyclic, dangling, self-importing, with
   aliases walked through, whatever the state of the passed-through flags): the nested recursion
   resolve_target -> _resolve_target -> get_member -> Alias.members -> final_target -> target -> resolve_target
   returns with the fuel #aliases+1 / 2#aliases+3 (no hang, no stack overflow: EFuel excluded), its outcome is success,
   AliasResolutionError or CyclicAliasError and nothing else; on success the alias is resolved, on failure its link is
   still unset; every passed-through flag is restored, links that were already stored are not touched, and complete
   targets stay complete. *)
Theorem C06_resolve_terminates :
  forall coll h i p tp pa w,
  wf coll h = true -> nth_error h i = Some (NAlias p tp None pa w) ->
  let h' := fst (resolve_top coll h i) in
  let r := snd (resolve_top coll h i) in
  (r = Ok tt /\ resolved_in h' i \/ (exists q, r = Err (EARE q)) \/ r = Err ECyc) /\
  (forall e, r = Err e -> link_of h' i = None) /\
  wf coll h' = true /\ flags h' = flags h /\ (forall j t, link_of h j = Some t -> link_of h' j = Some t) /\
  (targets_complete h = true -> targets_complete h' = true).
Proof. exact resolve_top_total. Qed.
Print Assumptions C06_resolve_terminates.

(* Dereferencing any alias (final_target, hence kind / members / every proxied attribute): the result is a real
   object, AliasResolutionError or CyclicAliasError; flags restored; stored links untouched. *)
Theorem C06_deref_outcomes :
  forall coll h i,
  wf coll h = true -> i < List.length h ->
  let h' := fst (deref_top coll h i) in
  let r := snd (deref_top coll h i) in
  ((exists o p c ms, r = Ok o /\ nth_error h' o = Some (NObj p c ms)) \/ (exists q, r = Err (EARE q)) \/ r = Err ECyc) /\
  wf coll h' = true /\ flags h' = flags h /\ (forall j t, link_of h j = Some t -> link_of h' j = Some t) /\
  (targets_complete h = true -> targets_complete h' = true).
Proof. exact deref_total. Qed.
Print Assumptions C06_deref_outcomes.

(* GriffeLoader.resolve_aliases(implicit=True, external=False) on every well-formed heap: the while loop (which now
   continues while aliases get resolved) stops within #aliases+2 passes, the tree recursion of
   resolve_module_aliases and all nested dereferencing return (EFuel excluded), flags restored, stored links untouched.
   The only exceptions that can leave the call are the two alias errors (raised by the eager
   `member.final_target.path` of a debug message); no such escape was ever observed. *)
Theorem C06_resolve_aliases_terminates :
  forall coll h,
  wf coll h = true ->
  let h' := fst (resolve_aliases coll h) in
  let r := snd (resolve_aliases coll h) in
  ((exists u it, r = Ok (u, it)) \/ (exists q, r = Err (EARE q)) \/ r = Err ECyc) /\
  wf coll h' = true /\ flags h' = flags h /\ (forall j t, link_of h j = Some t -> link_of h' j = Some t) /\
  (targets_complete h = true -> targets_complete h' = true).
Proof. exact resolve_aliases_total. Qed.
Print Assumptions C06_resolve_aliases_terminates.

(* All-or-nothing ("a chain is never left partially resolved"), for every well-formed heap, modulo the one remaining
   known gap KnownGap_preresolved := targets_complete h = false (C06-F3: wildcard expansion stores links onto chains
   that do not reach an object; expansion is outside the model).  The former refutations (C06-F4 walk through an alias
   member, and resolve_target storing a link onto a pre-stored dangling chain) are repaired: the hypothesis `direct`
   is gone. *)
Theorem C06_all_or_nothing_modulo_known :
  forall coll h i p tp pa w,
  wf coll h = true -> targets_complete h = true -> nth_error h i = Some (NAlias p tp None pa w) ->
  let h' := fst (resolve_top coll h i) in
  let r := snd (resolve_top coll h i) in
  targets_complete h' = true /\ (r = Ok tt -> resolved_in h' i) /\ (forall e, r = Err e -> link_of h' i = None).
Proof. exact all_or_nothing_modulo_known. Qed.
Print Assumptions C06_all_or_nothing_modulo_known.

Theorem C06_resolve_aliases_keeps_targets_complete :
  forall coll h,
  wf coll h = true -> targets_complete h = true -> targets_complete (fst (resolve_aliases coll h)) = true.
Proof. exact resolve_aliases_keeps_targets_complete. Qed.
Print Assumptions C06_resolve_aliases_keeps_targets_complete.

(* Sharper form where no target path runs through an alias member (direct) and paths are unique: a failed
   resolve_target changes nothing at all, a successful one keeps every invariant. *)
Theorem C06_failed_resolution_changes_nothing :
  forall coll h i p tp pa w,
  wf coll h = true -> direct coll h = true -> chains_complete h = true -> unique_paths h = true ->
  nth_error h i = Some (NAlias p tp None pa w) ->
  let h' := fst (resolve_top coll h i) in
  let r := snd (resolve_top coll h i) in
  (r = Ok tt /\ resolved_in h' i /\ wf coll h' = true /\ direct coll h' = true /\ chains_complete h' = true /\
   unique_paths h' = true /\ flags h' = flags h) \/
  (exists e, r = Err e /\ h' = h).
Proof. exact failed_resolution_changes_nothing. Qed.
Print Assumptions C06_failed_resolution_changes_nothing.

(* where stored chains are complete, every resolved alias dereferences, without any mutation, to a real object *)
Theorem C06_resolved_means_dereferenceable :
  forall coll h i p tp t pa w,
  chains_complete h = true -> nth_error h i = Some (NAlias p tp (Some t) pa w) ->
  exists o, deref_top coll h i = (h, Ok o) /\ exists po c ms, nth_error h o = Some (NObj po c ms).
Proof. exact complete_deref. Qed.
Print Assumptions C06_resolved_means_dereferenceable.

(* PARTIAL (fixpoint, "resolving again is a no-op"): what is proved is the conditional form - once one pass over the
   collection changes nothing, resolve_aliases is a no-op returning that pass' unresolved set within 2 iterations.
   Missing for the unconditional statement: that the last pass of a call is such a quiet pass, which needs "a failed
   resolve_target keeps failing after more links are stored".  The former refutation of the return value (C06-F3/F4)
   no longer holds of the repaired model (Proofs: preresolved_repaired); the harness checks the model's and the
   implementation's second and third call on every explored heap. *)
Theorem C06_fixpoint_partial :
  forall coll h u rsv,
  wf coll h = true -> one_pass coll h = (h, Ok (u, rsv)) ->
  exists it, resolve_aliases coll h = (h, Ok (u, it)) /\ it <= 2.
Proof. exact fixpoint_after_quiet_pass. Qed.
Print Assumptions C06_fixpoint_partial.

(* Fixpoint, UNCONDITIONAL form ("resolving again is a no-op"), on every heap of any size on which no target path runs
   through an alias member (direct), stored chains are complete (not KnownGap_preresolved / C06-F3) and alias paths are
   unique: resolve_aliases() returns normally (nothing leaves it), and on the heap it leaves behind a further pass over
   the collection changes nothing and reports the same unresolved set, so a second resolve_aliases() returns the same
   set, leaves the heap identical and needs at most 2 iterations.  No hypothesis about a quiet pass any more.
   Still open: heaps where get_member walks through alias members (C06_fixpoint_partial covers them conditionally). *)
Theorem C06_fixpoint_direct_heaps :
  forall coll h,
  wf coll h = true -> direct coll h = true -> chains_complete h = true -> unique_paths h = true ->
  let h' := fst (resolve_aliases coll h) in
  exists u it,
    resolve_aliases coll h = (h', Ok (u, it)) /\
    one_pass coll h' = (h', Ok (u, [])) /\
    exists it', resolve_aliases coll h' = (h', Ok (u, it')) /\ it' <= 2.
Proof. exact resolve_aliases_fixpoint. Qed.
Print Assumptions C06_fixpoint_direct_heaps.

(* On those heaps the outcome of Alias.resolve_target is the static walk (Model: [walk]): a pure function of the target
   paths, the flags and which aliases are already resolved - success, AliasResolutionError naming the alias whose
   target path does not exist, or CyclicAliasError. *)
Theorem C06_resolution_outcome_is_static :
  forall coll h i p tp pa w,
  wf coll h = true -> direct coll h = true -> chains_complete h = true -> unique_paths h = true ->
  nth_error h i = Some (NAlias p tp None pa w) ->
  snd (resolve_top coll h i) = walk coll (fuelN h) h i [].
Proof. exact resolve_outcome_static. Qed.
Print Assumptions C06_resolution_outcome_is_static.

(* "A failed resolve_target keeps failing once more links are stored" (the missing piece of the fixpoint): whatever
   resolve_aliases() resolves in between, the same call fails with the same error afterwards and changes nothing. *)
Theorem C06_failure_is_stable :
  forall coll h i p tp pa w e,
  wf coll h = true -> direct coll h = true -> chains_complete h = true -> unique_paths h = true ->
  nth_error h i = Some (NAlias p tp None pa w) ->
  snd (resolve_top coll h i) = Err e ->
  let g := fst (resolve_aliases coll h) in
  resolve_top coll g i = (g, Err e).
Proof. exact failure_is_stable. Qed.
Print Assumptions C06_failure_is_stable.

(* non-vacuity of the three theorems above: the hypotheses hold of a heap on which resolve_aliases changes the heap,
   one alias is cyclic, one resolves *)
Theorem C06_fixpoint_nonvacuous :
  wf w_plain_coll w_plain_heap = true /\ direct w_plain_coll w_plain_heap = true /\
  chains_complete w_plain_heap = true /\ unique_paths w_plain_heap = true /\
  resolve_aliases w_plain_coll w_plain_heap = (fst (resolve_aliases w_plain_coll w_plain_heap), Ok (["p.z"%string], 2)) /\
  fst (resolve_aliases w_plain_coll w_plain_heap) <> w_plain_heap /\
  walk w_plain_coll (fuelN w_plain_heap) w_plain_heap 5 [] = Err ECyc /\
  walk w_plain_coll (fuelN w_plain_heap) w_plain_heap 1 [] = Ok tt.
Proof. exact fixpoint_nonvacuous. Qed.
Print Assumptions C06_fixpoint_nonvacuous.

(* unique_paths cannot be dropped, and heaps without it are reachable: on the heap abstracted from a real package (a
   wildcard import re-binds a name and leaves the replaced alias as the stored target of another one) every stored link
   leads node by node to an object, yet the resolved alias p.x dereferences to CyclicAliasError, because two distinct
   aliases of its chain share the path "p.x" (finding C06-F9, KnownGap_duplicate_path = link_verdict "false-cycle");
   and on a direct heap with complete chains a successful resolve_target breaks chains_complete once a path is
   duplicated.  The implementation replays the first heap on every run (witness of C06-F9). *)
Theorem C06_unique_paths_needed :
  (wf w_dup_coll w_dup_heap = true /\ direct w_dup_coll w_dup_heap = true /\ no_passed w_dup_heap = true /\
   targets_complete w_dup_heap = true /\ unique_paths w_dup_heap = false /\ chains_complete w_dup_heap = false /\
   fst (ident_walk 28 w_dup_heap (RReal 1) []) = Some 3 /\
   snd (deref_top w_dup_coll w_dup_heap 1) = Err ECyc /\
   snd (deref_top w_dup_coll w_dup_heap 8) = Ok 3 /\
   link_verdict w_dup_heap w_dup_heap 1 = "false-cycle"%string /\
   link_verdict w_pre_heap (fst (resolve_aliases w_pre_coll w_pre_heap)) 7 = "preresolved"%string) /\
  (wf w_dup_coll w_dup2_heap = true /\ direct w_dup_coll w_dup2_heap = true /\ chains_complete w_dup2_heap = true /\
   unique_paths w_dup2_heap = false /\
   snd (resolve_top w_dup_coll w_dup2_heap 1) = Ok tt /\
   chains_complete (fst (resolve_top w_dup_coll w_dup2_heap 1)) = false /\
   snd (deref_top w_dup_coll (fst (resolve_top w_dup_coll w_dup2_heap 1)) 1) = Err ECyc).
Proof. exact (conj unique_paths_needed unique_paths_needed_for_invariance). Qed.
Print Assumptions C06_unique_paths_needed.

(* The outer loop of resolve_aliases WITH side-loading (external = True / None), over an abstract world: one pass over
   the collection returns (some alias resolved, unresolved set, collection grew).  For EVERY world type, pass function
   and measure such that (1) a pass that resolves or loads uses up some of the measure (unlinked aliases + packages of a
   finite universe not loaded yet), (2) a pass that does neither changes nothing, (3) a package is only loaded for an
   alias reported unresolved in that pass, (4) once a pass ends with nothing unresolved a further pass is quiet:
   the loop `while unresolved and (progress or unresolved != prev)` ends within measure+2 passes, a further pass on the
   world it leaves changes nothing and reports the returned set, and a second call returns the same set, the same
   world, in at most 2 iterations.  (1)-(3) are read off the code; (4) is C06_fixpoint_direct_heaps for external=False
   and is evaluated at run time in the side-loading streams.  The harness replays the pass results observed in every
   side-loading run through the extracted [ext_loop] and compares iterations and returned set. *)
Theorem C06_side_loading_loop :
  forall (W : Type) (pass : W -> W * (bool * list string * bool)) (mu : W -> nat),
  (forall w w' rs u g, pass w = (w', (rs, u, g)) -> rs || g = true -> mu w' < mu w) ->
  (forall w w' u, pass w = (w', (false, u, false)) -> w' = w) ->
  (forall w w' rs g, pass w = (w', (rs, [], g)) -> g = false) ->
  (forall w w' rs, pass w = (w', (rs, [], false)) -> pass w' = (w', (false, [], false))) ->
  forall w,
  exists w' u it,
    ext_loop W pass (mu w + 2) w [] 0 = Some (w', u, it) /\ it <= mu w + 2 /\
    pass w' = (w', (false, u, false)) /\
    exists it', ext_loop W pass (mu w' + 2) w' [] 0 = Some (w', u, it') /\ it' <= 2.
Proof. exact ext_loop_fixpoint. Qed.
Print Assumptions C06_side_loading_loop.

(* non-vacuity: a world with aliases to link and packages to load satisfies the four hypotheses; the loop loads 3
   packages and links 2 aliases in 5 passes *)
Theorem C06_side_loading_loop_nonvacuous :
  (ext_loop _ toy_pass 7 (2, 3) [] 0 = Some ((0, 0), [], 5) /\ ext_loop _ toy_pass 2 (0, 0) [] 0 = Some ((0, 0), [], 1)) /\
  forall w, exists w' u it,
    ext_loop _ toy_pass (fst w + snd w + 2) w [] 0 = Some (w', u, it) /\ it <= fst w + snd w + 2 /\
    toy_pass w' = (w', (false, u, false)) /\
    exists it', ext_loop _ toy_pass (fst w' + snd w' + 2) w' [] 0 = Some (w', u, it') /\ it' <= 2.
Proof. exact (conj toy_loop_side_loads toy_fixpoint). Qed.
Print Assumptions C06_side_loading_loop_nonvacuous.

(* resolve_aliases(implicit=False) skips the aliases that are not exported: in the model that is the skip bit
   ([mark_skip ids]).  Raising it on ANY set of aliases keeps every hypothesis of the theorems above, so all of them
   (termination, error discipline, all-or-nothing - stated for every well-formed heap - and the fixpoint) cover
   implicit=False; the harness passes the non-exported aliases as [ids] and the extracted model applies mark_skip. *)
Theorem C06_skip_bit_preserves :
  forall coll ids h,
  let hs := mark_skip ids h in
  wf coll hs = wf coll h /\ direct coll hs = direct coll h /\ chains_complete hs = chains_complete h /\
  unique_paths hs = unique_paths h /\ targets_complete hs = targets_complete h /\ no_passed hs = no_passed h.
Proof. exact skip_preserves. Qed.
Print Assumptions C06_skip_bit_preserves.

Theorem C06_fixpoint_with_skip :
  forall coll ids h,
  wf coll h = true -> direct coll h = true -> chains_complete h = true -> unique_paths h = true ->
  let hs := mark_skip ids h in
  let h' := fst (resolve_aliases coll hs) in
  exists u it,
    resolve_aliases coll hs = (h', Ok (u, it)) /\
    one_pass coll h' = (h', Ok (u, [])) /\
    exists it', resolve_aliases coll h' = (h', Ok (u, it')) /\ it' <= 2.
Proof. exact fixpoint_with_skip. Qed.
Print Assumptions C06_fixpoint_with_skip.

Theorem C06_skip_nonvacuous :
  link_of (fst (resolve_aliases w_plain_coll (mark_skip [1] w_plain_heap))) 1 = None /\
  link_of (fst (resolve_aliases w_plain_coll w_plain_heap)) 1 = Some (RReal 3) /\
  snd (resolve_aliases w_plain_coll (mark_skip [1] w_plain_heap)) = Ok (["p.z"%string], 2).
Proof. exact skip_nonvacuous. Qed.
Print Assumptions C06_skip_nonvacuous.

(* non-vacuity: a heap satisfying every hypothesis above, on which all three outcome classes occur *)
Theorem C06_hypotheses_satisfiable :
  wf w_plain_coll w_plain_heap = true /\ direct w_plain_coll w_plain_heap = true /\
  chains_complete w_plain_heap = true /\ unique_paths w_plain_heap = true /\ no_passed w_plain_heap = true /\
  snd (resolve_top w_plain_coll w_plain_heap 1) = Ok tt /\
  snd (resolve_top w_plain_coll w_plain_heap 5) = Err ECyc /\
  snd (resolve_top w_plain_coll w_plain_heap 7) = Err (EARE "p.z"%string) /\
  snd (resolve_aliases w_plain_coll w_plain_heap) = Ok (["p.z"%string], 2).
Proof. exact hypotheses_satisfiable. Qed.
Print Assumptions C06_hypotheses_satisfiable.

(* the witnesses of the repaired findings: the alias is left unlinked, the second call returns the first call's set *)
Theorem C06_former_witnesses_repaired :
  snd (resolve_top w_through_coll w_through_heap 3) = Err (EARE "p.b.x"%string) /\
  link_of (fst (resolve_top w_through_coll w_through_heap 3)) 3 = None /\
  targets_complete w_pre_heap = false /\
  link_of (fst (resolve_top w_pre_coll w_pre_heap 6)) 6 = None /\
  snd (resolve_aliases w_pre_coll (fst (resolve_aliases w_pre_coll w_pre_heap))) = snd (resolve_aliases w_pre_coll w_pre_heap).
Proof. exact former_witnesses_repaired. Qed.
Print Assumptions C06_former_witnesses_repaired.
