(* C06 — Alias resolution is total, all-or-nothing and cycle-safe on any import graph.
   Property theorems only: each closed by [exact] of a lemma from Proofs/, followed by Print Assumptions. *)
From Coq Require Import List String Bool Arith.
From Verif Require Import Lib.Sexp Model.C06_alias Proofs.C06_alias.
Import ListNotations.
Open Scope list_scope. Open Scope nat_scope.

(* Alias.resolve_target, on every well-formed heap (= every import graph, cyclic, dangling, self-importing, with
   aliases walked through, whatever the state of the passed-through flags): the nested recursion
   resolve_target -> _resolve_target -> get_member -> Alias.members -> final_target -> target -> resolve_target
   returns with the fuel #aliases+1 / 2#aliases+3 (no hang, no stack overflow: EFuel excluded), its outcome is success,
   AliasResolutionError or CyclicAliasError and nothing else, on success the alias is resolved, every
   passed-through flag is restored and links that were already stored are not touched. *)
Theorem C06_resolve_terminates :
  forall coll h i p tp pa w,
  wf coll h = true -> nth_error h i = Some (NAlias p tp None pa w) ->
  let h' := fst (resolve_top coll h i) in
  let r := snd (resolve_top coll h i) in
  (r = Ok tt /\ resolved_in h' i \/ (exists q, r = Err (EARE q)) \/ r = Err ECyc) /\
  wf coll h' = true /\ flags h' = flags h /\ (forall j t, link_of h j = Some t -> link_of h' j = Some t).
Proof. exact resolve_top_total. Qed.
Print Assumptions C06_resolve_terminates.

(* Dereferencing any alias (final_target, hence kind / members / every proxied attribute): the result is a real
   object, AliasResolutionError or CyclicAliasError; flags restored; stored links untouched. *)
Theorem C06_deref_outcomes :
  forall coll h i,
  wf coll h = true -> i < List.length h ->
  let h' := fst (deref_top coll h i) in
  let r := snd (deref_top coll h i) in
  ((exists o p c ms, r = Ok o /\ nth_error h' o = Some (NObj p c ms)) \/ (exists q, r = Err (EARE q)) \/ r = Err ECyc) /\
  wf coll h' = true /\ flags h' = flags h /\ (forall j t, link_of h j = Some t -> link_of h' j = Some t).
Proof. exact deref_total. Qed.
Print Assumptions C06_deref_outcomes.

(* GriffeLoader.resolve_aliases(implicit=True, external=False) on every well-formed heap: the while loop stops within
   #aliases+2 passes, the tree recursion of resolve_module_aliases and all nested dereferencing return (EFuel
   excluded), flags restored, stored links untouched.  The only exceptions that can leave the call are the two alias
   errors (raised by the eager `member.final_target.path` of a debug message); no such escape was ever observed. *)
Theorem C06_resolve_aliases_terminates :
  forall coll h,
  wf coll h = true ->
  let h' := fst (resolve_aliases coll h) in
  let r := snd (resolve_aliases coll h) in
  ((exists u it, r = Ok (u, it)) \/ (exists q, r = Err (EARE q)) \/ r = Err ECyc) /\
  wf coll h' = true /\ flags h' = flags h /\ (forall j t, link_of h j = Some t -> link_of h' j = Some t).
Proof. exact resolve_aliases_total. Qed.
Print Assumptions C06_resolve_aliases_terminates.

(* FULL STATEMENT of all-or-nothing ("a chain is never left partially resolved"):
     forall coll h i, wf coll h = true -> i unresolved ->
       resolve_target either resolves i with every stored chain complete, or fails leaving the heap as it was.
   It is FALSE of the unchanged code.  Two refutations (heaps abstracted from real packages, replayed on the
   implementation on every run as known findings C06-F4 and C06-F3): *)
Theorem C06_all_or_nothing_refuted_passthrough :
  exists coll h i,
    wf coll h = true /\ no_passed h = true /\ unique_paths h = true /\ chains_complete h = true /\
    snd (resolve_top coll h i) = Err (EARE "p.b.x"%string) /\
    link_of h i = None /\ link_of (fst (resolve_top coll h i)) i = Some (RVirt "p.m.x"%string 5) /\
    chains_complete (fst (resolve_top coll h i)) = false.
Proof. exact all_or_nothing_refuted_passthrough. Qed.
Print Assumptions C06_all_or_nothing_refuted_passthrough.

Theorem C06_all_or_nothing_refuted_preresolved :
  exists coll h i,
    wf coll h = true /\ no_passed h = true /\ unique_paths h = true /\ direct coll h = true /\
    snd (resolve_top coll h i) = Err (EARE "p.a.x"%string) /\
    link_of h i = None /\ link_of (fst (resolve_top coll h i)) i = Some (RReal 7).
Proof. exact all_or_nothing_refuted_preresolved. Qed.
Print Assumptions C06_all_or_nothing_refuted_preresolved.

(* The strongest true statement: modulo KnownGap_passthrough (direct = false: some target path runs through an alias
   member or a virtual link is stored) and KnownGap_preresolved (chains_complete = false: some stored link does not
   lead to an object), for heaps of any size and shape (cycles, dangling targets, self imports, flags raised). *)
Theorem C06_all_or_nothing_modulo_known :
  forall coll h i p tp pa w,
  wf coll h = true -> direct coll h = true -> chains_complete h = true -> unique_paths h = true ->
  nth_error h i = Some (NAlias p tp None pa w) ->
  let h' := fst (resolve_top coll h i) in
  let r := snd (resolve_top coll h i) in
  (r = Ok tt /\ resolved_in h' i /\ wf coll h' = true /\ direct coll h' = true /\ chains_complete h' = true /\
   unique_paths h' = true /\ flags h' = flags h) \/
  (exists e, r = Err e /\ h' = h).
Proof. exact all_or_nothing_modulo_known. Qed.
Print Assumptions C06_all_or_nothing_modulo_known.

(* where stored chains are complete, every resolved alias dereferences, without any mutation, to a real object *)
Theorem C06_resolved_means_dereferenceable :
  forall coll h i p tp t pa w,
  chains_complete h = true -> nth_error h i = Some (NAlias p tp (Some t) pa w) ->
  exists o, deref_top coll h i = (h, Ok o) /\ exists po c ms, nth_error h o = Some (NObj po c ms).
Proof. exact complete_deref. Qed.
Print Assumptions C06_resolved_means_dereferenceable.

(* FULL STATEMENT of the fixpoint ("resolving again is a no-op"):
     forall coll h, wf coll h = true -> resolve_aliases (fst (resolve_aliases h)) returns the same set and heap.
   FALSE of the unchanged code for the return value (consequence of C06-F3): *)
Theorem C06_fixpoint_refuted :
  exists coll h,
    wf coll h = true /\ no_passed h = true /\ unique_paths h = true /\ direct coll h = true /\
    snd (resolve_aliases coll h) = Ok (["p.c.x"; "p.a.x"]%string, 2) /\
    snd (resolve_aliases coll (fst (resolve_aliases coll h))) = Ok (["p.a.x"%string], 2).
Proof. exact fixpoint_refuted. Qed.
Print Assumptions C06_fixpoint_refuted.

(* PARTIAL: what is proved is the conditional form - once one pass over the collection changes nothing,
   resolve_aliases is a no-op returning that pass' unresolved set within 2 iterations.  Missing: that on heaps free of
   the two known gaps the last pass of the first call is such a quiet pass (needs "a failed resolve_target keeps
   failing after more links are stored"); the harness checks the model's own second call on every explored heap. *)
Theorem C06_fixpoint_partial :
  forall coll h u,
  one_pass coll h = (h, Ok u) ->
  exists it, resolve_aliases coll h = (h, Ok (u, it)) /\ it <= 2.
Proof. exact fixpoint_after_quiet_pass. Qed.
Print Assumptions C06_fixpoint_partial.

(* non-vacuity: a heap satisfying every hypothesis above, on which all three outcome classes occur *)
Theorem C06_hypotheses_satisfiable :
  wf w_plain_coll w_plain_heap = true /\ direct w_plain_coll w_plain_heap = true /\
  chains_complete w_plain_heap = true /\ unique_paths w_plain_heap = true /\ no_passed w_plain_heap = true /\
  snd (resolve_top w_plain_coll w_plain_heap 1) = Ok tt /\
  snd (resolve_top w_plain_coll w_plain_heap 5) = Err ECyc /\
  snd (resolve_top w_plain_coll w_plain_heap 7) = Err (EARE "p.z"%string) /\
  snd (resolve_aliases w_plain_coll w_plain_heap) = Ok (["p.z"%string], 2).
Proof. exact hypotheses_satisfiable. Qed.
Print Assumptions C06_hypotheses_satisfiable.
