(* C06 — Alias resolution is total, all-or-nothing and cycle-safe on any import graph.
   Property theorems only: each closed by [exact] of a lemma from Proofs/, followed by Print Assumptions. *)
From Coq Require Import List String Bool Arith.
From Verif Require Import Lib.Sexp Model.C06_alias Proofs.C06_alias.
Import ListNotations.
Open Scope list_scope. Open Scope nat_scope.

(* Alias.resolve_target, on every well-formed heap (= every import graph, cyclic, dangling, self-importing, with
   aliases walked through, whatever the state of the passed-through flags): the nested recursion
   resolve_target -> _resolve_target -> get_member -> Alias.members -> final_target -> target -> resolve_target
   returns with the fuel #aliases+1 / 2#aliases+3 (no hang, no stack overflow: EFuel excluded), its outcome is success,
   AliasResolutionError or CyclicAliasError and nothing else, on success the alias is resolved, every
   passed-through flag is restored and links that were already stored are not touched. *)
Theorem C06_resolve_terminates :
  forall coll h i p tp pa w,
  wf coll h = true -> nth_error h i = Some (NAlias p tp None pa w) ->
  let h' := fst (resolve_top coll h i) in
  let r := snd (resolve_top coll h i) in
  (r = Ok tt /\ resolved_in h' i \/ (exists q, r = Err (EARE q)) \/ r = Err ECyc) /\
  wf coll h' = true /\ flags h' = flags h /\ (forall j t, link_of h j = Some t -> link_of h' j = Some t).
Proof. exact resolve_top_total. Qed.
Print Assumptions C06_resolve_terminates.

(* Dereferencing any alias (final_target, hence kind / members / every proxied attribute): the result is a real
   object, AliasResolutionError or CyclicAliasError; flags restored; stored links untouched. *)
Theorem C06_deref_outcomes :
  forall coll h i,
  wf coll h = true -> i < List.length h ->
  let h' := fst (deref_top coll h i) in
  let r := snd (deref_top coll h i) in
  ((exists o p c ms, r = Ok o /\ nth_error h' o = Some (NObj p c ms)) \/ (exists q, r = Err (EARE q)) \/ r = Err ECyc) /\
  wf coll h' = true /\ flags h' = flags h /\ (forall j t, link_of h j = Some t -> link_of h' j = Some t).
Proof. exact deref_total. Qed.
Print Assumptions C06_deref_outcomes.
