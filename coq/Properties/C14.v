(* C14 — Module discovery matches the import system, independent of listing order.
   Property theorems only: each closed by [exact] of a lemma from Proofs/, followed by Print Assumptions.
   Model: Model/C14_finder.v (finder.py find_package / iter_submodules / submodules / .pth extension, loader.py submodule
   attachment, in static mode) and the authority (CPython's FileFinder/PathFinder, pkgutil, site). *)
From Coq Require Import List ZArith String Ascii Bool Arith Sorting.Sorted.
From Verif Require Import Lib.Sexp Model.C14_finder Proofs.C14_finder Proofs.C14_order Proofs.C14_import Proofs.C14_pth Proofs.C14_ns Proofs.C14_bypath Proofs.C14_nsload Proofs.C14_nsinv Proofs.C14_nsorder Proofs.C14_state.
Import ListNotations.
Open Scope string_scope. Open Scope list_scope.

(* Top-level precedence: for every universe of directories and every search-path list, find_package answers what
   CPython's PathFinder answers (package directory with __init__.py > module file > namespace portions; the first
   regular hit wins, namespace portions are collected in search-path order) -- provided the search directories offer
   the name only in source form ([top_ok]: no compiled module/__init__, no stub-only package, no pkgutil declaration). *)
Theorem C14_find_eq_cpython :
  forall U name paths,
  forallb (top_ok U name) paths = true ->
  find_agree (g_find U name paths []) (py_find U name (top_dirs paths)).
Proof. exact find_eq_cpython. Qed.
Print Assumptions C14_find_eq_cpython.

(* ... and each of the three exclusions is necessary. *)
Theorem C14_find_eq_refuted_outside_scope :
  (exists U, ~ find_agree (g_find U "aa" [0] []) (py_find U "aa" (top_dirs [0]))) /\
  (exists U, g_find U "aa" [0; 1] [] = FPkg (0, ["aa"; "__init__.pyi"]) None /\ py_find U "aa" (top_dirs [0; 1]) = PyMod (1, ["aa.py"])) /\
  (exists U, g_find U "aa" [0] [] = FNs [(0, ["aa"])] /\ exists l, py_find U "aa" (top_dirs [0]) = PyPkg (0, ["aa"; "__init__.py"]) l).
Proof. exact find_eq_refuted_outside_scope. Qed.
Print Assumptions C14_find_eq_refuted_outside_scope.

(* find_package does not depend on the order in which any directory is listed. *)
Theorem C14_find_order_invariant :
  forall U U' name paths nsacc,
  perm_universe U U' -> wf_universe U ->
  g_find U name paths nsacc = g_find U' name paths nsacc.
Proof. exact find_order_invariant. Qed.
Print Assumptions C14_find_order_invariant.

(* The loader's fold over ANY depth-sorted list of submodule entries below a regular top module, key by key:
   a dotted name is present iff every proper prefix of it is taken by a package (the merge of the prefix's candidate
   files is an __init__ module) and it has a loadable candidate itself; it then holds the merge of its candidates in
   list order; no namespace module ever appears below a regular package. *)
Theorem C14_loaded_characterisation :
  forall top E,
  sorted E -> (forall e, In e E -> e_parts e <> []) ->
  all_files (run top E) /\ forall k, lookup_m k (run top E) = spec_lookup top E k.
Proof. exact run_spec. Qed.
Print Assumptions C14_loaded_characterisation.

(* The same fold in general -- top module a regular package OR a namespace package over several portions -- over ANY
   depth-sorted entry list, key by key ([spec]): at a dotted name k sits the merge of k's candidate files iff
   _get_or_create_parent_module succeeds along k's parents (namespace levels only while no level above has a file, then
   package levels whose merge is an __init__ module); else a namespace sub-package iff the top is a namespace package,
   no level down to k has a file, and some entry passes through k -- recording the directories of those entries in their
   order; else nothing.  (The regular-top theorem above is the instance without namespace zone.) *)
Theorem C14_loaded_characterisation_general :
  forall top E,
  sorted E -> (forall e, In e E -> e_parts e <> []) ->
  forall k, lookup_m k (runN top E) = spec E top k.
Proof. exact runN_spec. Qed.
Print Assumptions C14_loaded_characterisation_general.

(* Listing order and namespace packages, the finder stage: under every permutation of every directory listing the
   repaired iter_submodules over a list of distinct portions yields the same SET of entries -- which portion provides a
   regular sub-package and which portion's module of a name wins is decided by the order of the portions and by depth
   (the provider of a folder = the first portion, in search-path order, with an eligible __init__ module there), never
   by the order in which a directory lists its entries. *)
Theorem C14_namespace_finder_order_invariant :
  forall U U' ds,
  perm_universe U U' -> wf_universe U -> NoDup (map bd ds) ->
  forall x, In x (iter_portions U ds) <-> In x (iter_portions U' ds).
Proof. exact iter_portions_order_invariant. Qed.
Print Assumptions C14_namespace_finder_order_invariant.

(* Listing-order invariance of the WHOLE static load as the model runs it -- .pth extension of the search paths,
   find_package, iter_submodules (regular package or namespace package over several portions), the loader's fold --:
   permuting every directory listing of the universe gives the same error, or the same file at every dotted name and
   namespace sub-packages that record the same set of directories ([same_tree_ns]; for regular packages the stronger
   [same_tree] of the next theorem holds).  No hypothesis besides unique names per directory. *)
Theorem C14_listing_order_invariant :
  forall U U' sps name,
  perm_universe U U' -> wf_universe U ->
  same_tree_ns (load false U sps name) (load false U' sps name).
Proof. exact load_order_invariant_full. Qed.
Print Assumptions C14_listing_order_invariant.

(* Listing-order invariance, regular packages of any depth, no side condition: permuting every directory listing of
   the universe leaves the static load of the package unchanged (same error, or the same module at every dotted
   name).  The former hypothesis no_clash is gone: os.walk lists the files of a directory before it descends into
   the sub-directories ([walk_sorted]), so name.py always precedes name/__init__.py in the list handed to the loader,
   the stable depth sort keeps that, and the merge ends on the package; name.tag.pyi no longer claims [name] (F5). *)
Theorem C14_listing_order_invariant_regular :
  forall U U' name paths,
  perm_universe U U' -> wf_universe U ->
  (forall ds, g_find U name paths [] <> FNs ds) ->
  same_tree (load_found false U (g_find U name paths [])) (load_found false U' (g_find U' name paths [])).
Proof. exact load_order_invariant_regular_full. Qed.
Print Assumptions C14_listing_order_invariant_regular.

(* os.walk's contract, as the model has it: in the list of files walk yields, nothing that comes later lives in a
   directory above the directory of an earlier file. *)
Theorem C14_walk_files_first :
  forall nd pre, wf_node nd -> StronglySorted Rw (walk pre nd).
Proof. exact walk_sorted. Qed.
Print Assumptions C14_walk_files_first.

(* The .pth extension of the search paths (_extend_from_pth_files with _handle_pth_file, repaired: F2 sorted order,
   F7 not transitive, F6 lines relative to the .pth file) IS site.addsitedir's, for every universe and every list of
   search paths -- provided no .pth line exists relative to the current directory only (what is left of F6: Griffe
   falls back to the cwd, site does not) and no file is called exactly ".pth" (pathlib gives it no suffix, site of
   CPython 3.12.1 reads it).  Both hypotheses are decidable and evaluated by the extracted model on every layout. *)
Theorem C14_search_paths_eq_site :
  forall U sps, pth_names_okb U = true -> gapU_F6 U = false -> g_paths U sps = py_paths U sps.
Proof. exact g_paths_eq_site_checked. Qed.
Print Assumptions C14_search_paths_eq_site.

(* ... and they do not depend on the order in which any directory is listed (sorted() = insertion sort on the names;
   inserting two different names commutes). *)
Theorem C14_search_paths_order_invariant :
  forall U U' sps, perm_universe U U' -> wf_universe U -> g_paths U sps = g_paths U' sps.
Proof. exact g_paths_order_invariant. Qed.
Print Assumptions C14_search_paths_order_invariant.

(* Top-level precedence end to end: find_package on the extended search paths answers what PathFinder answers after
   site.addsitedir has run on every search path. *)
Theorem C14_find_on_extended_paths_eq_cpython :
  forall U sps name,
  pth_names_okb U = true -> gapU_F6 U = false ->
  forallb (top_ok U name) (g_paths U sps) = true ->
  find_agree (g_find U name (g_paths U sps) []) (py_find U name (top_dirs (py_paths U sps))).
Proof. exact find_on_extended_paths_eq_cpython_checked. Qed.
Print Assumptions C14_find_on_extended_paths_eq_cpython.

Theorem C14_paths_eq_refuted_F6 : gapU_F6 U_F6 = true /\ g_paths U_F6 [0] = [0; 1] /\ py_paths U_F6 [0] = [0].
Proof. exact paths_eq_refuted_F6. Qed.
Print Assumptions C14_paths_eq_refuted_F6.

(* Namespace packages over several portions, the finder stage (iter_submodules on the list of portions, repaired):
   for every universe and every list of portions, what is yielded never contains two source files of one dotted name
   and suffix from different portions (the shape of the former finding F8: CPython imports the first portion's) ... *)
Theorem C14_namespace_first_module_wins : forall U ds, dup_across (iter_portions U ds) = false.
Proof. exact no_dup_across_portions. Qed.
Print Assumptions C14_namespace_first_module_wins.

(* ... and never a file from inside a folder in which a yielded __init__ module (not a stub) of ANOTHER portion lives,
   be that portion earlier or later, at any depth (the shapes of the former findings F3 and F10: for CPython a
   regular sub-package is searched in its own directory only). *)
Theorem C14_namespace_regular_subpackage_shadows : forall U ds, shadow_violation (iter_portions U ds) = false.
Proof. exact no_shadow_violation. Qed.
Print Assumptions C14_namespace_regular_subpackage_shadows.

(* Loaded => importable, regular packages of any depth (the positive half of the property).
   D is the package directory, L0 its listing, top its __init__ file; the entries are the ones iter_submodules yields
   for it, in its order ([ylist] over [walk]).  Whatever the static loader puts at a dotted name k below the package
   is the file CPython's import system resolves k to from the package's __path__ (module file or package __init__), or
   it is a stub and CPython finds no regular module there -- provided the package tree is in source form (no compiled
   file names, no pkgutil-style declaration).  No hypothesis about files claiming one module name is left: the shape
   of F1 went with the repair of _get_or_create_parent_module, that of F5 with the repair of iter_submodules, and a
   module file beside the package of the same name loses against it in Griffe (files first, [C14_walk_files_first])
   as it does in CPython. *)
Theorem C14_loaded_importable_regular :
  forall U D L0 top k f,
  listing_at U D = Some L0 -> deep_nodup L0 ->
  (forall q Lq, get_node L0 q = Some (Dir Lq) ->
     (forall n s, In s compiled_suffixes -> has_file (n ++ s)%string Lq = false) /\
     (forall ns pth, lookup_entry "__init__.py" Lq = Some (File ns pth) -> ns = false)) ->
  lookup_m k (run top (depth_sort (flat_map (ylist D) (walk [] (Dir L0))))) = Some (MFile f) -> k <> [] ->
  (forall c, In c k -> c <> "" /\ c <> "__init__" /\ c <> "__pycache__") ->
  agrees (MFile f) (py_import U [D] k) = true.
Proof. exact loaded_importable_regular. Qed.
Print Assumptions C14_loaded_importable_regular.

(* The same on the model's own static load of a regular package found at (i, dirc ++ ["__init__.py"]), with the
   hypotheses in decidable form ([in_domain], evaluated by the extracted model on every generated layout at run time). *)
Theorem C14_loaded_importable_regular_checked :
  forall U i dirc st M,
  in_domain U i dirc = true ->
  load_found false U (FPkg (i, dirc ++ ["__init__.py"]) st) = LOk M ->
  forall k f, lookup_m k M = Some (MFile f) -> key_okb k = true ->
  agrees (MFile f) (py_import U [(i, dirc)] k) = true.
Proof. exact loaded_importable_regular_checked. Qed.
Print Assumptions C14_loaded_importable_regular_checked.

(* Static loading is total (F4 repaired: dot-files with a module extension are skipped): for every layout, search
   path list and name, the only error the model's load can end in is reading a DIRECTORY that is called like the
   package's module file (x.py/); in particular never ValueError and never OutOfFuel. *)
Theorem C14_load_total : forall insp U sps name e, load insp U sps name = LErr e -> e = "LoadingError".
Proof. exact load_total. Qed.
Print Assumptions C14_load_total.

(* By name or by path.  GriffeLoader.load(Path) computes a module name and a top-level name from the path
   (finder._module_name_path, finder._top_module_name: both in the model), loads the package of that NAME on the search
   paths and looks the module name up.  For the path of a top-level directory of any (possibly .pth-added) search
   directory -- and for the path of its __init__ file -- the result is the result of loading by name, whichever search
   directory the package is finally found in. *)
Theorem C14_by_path_eq_by_name :
  forall U sps i name L,
  In i (g_paths U sps) -> node_at U (i, [name]) = Some (Dir L) ->
  load_by_path U sps (i, [name]) = BPLoaded name (load false U sps name).
Proof. exact by_path_eq_by_name. Qed.
Print Assumptions C14_by_path_eq_by_name.

Theorem C14_by_init_path_eq_by_name :
  forall U sps i name fn ns pth,
  In i (g_paths U sps) -> node_at U (i, [name; fn]) = Some (File ns pth) -> pl_stem fn = "__init__" ->
  load_by_path U sps (i, [name; fn]) = BPLoaded name (load false U sps name).
Proof. exact by_init_path_eq_by_name. Qed.
Print Assumptions C14_by_init_path_eq_by_name.

(* Histories.  A process with several GriffeLoaders (each with its finder: search paths, memo of directory listings,
   collection of loaded packages -- the mutable fields the code has, by the census regenerated from the source) serves
   any sequence of requests: create a loader, load by name, load by path.  Every answer of every history is the answer
   of the stateless reference [ref_answer], which depends only on the search paths the addressed loader was created
   with and on the requests BY PATH addressed to that same loader (a path below a directory that is not searched adds
   that directory, by design): no memo, no other loader, no earlier request by name matters. *)
Theorem C14_history_independent :
  forall U rs, snd (run_requests U [] rs) = ref_answers U [] rs.
Proof. exact history_independent. Qed.
Print Assumptions C14_history_independent.

(* In particular: a loader created with search paths sps that has since served only requests by name answers a request
   by name exactly like a fresh process, whatever the other loaders of the process were asked. *)
Theorem C14_request_by_name_is_fresh :
  forall U hist1 hist2 id sps name,
  no_path_for id hist2 = true -> no_new_for id hist2 = true ->
  ref_answer U (ref_paths U (hist1 ++ RNew id sps :: hist2) id None) (RName id name) = ALoaded (load false U sps name).
Proof. exact fresh_after_names_only. Qed.
Print Assumptions C14_request_by_name_is_fresh.
