From Verif Require Import Lib.Sexp Model.C14_finder Proofs.C14_finder.
