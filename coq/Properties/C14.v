(* C14 — Module discovery matches the import system, independent of listing order.
   Property theorems only: each closed by [exact] of a lemma from Proofs/, followed by Print Assumptions.
   Model: Model/C14_finder.v (finder.py find_package / iter_submodules / submodules / .pth extension, loader.py submodule
   attachment, in static mode) and the authority (CPython's FileFinder/PathFinder, pkgutil, site). *)
From Coq Require Import List ZArith String Ascii Bool Arith.
From Verif Require Import Lib.Sexp Model.C14_finder Proofs.C14_finder.
Import ListNotations.
Open Scope string_scope. Open Scope list_scope.

(* Top-level precedence: for every universe of directories and every search-path list, find_package answers what
   CPython's PathFinder answers (package directory with __init__.py > module file > namespace portions; the first
   regular hit wins, namespace portions are collected in search-path order) -- provided the search directories offer
   the name only in source form ([top_ok]: no compiled module/__init__, no stub-only package, no pkgutil declaration). *)
Theorem C14_find_eq_cpython :
  forall U name paths,
  forallb (top_ok U name) paths = true ->
  find_agree (g_find U name paths []) (py_find U name (top_dirs paths)).
Proof. exact find_eq_cpython. Qed.
Print Assumptions C14_find_eq_cpython.

(* ... and each of the three exclusions is necessary. *)
Theorem C14_find_eq_refuted_outside_scope :
  (exists U, ~ find_agree (g_find U "aa" [0] []) (py_find U "aa" (top_dirs [0]))) /\
  (exists U, g_find U "aa" [0; 1] [] = FPkg (0, ["aa"; "__init__.pyi"]) None /\ py_find U "aa" (top_dirs [0; 1]) = PyMod (1, ["aa.py"])) /\
  (exists U, g_find U "aa" [0] [] = FNs [(0, ["aa"])] /\ exists l, py_find U "aa" (top_dirs [0]) = PyPkg (0, ["aa"; "__init__.py"]) l).
Proof. exact find_eq_refuted_outside_scope. Qed.
Print Assumptions C14_find_eq_refuted_outside_scope.

(* find_package does not depend on the order in which any directory is listed. *)
Theorem C14_find_order_invariant :
  forall U U' name paths nsacc,
  perm_universe U U' -> wf_universe U ->
  g_find U name paths nsacc = g_find U' name paths nsacc.
Proof. exact find_order_invariant. Qed.
Print Assumptions C14_find_order_invariant.

(* The loader's fold over ANY depth-sorted list of submodule entries below a regular top module, key by key:
   a dotted name is present iff every proper prefix of it is taken by a package (the merge of the prefix's candidate
   files is an __init__ module) and it has a loadable candidate itself; it then holds the merge of its candidates in
   list order; no namespace module ever appears below a regular package. *)
Theorem C14_loaded_characterisation :
  forall top E,
  sorted E -> (forall e, In e E -> e_parts e <> []) ->
  all_files (run top E) /\ forall k, lookup_m k (run top E) = spec_lookup top E k.
Proof. exact run_spec. Qed.
Print Assumptions C14_loaded_characterisation.

(* Listing-order invariance, regular packages of any depth: permuting every directory listing of the universe
   (os.walk's files-before-directories contract is part of [walk]) leaves the static load of the package unchanged
   (same error, or the same module at every dotted name), provided no two yielded files claim one module name other
   than a module and its stubs ([no_clash], decidable: [no_clashb]). *)
Theorem C14_listing_order_invariant_regular :
  forall U U' name paths,
  perm_universe U U' -> wf_universe U ->
  (forall p st es, g_find U name paths [] = FPkg p st -> iter_regular U p = Ok es -> no_clash es) ->
  (forall ds, g_find U name paths [] <> FNs ds) ->
  same_tree (load_found false U (g_find U name paths [])) (load_found false U' (g_find U' name paths [])).
Proof. exact load_order_invariant_regular. Qed.
Print Assumptions C14_listing_order_invariant_regular.

(* The no_clash hypothesis is needed (finding F5). *)
Theorem C14_listing_order_refuted_F5 :
  exists U U' sps name, perm_universe U U' /\ wf_universe U /\ any_listing gapL_F5 U = true /\
                        ~ same_tree (load false U sps name) (load false U' sps name).
Proof. exact listing_order_refuted_F5. Qed.
Print Assumptions C14_listing_order_refuted_F5.

Theorem C14_paths_eq_refuted_F6 : gapU_F6 U_F6 = true /\ g_paths U_F6 [0] = Some [0] /\ py_paths U_F6 [0] = [0; 1].
Proof. exact paths_eq_refuted_F6. Qed.
Print Assumptions C14_paths_eq_refuted_F6.

Theorem C14_paths_eq_refuted_F7 : gapU_F7 U_F7 = true /\ g_paths U_F7 [0] = Some [0; 1; 2] /\ py_paths U_F7 [0] = [0; 1].
Proof. exact paths_eq_refuted_F7. Qed.
Print Assumptions C14_paths_eq_refuted_F7.

(* "Every loaded module is importable from that file (or stub-only)" is false of namespace packages spread over
   several portions: one witness per remaining finding, each satisfying exactly its own gap predicate. *)
Theorem C14_namespace_first_portion_wins_refuted_F3 :
  exists U sps name, gaps U sps name = ["F3"] /\ loaded_importable U sps name = false.
Proof. exact namespace_first_portion_wins_refuted_F3. Qed.
Print Assumptions C14_namespace_first_portion_wins_refuted_F3.

Theorem C14_namespace_first_portion_wins_refuted_F8 :
  exists U sps name, gaps U sps name = ["F8"] /\ loaded_importable U sps name = false.
Proof. exact namespace_first_portion_wins_refuted_F8. Qed.
Print Assumptions C14_namespace_first_portion_wins_refuted_F8.

Theorem C14_namespace_first_portion_wins_refuted_F10 :
  exists U sps name, gaps U sps name = ["F10"] /\ loaded_importable U sps name = false.
Proof. exact namespace_first_portion_wins_refuted_F10. Qed.
Print Assumptions C14_namespace_first_portion_wins_refuted_F10.

(* The .pth loop of _extend_from_pth_files iterates over the list it appends to; the model runs it with explicit
   fuel.  The fuel g_paths passes always suffices, so the model's OutOfFuel result is never produced, for any layout. *)
Theorem C14_search_path_extension_fuel_sufficient : forall U sps, g_paths U sps <> None.
Proof. exact g_paths_fuel_sufficient. Qed.
Print Assumptions C14_search_path_extension_fuel_sufficient.

Theorem C14_load_never_out_of_fuel : forall insp U sps name, load insp U sps name <> LErr "OutOfFuel".
Proof. exact load_never_out_of_fuel. Qed.
Print Assumptions C14_load_never_out_of_fuel.

(* Loaded => importable, regular packages of any depth (the positive half of the property, modulo known findings).
   D is the package directory, L0 its listing, es the set of entries iter_submodules yields for it, top its
   __init__ file.  Whatever the static loader puts at a dotted name k below the package is the file CPython's
   import system resolves k to from the package's __path__ (module file or package __init__), or it is a stub and
   CPython finds no regular module there -- provided the package tree is in source form (no compiled file names, no
   pkgutil-style declaration) and no two files claim one module name (no_clash, cf. F5).  The former exclusion of
   the shape of finding F1 (a module file next to a same-named directory) is gone with the repair of
   _get_or_create_parent_module: a plain module is no longer accepted as a parent. *)
Theorem C14_loaded_importable_modulo_known :
  forall U D L0 es top k f,
  listing_at U D = Some L0 -> deep_nodup L0 ->
  (forall q Lq, get_node L0 q = Some (Dir Lq) ->
     (forall n s, In s compiled_suffixes -> has_file (n ++ s)%string Lq = false) /\
     (forall ns pth, lookup_entry "__init__.py" Lq = Some (File ns pth) -> ns = false)) ->
  (forall e, In e es <-> exists rel, In rel (walk [] (Dir L0)) /\ yields D rel e) ->
  no_clash es ->
  lookup_m k (run top (depth_sort es)) = Some (MFile f) -> k <> [] ->
  (forall c, In c k -> c <> "" /\ c <> "__init__" /\ c <> "__pycache__") ->
  agrees (MFile f) (py_import U [D] k) = true.
Proof. exact loaded_importable_regular. Qed.
Print Assumptions C14_loaded_importable_modulo_known.

(* The same on the model's own static load of a regular package found at (i, dirc ++ ["__init__.py"]), with the
   hypotheses in decidable form ([in_domain], evaluated by the extracted model on every generated layout at run time). *)
Theorem C14_loaded_importable_regular_checked :
  forall U i dirc st M,
  in_domain U i dirc = true ->
  load_found false U (FPkg (i, dirc ++ ["__init__.py"]) st) = LOk M ->
  forall k f, lookup_m k M = Some (MFile f) -> key_okb k = true ->
  agrees (MFile f) (py_import U [(i, dirc)] k) = true.
Proof. exact loaded_importable_regular_checked. Qed.
Print Assumptions C14_loaded_importable_regular_checked.

(* Static loading is total (F4 repaired: dot-files with a module extension are skipped): for every layout, search
   path list and name, the only error the model's load can end in is reading a DIRECTORY that is called like the
   package's module file (x.py/); in particular never ValueError and never OutOfFuel. *)
Theorem C14_load_total : forall insp U sps name e, load insp U sps name = LErr e -> e = "LoadingError".
Proof. exact load_total. Qed.
Print Assumptions C14_load_total.
