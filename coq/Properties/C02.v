(* C02 -- Function signatures equal CPython's view of the same definition.
   Property theorems only: each closed by [exact] of a lemma from Proofs/, followed by Print Assumptions. *)
From Coq Require Import List ZArith String Bool Arith.
From Verif Require Import Lib.Sexp Model.C02_kinds Gen.C02_tables Model.C02_params Model.C02_container Model.C02_scope Model.C02_tree Model.C02_flow Model.C02_multi
  Proofs.C02_params Proofs.C02_container Proofs.C02_scope Proofs.C02_tree Proofs.C02_flow Proofs.C02_multi.
Import ListNotations.
Open Scope list_scope. Open Scope nat_scope.

(* ===== get_parameters (over the constants regenerated from parameters.py / enumerations.py) ===== *)

(* Names, order, kinds, annotation, default presence and WHICH default: Griffe's list is CPython's, for every
   mix and every length of positional-only / positional-or-keyword / variadic / keyword-only parameters. *)
Theorem C02_parameters_eq_cpython :
  forall a, wf a = true -> get_parameters a = Ok (cpython_signature a).
Proof. exact parameters_eq_cpython. Qed.
Print Assumptions C02_parameters_eq_cpython.

(* The inputs the real code rejects (never produced by ast.parse): more defaults than positional parameters ... *)
Theorem C02_too_many_defaults_rejected :
  forall a, List.length (posonly a) + List.length (args a) < List.length (defaults a) ->
  get_parameters a = Err "TypeError"%string.
Proof. exact too_many_defaults_rejected. Qed.
Print Assumptions C02_too_many_defaults_rejected.

(* ... and more kw_defaults than keyword-only parameters. *)
Theorem C02_too_many_kw_defaults_rejected :
  forall a, List.length (defaults a) <= List.length (posonly a) + List.length (args a) ->
  List.length (kwonly a) < List.length (kw_defaults a) ->
  get_parameters a = Err "AttributeError"%string.
Proof. exact too_many_kw_defaults_rejected. Qed.
Print Assumptions C02_too_many_kw_defaults_rejected.

Theorem C02_required_iff_no_default :
  forall a i, wf a = true -> i < List.length (posonly a) + List.length (args a) ->
  option_map required (nth_error (cpython_signature a) i) =
  Some (i <? (List.length (posonly a) + List.length (args a)) - List.length (defaults a)).
Proof. exact required_iff_no_default. Qed.
Print Assumptions C02_required_iff_no_default.

(* The regenerated enum: five members, five distinct values (no Enum aliasing between kinds). *)
Theorem C02_kind_values_distinct :
  map fst kind_values = [PO; PK; VP; KO; VK] /\ NoDup (map snd kind_values).
Proof. exact kind_values_distinct. Qed.
Print Assumptions C02_kind_values_distinct.

(* ===== the container (lookup by name / index, deletion, insertion) ===== *)

(* Every operation sequence from every initial content behaves like a plain abstract list: same result or
   exception at every step, same final content. *)
Theorem C02_container_refines_list :
  forall os l, run_ops c_step l os = run_ops a_step l os.
Proof. exact container_refines_list. Qed.
Print Assumptions C02_container_refines_list.

(* Lookup by name returns the FIRST element in iteration order carrying that name (stars stripped from the key),
   for every list -- duplicates included. *)
Theorem C02_get_by_name_first_match :
  forall s l p, c_getitem (KStr s) l = Ok p <->
  exists i, nth_error l i = Some p /\ pname p = lstrip_star s /\
            (forall j q, j < i -> nth_error l j = Some q -> pname q <> lstrip_star s).
Proof. exact get_by_name_first_match. Qed.
Print Assumptions C02_get_by_name_first_match.

(* Name and index agree: the name's position is a valid index holding the same element; an absent name raises
   KeyError and is not `in` the container. *)
Theorem C02_get_by_name_eq_get_by_index :
  forall s l, match find_index (lstrip_star s) l with
  | Some j => c_getitem (KStr s) l = c_getitem (KInt (Z.of_nat j)) l /\ j < List.length l
  | None => c_getitem (KStr s) l = Err "KeyError"%string /\ c_contains s l = false
  end.
Proof. exact get_by_name_eq_get_by_index. Qed.
Print Assumptions C02_get_by_name_eq_get_by_index.

Theorem C02_contains_iff_get :
  forall s l, c_contains s l = true <-> exists p, c_getitem (KStr s) l = Ok p.
Proof. exact contains_iff_get. Qed.
Print Assumptions C02_contains_iff_get.

Theorem C02_get_by_index_range :
  forall i l, (exists p, c_getitem (KInt i) l = Ok p) <-> (- Z.of_nat (List.length l) <= i < Z.of_nat (List.length l))%Z.
Proof. exact get_by_index_range. Qed.
Print Assumptions C02_get_by_index_range.

Theorem C02_get_negative_index :
  forall i l, (0 <= i < Z.of_nat (List.length l))%Z ->
  c_getitem (KInt (i - Z.of_nat (List.length l))) l = c_getitem (KInt i) l.
Proof. exact get_negative_index. Qed.
Print Assumptions C02_get_negative_index.

(* A successful deletion (by name or index) removes exactly one position; earlier positions keep their element,
   later ones move down by one ... *)
Theorem C02_delitem_shifts_positions :
  forall k l l', c_delitem k l = Ok l' ->
  exists j, deleted_position k l = Some j /\ S (List.length l') = List.length l /\
    forall j', nth_error l' j' = if j' <? j then nth_error l j' else nth_error l (S j').
Proof. exact delitem_shifts_positions. Qed.
Print Assumptions C02_delitem_shifts_positions.

(* ... and every lookup by a name other than the deleted element's still answers the same (every list). *)
Theorem C02_delitem_keeps_other_names :
  forall k l l' t, c_delitem k l = Ok l' ->
  (forall j p, deleted_position k l = Some j -> nth_error l j = Some p -> pname p <> lstrip_star t) ->
  c_getitem (KStr t) l' = c_getitem (KStr t) l /\ c_contains t l' = c_contains t l.
Proof. exact delitem_keeps_other_names. Qed.
Print Assumptions C02_delitem_keeps_other_names.

Theorem C02_delitem_by_name_fails_iff_absent :
  forall s l, c_delitem (KStr s) l = Err "KeyError"%string <-> c_contains s l = false.
Proof. exact delitem_by_name_fails_iff_absent. Qed.
Print Assumptions C02_delitem_by_name_fails_iff_absent.

(* With distinct names a deleted name is gone; the code itself does not enforce distinct names
   (constructor, setitem), and without them the statement is false. *)
Theorem C02_delitem_by_name_then_absent :
  forall s l l', nodupb (names_of l) = true -> c_delitem (KStr s) l = Ok l' -> c_contains s l' = false.
Proof. exact delitem_by_name_then_absent. Qed.
Print Assumptions C02_delitem_by_name_then_absent.

Theorem C02_delitem_by_name_then_absent_needs_nodup :
  exists l l', c_delitem (KStr "a") l = Ok l' /\ c_contains "a" l' = true.
Proof. exact delitem_by_name_then_absent_needs_nodup. Qed.
Print Assumptions C02_delitem_by_name_then_absent_needs_nodup.

(* Distinct names are an invariant of del, add (unstarred name) and setitem under the element's own name. *)
Theorem C02_delitem_keeps_nodup :
  forall k l l', nodupb (names_of l) = true -> c_delitem k l = Ok l' -> nodupb (names_of l') = true.
Proof. exact delitem_keeps_nodup. Qed.
Print Assumptions C02_delitem_keeps_nodup.

Theorem C02_add_spec :
  forall p l, (c_contains (pname p) l = true /\ c_add p l = Err "ValueError"%string) \/
              (c_contains (pname p) l = false /\ c_add p l = Ok (l ++ [p])).
Proof. exact add_spec. Qed.
Print Assumptions C02_add_spec.

Theorem C02_add_keeps_nodup :
  forall p l l', no_star (pname p) = true -> nodupb (names_of l) = true -> c_add p l = Ok l' ->
  nodupb (names_of l') = true /\ c_getitem (KStr (pname p)) l' = Ok p.
Proof. exact add_keeps_nodup. Qed.
Print Assumptions C02_add_keeps_nodup.

Theorem C02_setitem_by_name_then_get :
  forall s q l l', c_setitem (KStr s) q l = Ok l' -> pname q = lstrip_star s ->
  c_getitem (KStr s) l' = Ok q /\
  List.length l' = (if c_contains s l then List.length l else S (List.length l)).
Proof. exact setitem_by_name_then_get. Qed.
Print Assumptions C02_setitem_by_name_then_get.

Theorem C02_setitem_by_name_keeps_nodup :
  forall s q l l', nodupb (names_of l) = true -> pname q = lstrip_star s -> c_setitem (KStr s) q l = Ok l' ->
  nodupb (names_of l') = true.
Proof. exact setitem_by_name_keeps_nodup. Qed.
Print Assumptions C02_setitem_by_name_keeps_nodup.

(* Reachable states in which a stored element cannot be found under its key (the code does not check them). *)
Theorem C02_setitem_name_mismatch_unfindable :
  exists s q l l', c_setitem (KStr s) q l = Ok l' /\ c_getitem (KStr s) l' = Err "KeyError"%string.
Proof. exact setitem_name_mismatch_unfindable. Qed.
Print Assumptions C02_setitem_name_mismatch_unfindable.

Theorem C02_add_starred_name_unfindable :
  exists p l', c_add p [] = Ok l' /\ c_getitem (KStr (pname p)) l' = Err "KeyError"%string /\ c_add p l' = Ok (l' ++ [p]).
Proof. exact add_starred_name_unfindable. Qed.
Print Assumptions C02_add_starred_name_unfindable.

(* Bound-method view: dropping the first parameter of what Griffe reports for a definition = CPython's signature
   of the bound method / classmethod; the rest is found by name as in CPython's mapping; the dropped one is gone. *)
Theorem C02_bound_view_of_definition :
  forall a ps, wf a = true -> get_parameters a = Ok ps ->
  griffe_bound ps = cpython_bound (cpython_signature a) /\
  (forall b, griffe_bound ps = Ok b ->
     (forall n, no_star n = true ->
        c_getitem (KStr n) b = match cpython_by_name n b with Some p => Ok p | None => Err "KeyError"%string end) /\
     (forall p r n, ps = p :: r -> b = r -> pname p <> lstrip_star n ->
        c_getitem (KStr n) b = c_getitem (KStr n) ps) /\
     (forall p r, ps = p :: r -> b = r -> nodupb (names_of ps) = true -> no_star (pname p) = true ->
        c_contains (pname p) b = false)).
Proof. exact bound_view_of_definition. Qed.
Print Assumptions C02_bound_view_of_definition.

(* ===== handle_function: overloads, properties, accessors, redefinitions ===== *)

(* Names do not interfere, whatever the interleaving: the member, the pending overloads and the outcomes of the
   definitions of one name are those of the body restricted to that name. *)
Theorem C02_scope_independence :
  forall n its s1 s2,
  tracks s1 = tracks s2 -> mem n s1 = mem n s2 -> buf n s1 = buf n s2 ->
  mem n (visit_items its s1) = mem n (visit_items (filter (named n) its) s2) /\
  buf n (visit_items its s1) = buf n (visit_items (filter (named n) its) s2) /\
  log_of n its (visit_log its s1) = visit_log (filter (named n) its) s2.
Proof. exact scope_independence. Qed.
Print Assumptions C02_scope_independence.

(* Which outcome a definition has. *)
Theorem C02_outcome_cases :
  forall s f, let o := snd (handle_function s f) in
  (existsb is_property (fdecos f) = true -> o = OProp) /\
  (existsb is_property (fdecos f) = false -> existsb is_overload (fdecos f) = true ->
     o = if tracks s then OOverload else ODropped) /\
  (existsb is_property (fdecos f) = false -> existsb is_overload (fdecos f) = false ->
     match base_property s (fname f) (fdecos f), mem (fname f) s with
     | Some true, Some (MProp id _ _) => o = OSetter id
     | Some false, Some (MProp id _ _) => o = ODeleter id
     | _, _ => o = OImpl (if tracks s then buf (fname f) s else [])
     end).
Proof. exact outcome_cases. Qed.
Print Assumptions C02_outcome_cases.

(* Every implementation, wherever it stands in a module/class body, carries exactly the overloads of its name
   declared since the previous implementation of that name, in source order (a redefinition starts afresh). *)
Theorem C02_impl_overloads_since_last_impl :
  forall pre f post s ovs, tracks s = true ->
  nth_error (visit_log (pre ++ IDef f :: post) s) (List.length pre) = Some (OImpl ovs) ->
  ovs = pending (fname f) (buf (fname f) s) (combine pre (visit_log pre s)).
Proof. exact impl_overloads_since_last_impl. Qed.
Print Assumptions C02_impl_overloads_since_last_impl.

Theorem C02_leftover_overloads :
  forall n its s, tracks s = true ->
  buf n (visit_items its s) = pending n (buf n s) (combine its (visit_log its s)).
Proof. exact leftover_overloads. Qed.
Print Assumptions C02_leftover_overloads.

Theorem C02_function_scope_keeps_no_overloads :
  forall its s, tracks s = false ->
  buffer (visit_items its s) = buffer s /\
  (forall o, In o (visit_log its s) -> o <> OOverload /\ forall ovs, o = OImpl ovs -> ovs = []).
Proof. exact function_scope_keeps_no_overloads. Qed.
Print Assumptions C02_function_scope_keeps_no_overloads.

Theorem C02_overloads_attach_in_order :
  forall n its impl s,
  tracks s = true -> buf n s = [] ->
  (forall f, In (IDef f) its -> fname f = n -> plain_overload f) ->
  (forall i m, In (IBind i m) its -> m <> n) ->
  fname impl = n ->
  plain_impl (visit_items its s) impl ->
  let s' := visit_items (its ++ [IDef impl]) s in
  mem n s' = Some (MFunc (fid impl) (map iid (filter (named n) its))) /\ buf n s' = [].
Proof. exact overloads_attach_in_order. Qed.
Print Assumptions C02_overloads_attach_in_order.

Theorem C02_setter_deleter_keep_property :
  forall s f id st dl b,
  mem (fname f) s = Some (MProp id st dl) ->
  existsb is_property (fdecos f) = false -> existsb is_overload (fdecos f) = false ->
  base_property s (fname f) (fdecos f) = Some b ->
  let s' := step s (IDef f) in
  mem (fname f) s' = Some (if b then MProp id (Some (fid f)) dl else MProp id st (Some (fid f))) /\
  snd (handle_item s (IDef f)) = (if b then OSetter id else ODeleter id) /\
  (forall m, m <> fname f -> mem m s' = mem m s) /\
  buffer s' = buffer s.
Proof. exact setter_deleter_keep_property. Qed.
Print Assumptions C02_setter_deleter_keep_property.

(* A definition that re-binds the name whatever it was bound to (a property, an implementation without own-name
   accessor decorator, a class/import) makes the rest of the body independent of what the name was before;
   only pending overloads carry over. *)
Theorem C02_redefinition_resets :
  forall n its s1 s2,
  tracks s1 = tracks s2 -> buf n s1 = buf n s2 -> rebinds_first n its = true ->
  mem n (visit_items its s1) = mem n (visit_items its s2) /\
  buf n (visit_items its s1) = buf n (visit_items its s2) /\
  log_of n its (visit_log its s1) = log_of n its (visit_log its s2).
Proof. exact redefinition_resets. Qed.
Print Assumptions C02_redefinition_resets.

(* if/else: the visitor walks both branches; when the first leaves no pending overloads of the name and the second
   re-binds it first, the name ends exactly as the second branch alone leaves it (= what CPython runs). *)
Theorem C02_branch_redefinition :
  forall n pre post s,
  buf n (visit_items pre s) = buf n s -> rebinds_first n post = true ->
  mem n (visit_items (pre ++ post) s) = mem n (visit_items post s) /\
  buf n (visit_items (pre ++ post) s) = buf n (visit_items post s) /\
  log_of n post (visit_log post (visit_items pre s)) = log_of n post (visit_log post s).
Proof. exact branch_redefinition. Qed.
Print Assumptions C02_branch_redefinition.

(* Agreement with CPython's execution of the same module/class body (namespace, typing's overload registry,
   property objects), for every body CPython executes without error. *)
Theorem C02_bodies_agree_with_cpython :
  forall its c, cpy_exec its (mkC [] []) = Ok c ->
  let s0 := mkScope true [] [] in
  forall n, agrees n (visit_items its s0) c (attached n (combine its (visit_log its s0))).
Proof. exact bodies_agree_with_cpython. Qed.
Print Assumptions C02_bodies_agree_with_cpython.

Theorem C02_overloads_eq_get_overloads :
  forall its c n i ovs, cpy_exec its (mkC [] []) = Ok c ->
  let s0 := mkScope true [] [] in
  lookup n (ns c) = Some (CFunc i) ->
  mem n (visit_items its s0) = Some (MFunc i ovs) ->
  attached n (combine its (visit_log its s0)) = ovs -> buf n (visit_items its s0) = [] ->
  reg n c = ovs.
Proof. exact overloads_eq_get_overloads. Qed.
Print Assumptions C02_overloads_eq_get_overloads.

(* The regenerated decorator tables: a callable path plays at most one role. *)
Theorem C02_classify_tables_disjoint :
  forallb (fun p => negb (in_strings p property_paths)) overload_paths = true /\
  forallb (fun p => match rsplit_dot p with
                    | Some (_, last) => match lookup last accessor_names with Some _ => false | None => true end
                    | None => true end) (overload_paths ++ property_paths) = true.
Proof. exact classify_tables_disjoint. Qed.
Print Assumptions C02_classify_tables_disjoint.

(* The decision ladder regenerated from visitor.py is: property, then overload, then accessor of the current
   property, else implementation (which takes and deletes the pending overloads of its name). *)
Theorem C02_handle_function_ladder :
  forall s f, handle_function s f =
  if existsb is_property (fdecos f) then (set_member s (fname f) (MProp (fid f) None None), OProp)
  else if existsb is_overload (fdecos f) then
    if tracks s then
      let old := match lookup (fname f) (buffer s) with Some l => l | None => [] end in
      (mkScope (tracks s) (members s) (assign (fname f) (old ++ [fid f]) (buffer s)), OOverload)
    else (s, ODropped)
  else match base_property s (fname f) (fdecos f), lookup (fname f) (members s) with
  | Some true, Some (MProp id _ d) => (set_member s (fname f) (MProp id (Some (fid f)) d), OSetter id)
  | Some false, Some (MProp id st _) => (set_member s (fname f) (MProp id st (Some (fid f))), ODeleter id)
  | _, _ =>
      if tracks s then
        match lookup (fname f) (buffer s) with
        | Some (x :: l) =>
            (mkScope (tracks s) (assign (fname f) (MFunc (fid f) (x :: l)) (members s)) (remove_key (fname f) (buffer s)),
             OImpl (x :: l))
        | _ => (set_member s (fname f) (MFunc (fid f) []), OImpl [])
        end
      else (set_member s (fname f) (MFunc (fid f) []), OImpl [])
  end.
Proof. exact handle_function_eq. Qed.
Print Assumptions C02_handle_function_ladder.

(* ===== several scopes in one module ===== *)

(* The visitor's single traversal -- one mutable current scope, the parents on a stack -- leaves, for every tree of
   nested class bodies, exactly the independent per-scope visits: the starting scope sees its own items with classes
   as binders, the parent chain is restored, every class body is a visit from an empty class scope. *)
Theorem C02_traversal_is_compositional :
  forall l path sc log st fin,
  run_events (events l) (mkM (mkFrame path sc log) st fin) =
  mkM (mkFrame path (visit_items (direct_items l) sc) (log ++ visit_log (direct_items l) sc)) st (fin ++ sub_frames path l).
Proof. exact traversal_is_compositional. Qed.
Print Assumptions C02_traversal_is_compositional.

Theorem C02_class_body_context_free :
  forall id n body path pre post,
  In (scope_frame (child path n) (mkScope true [] []) body) (sub_frames path (pre ++ SClass id n body :: post)).
Proof. exact class_body_context_free. Qed.
Print Assumptions C02_class_body_context_free.

(* ===== flow-insensitive visit vs executed statements ===== *)

(* The visitor walks every branch; CPython runs the live statements.  Whenever the decidable check [dead_ok]
   (evaluated by the harness with the extracted model on every generated body) accepts a tagged body, the dead
   statements are invisible: same member and pending overloads for every name, same outcome for every live definition. *)
Theorem C02_dead_code_invisible :
  forall its s, dead_ok [] its s = true ->
  (forall n, mem n (visit_items (all_items its) s) = mem n (visit_items (live_items its) s) /\
             buf n (visit_items (all_items its) s) = buf n (visit_items (live_items its) s)) /\
  live_log its (visit_log (all_items its) s) = visit_log (live_items its) s.
Proof. exact dead_code_invisible. Qed.
Print Assumptions C02_dead_code_invisible.

(* ... and then Griffe's view of the WHOLE body agrees with CPython executing its live part. *)
Theorem C02_flow_insensitive_visit_agrees_with_cpython :
  forall its c, dead_ok [] its (mkScope true [] []) = true ->
  cpy_exec (live_items its) (mkC [] []) = Ok c ->
  let s0 := mkScope true [] [] in
  forall n, agrees n (visit_items (all_items its) s0) c
                   (attached n (combine (live_items its) (live_log its (visit_log (all_items its) s0)))).
Proof. exact flow_insensitive_visit_agrees_with_cpython. Qed.
Print Assumptions C02_flow_insensitive_visit_agrees_with_cpython.

(* ===== several function objects; stub-merged signatures ===== *)

(* Containers of different functions never influence one another: after any history of operations addressed to any
   of them, container j holds what its own operations alone make of it. *)
Theorem C02_containers_independent :
  forall ios st j l, nth_error st j = Some l ->
  nth_error (snd (run_multi st ios)) j = Some (snd (run_ops c_step l (ops_for j ios))).
Proof. exact containers_independent. Qed.
Print Assumptions C02_containers_independent.

(* Merging a stub signature keeps names, order, kinds and defaults of the definition, for all lists ... *)
Theorem C02_merge_keeps_shape :
  forall stub impl, map shape (merge_stub_parameters impl stub) = map shape impl.
Proof. exact merge_keeps_shape. Qed.
Print Assumptions C02_merge_keeps_shape.

(* ... and annotates every parameter as the stub annotates the parameter of that NAME, whatever lengths and orders. *)
Theorem C02_merge_is_by_name :
  forall stub impl, nodupb (names_of impl) = true -> nodupb (names_of stub) = true ->
  merge_stub_parameters impl stub = merged_spec impl stub.
Proof. exact merge_is_by_name. Qed.
Print Assumptions C02_merge_is_by_name.
