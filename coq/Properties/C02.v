(* C02 — Function signatures equal CPython's view of the same definition.
   Property theorems only: each closed by [exact] of a lemma from Proofs/, followed by Print Assumptions. *)
From Coq Require Import List ZArith String Bool Arith.
From Verif Require Import Lib.Sexp Model.C02_params Proofs.C02_params.
Import ListNotations.
Open Scope list_scope. Open Scope nat_scope.

(* Names, order, kinds, annotation, default presence and WHICH default: Griffe's list is CPython's, for every
   mix and every length of positional-only / positional-or-keyword / variadic / keyword-only parameters. *)
Theorem C02_parameters_eq_cpython :
  forall a, wf a = true -> get_parameters a = Ok (cpython_signature a).
Proof. exact parameters_eq_cpython. Qed.
Print Assumptions C02_parameters_eq_cpython.

(* The inputs the real code rejects (never produced by ast.parse): more defaults than positional parameters. *)
Theorem C02_too_many_defaults_rejected :
  forall a, List.length (posonly a) + List.length (args a) < List.length (defaults a) ->
  get_parameters a = Err "TypeError"%string.
Proof. exact too_many_defaults_rejected. Qed.
Print Assumptions C02_too_many_defaults_rejected.

Theorem C02_required_iff_no_default :
  forall a i, wf a = true -> i < List.length (posonly a) + List.length (args a) ->
  option_map required (nth_error (cpython_signature a) i) =
  Some (i <? (List.length (posonly a) + List.length (args a)) - List.length (defaults a)).
Proof. exact required_iff_no_default. Qed.
Print Assumptions C02_required_iff_no_default.

Theorem C02_overloads_attach_in_order :
  forall n fs impl s,
  buf n s = [] ->
  (forall f, In f fs -> fname f = n -> plain_overload f) ->
  fname impl = n ->
  plain_impl (visit_functions fs s) impl ->
  let s' := visit_functions (fs ++ [impl]) s in
  lookup n (members s') = Some (MFunc (fid impl) (map fid (filter (fun f => String.eqb (fname f) n) fs))) /\
  buf n s' = [].
Proof. exact overloads_attach_in_order. Qed.
Print Assumptions C02_overloads_attach_in_order.

Theorem C02_setter_deleter_keep_property :
  forall s f id st dl b,
  lookup (fname f) (members s) = Some (MProp id st dl) ->
  existsb is_property (fdecos f) = false -> existsb is_overload (fdecos f) = false ->
  base_property s (fname f) (fdecos f) = Some b ->
  let s' := handle_function s f in
  lookup (fname f) (members s') =
    Some (if b then MProp id (Some (fid f)) dl else MProp id st (Some (fid f))) /\
  (forall m, m <> fname f -> lookup m (members s') = lookup m (members s)) /\
  buffer s' = buffer s.
Proof. exact setter_deleter_keep_property. Qed.
Print Assumptions C02_setter_deleter_keep_property.
