(* C08 — JSON serialisation round-trips without loss.
   Property theorems only: each closed by [exact] of a lemma from Proofs/, followed by Print Assumptions.

   Vocabulary (Model/C08_json.v): [enc_min] = as_dict(full=False) + JSONEncoder conventions; [decode] = json.loads with
   object_hook=json_decoder (bottom-up; _load_*, _attach_parent_to_exprs); [reload] = an explicit function saying what a
   reload does to a tree (docstrings cleaned again, enum-valued expression fields become strings, every name's parent
   link reset and then re-attached on the first layer of the attached slots).
   [rep] = representation invariants of trees built by the agents (labels as a sorted set, member keys = names,
   line numbers non-zero, expressions built from the regenerated dataclass table).  Known gaps, decidable:
   [gap_doc] (re-encoding differs), [gap_expr] (a name's parent link is not restored).  [wf] = rep and not gap_doc.
   Repaired in /repo (fix: commits), hence no longer hypotheses: line numbers may be absent, file paths may be lists or
   None, members may be named `kind`/`cls`, lambda parameter kinds come back as ParameterKind, full-mode documents with
   docstrings decode. *)
From Coq Require Import List ZArith String Bool Arith.
From Verif Require Import Lib.Sexp Gen.C08_tables Model.C08_json Proofs.C08_json.
Import ListNotations.
Open Scope string_scope. Open Scope list_scope. Open Scope nat_scope.

(* Every expression Griffe can hold (any dataclass of the regenerated table, any nesting) decodes to its reload. *)
Theorem C08_expr_roundtrip :
  forall e, wf_ev e = true ->
  decode (enc_ev e) = Ok (of_ev (reload_ev e)) /\ enc_ev (reload_ev e) = enc_ev e /\ enc_ev (attach_top (reload_ev e)) = enc_ev e.
Proof. intros e H. split; [exact (expr_roundtrip e H)|]. split; [exact (enc_reload_ev e)|]. rewrite enc_attach_top. exact (enc_reload_ev e). Qed.
Print Assumptions C08_expr_roundtrip.

(* Minimal mode, every tree the agents can build (inspected or visited; regular, namespace or builtin modules): the
   document decodes, to exactly [reload t]. *)
Theorem C08_decode_enc_min : forall t, rep t = true -> decode (enc_min t) = Ok (PTree (reload t)).
Proof. exact decode_enc_min. Qed.
Print Assumptions C08_decode_enc_min.

(* ... and the reloaded tree serialises to the identical JSON unless a docstring is not a fixpoint of cleandoc. *)
Theorem C08_roundtrip_min :
  forall t, wf t = true -> exists t', decode (enc_min t) = Ok (PTree t') /\ enc_min t' = enc_min t.
Proof. exact roundtrip_min. Qed.
Print Assumptions C08_roundtrip_min.

Theorem C08_reencode_identical : forall t, rep t = true -> gap_doc t = false -> enc_min (reload t) = enc_min t.
Proof. exact reencode_identical. Qed.
Print Assumptions C08_reencode_identical.

(* Field-by-field: kinds, names, spans, docstrings, labels, parameters, expressions and alias targets agree, up to the
   parent links of names and the enum/str typing of lambda parameter kinds (what [erase] forgets). *)
Theorem C08_equiv_fields : forall t, rep t = true -> gap_doc t = false -> erase (reload t) = erase t.
Proof. exact equiv_fields. Qed.
Print Assumptions C08_equiv_fields.

(* Without the expression gap as well, the reloaded module is the original: every name keeps its parent link
   ("names resolve as before" at the level of links; resolution itself is a function of link + members). *)
Theorem C08_names_resolve_modulo_known :
  forall n ln eln doc ls ms fp,
  let t := TObj n ln eln doc ls ms (XModule fp) in
  rep t = true -> gap_doc t = false -> gap_expr t = false -> from_json (enc_min t) = Ok t.
Proof.
  intros n ln eln doc ls ms fp t Hd Hg He. unfold t in *.
  rewrite from_json_enc_min by assumption. f_equal. apply reload_identity; assumption.
Qed.
Print Assumptions C08_names_resolve_modulo_known.

(* Full mode.  The derived values (file paths relative to the working directory / the package, parsed sections) are a
   parameter F of the encoder; [finfo_ok]: they are JSON that decodes (parsed sections are dicts with a `kind` that is not
   an object kind and no `name`).  For every such F a full document decodes to the same tree as the minimal one ... *)
Theorem C08_full_decode :
  forall F, (forall path, finfo_ok (F path)) ->
  forall t prefix j, rep t = true -> enc_full F prefix t = Ok j -> decode j = Ok (PTree (reload t)).
Proof. exact full_decode. Qed.
Print Assumptions C08_full_decode.

(* ... and, the derived values being re-derived identically (same F), the reloaded tree gives the identical full document. *)
Theorem C08_roundtrip_full :
  forall F, (forall path, finfo_ok (F path)) ->
  forall t prefix j, wf t = true -> enc_full F prefix t = Ok j ->
  exists t', decode j = Ok (PTree t') /\ enc_full F prefix t' = Ok j.
Proof. exact roundtrip_full. Qed.
Print Assumptions C08_roundtrip_full.

Theorem C08_example_full :
  let F := w_F [mkSection "text" None (JStr "Doc.")] (Some (JStr "/p/pkg/__init__.py")) in
  (forall path, finfo_ok (F path)) /\ exists j, enc_full F "" ex_tree = Ok j /\ decode j = Ok (PTree ex_tree).
Proof. exact example_full. Qed.
Print Assumptions C08_example_full.

(* Non-vacuity: a tree with every node kind satisfies every hypothesis and round-trips to itself. *)
Theorem C08_example_all_kinds :
  wf ex_tree = true /\ gap_expr ex_tree = false /\ decode (enc_min ex_tree) = Ok (PTree ex_tree).
Proof. split; [exact (proj1 example_wf)|]. split; [exact (proj2 example_wf)|exact example_roundtrip_exact]. Qed.
Print Assumptions C08_example_all_kinds.

(* ---- repaired defects: their witnesses now round-trip to themselves (objects and aliases without line numbers;
   namespace and builtin file paths; members named kind / cls / name; lambda parameter kinds) *)
Theorem C08_fixed_witnesses :
  (let t := w_module [("a", w_attr "a" None); ("al", TAlias "al" "os.al" None None)] (FPStr "/x/w.py") in
   rep t = true /\ decode (enc_min t) = Ok (PTree t)) /\
  (let t := w_module [] (FPList ["/x/w"; "/y/w"]) in rep t = true /\ decode (enc_min t) = Ok (PTree t)) /\
  (let t := w_module [] FPNone in rep t = true /\ decode (enc_min t) = Ok (PTree t)) /\
  (let t := w_module [("kind", w_attr "kind" (Some 1%Z)); ("cls", w_attr "cls" (Some 2%Z)); ("name", w_attr "name" (Some 3%Z))] (FPStr "/x/w.py") in
   rep t = true /\ decode (enc_min t) = Ok (PTree t)) /\
  (wf_slot w_lambda = true /\ decode (enc_ev w_lambda) = Ok (PExpr w_lambda) /\ slot_restored true w_lambda = true).
Proof.
  split; [exact fixed_lineno|]. split; [exact (proj1 fixed_filepath)|]. split; [exact (proj2 fixed_filepath)|].
  split; [exact fixed_memberkey|exact fixed_enum].
Qed.
Print Assumptions C08_fixed_witnesses.

(* ---- the remaining known gaps are real: computed witnesses (each replayed on the implementation by the harness) *)
Theorem C08_refuted_docstring :
  exists t t', rep t = true /\ gap_doc t = true /\ decode (enc_min t) = Ok (PTree t') /\ enc_min t' <> enc_min t.
Proof. exact refuted_docstring. Qed.
Print Assumptions C08_refuted_docstring.

Theorem C08_refuted_links_depth :
  let e := ex_sub (nm "Optional") (ex_sub (nm "List") (nm "Foo")) in
  wf_slot e = true /\ has_enum e = false /\ slot_restored true e = false /\
  attach_top (reload_ev e) = ex_sub (nm "Optional") (ex_sub (VName "List" LNone) (VName "Foo" LNone)).
Proof. exact refuted_links_depth. Qed.
Print Assumptions C08_refuted_links_depth.

Theorem C08_refuted_links_slot :
  wf_slot (nm "Foo") = true /\ slot_restored false (nm "Foo") = false /\ slot_restored true (nm "Foo") = true.
Proof. exact refuted_links_slot. Qed.
Print Assumptions C08_refuted_links_slot.

Theorem C08_refuted_links_chain :
  let e := ex_dotted "osp" "join" in
  wf_slot e = true /\ slot_restored true e = false /\
  attach_top (reload_ev e) = VNode "ExprAttribute" [("values", VList [VName "osp" LScope; VName "join" LScope])].
Proof. exact refuted_links_chain. Qed.
Print Assumptions C08_refuted_links_chain.

Theorem C08_refuted_links_other :
  wf_slot (VName "p" LOther) = true /\ slot_restored true (VName "p" LOther) = false /\
  (let e := VNode "ExprAttribute" [("values", VList [VStr "'lit'"; VName "join" LStr])] in wf_slot e = true /\ slot_restored true e = false).
Proof. exact refuted_links_other. Qed.
Print Assumptions C08_refuted_links_other.

(* serialisation itself fails only for a builtin module in full mode *)
Theorem C08_refuted_full_builtin :
  enc_full (w_F [] None) "" (w_module [] FPNone) = Err EBuiltin /\
  exists j, enc_full (w_F [] (Some (JStr "/x/w.py"))) "" (w_module [] (FPStr "/x/w.py")) = Ok j
            /\ decode j = Ok (PTree (w_module [] (FPStr "/x/w.py"))).
Proof. exact refuted_full_builtin. Qed.
Print Assumptions C08_refuted_full_builtin.
