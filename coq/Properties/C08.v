(* C08 — JSON serialisation round-trips without loss.
   Property theorems only: each closed by [exact] of a lemma from Proofs/, followed by Print Assumptions.

   Vocabulary (Model/C08_json.v): [enc_min] = as_dict(full=False) + JSONEncoder conventions; [decode] = json.loads with
   object_hook=json_decoder (bottom-up; _load_*, _attach_parent_to_exprs); [reload] = an explicit function saying what a
   reload does to a tree (docstrings cleaned again, enum-valued expression fields become strings, every name's parent
   link reset, dotted chains re-linked, and every name of every slot re-attached to the scope at any depth).
   [rep] = representation invariants of trees built by the agents (labels as a sorted set, member keys = names,
   line numbers non-zero, expressions built from the regenerated dataclass table).  Known gaps, decidable:
   [gap_doc] (re-encoding differs), [gap_expr] (a name's parent link is not restored: after the repairs of the loader
   this needs a parent that is neither the scope, nor the preceding name of a dotted chain, nor "str").  [wf] = rep and not gap_doc.
   Repaired in /repo (fix: commits), hence no longer hypotheses: line numbers may be absent, file paths may be lists or
   None, members may be named `kind`/`cls`, lambda parameter kinds come back as ParameterKind, full-mode documents with
   docstrings decode. *)
From Coq Require Import List ZArith String Ascii Bool Arith.
From Verif Require Import Lib.Sexp Gen.C08_tables Gen.C08_text_tables Model.C08_json Model.C08_full Model.C08_text Model.C08_links Model.C08_hook Model.C08_entry Proofs.C08_json Proofs.C08_full Proofs.C08_text Proofs.C08_text_tables Proofs.C08_links Proofs.C08_hook Proofs.C08_entry.
Import ListNotations.
Open Scope string_scope. Open Scope list_scope. Open Scope nat_scope.

(* Every expression Griffe can hold (any dataclass of the regenerated table, any nesting) decodes to its reload. *)
Theorem C08_expr_roundtrip :
  forall e, wf_ev e = true ->
  decode (enc_ev e) = Ok (of_ev (reload_ev e)) /\ enc_ev (reload_ev e) = enc_ev e /\ enc_ev (attach_top (reload_ev e)) = enc_ev e.
Proof. intros e H. split; [exact (expr_roundtrip e H)|]. split; [exact (enc_reload_ev e)|]. rewrite enc_attach_top. exact (enc_reload_ev e). Qed.
Print Assumptions C08_expr_roundtrip.

(* Minimal mode, every tree the agents can build (inspected or visited; regular, namespace or builtin modules): the
   document decodes, to exactly [reload t]. *)
Theorem C08_decode_enc_min : forall t, rep t = true -> decode (enc_min t) = Ok (PTree (reload t)).
Proof. exact decode_enc_min. Qed.
Print Assumptions C08_decode_enc_min.

(* ... and the reloaded tree serialises to the identical JSON unless a docstring is not a fixpoint of cleandoc. *)
Theorem C08_roundtrip_min :
  forall t, wf t = true -> exists t', decode (enc_min t) = Ok (PTree t') /\ enc_min t' = enc_min t.
Proof. exact roundtrip_min. Qed.
Print Assumptions C08_roundtrip_min.

Theorem C08_reencode_identical : forall t, rep t = true -> gap_doc t = false -> enc_min (reload t) = enc_min t.
Proof. exact reencode_identical. Qed.
Print Assumptions C08_reencode_identical.

(* Field-by-field: kinds, names, spans, docstrings, labels, parameters, expressions and alias targets agree, up to the
   parent links of names and the enum/str typing of lambda parameter kinds (what [erase] forgets). *)
Theorem C08_equiv_fields : forall t, rep t = true -> gap_doc t = false -> erase (reload t) = erase t.
Proof. exact equiv_fields. Qed.
Print Assumptions C08_equiv_fields.

(* Without the expression gap as well, the reloaded module is the original: every name keeps its parent link
   ("names resolve as before" at the level of links; resolution itself is a function of link + members). *)
Theorem C08_names_resolve_modulo_known :
  forall n ln eln doc ls ms fp,
  let t := TObj n ln eln doc ls ms (XModule fp) in
  rep t = true -> gap_doc t = false -> gap_expr t = false -> from_json (enc_min t) = Ok t.
Proof.
  intros n ln eln doc ls ms fp t Hd Hg He. unfold t in *.
  rewrite from_json_enc_min by assumption. f_equal. apply reload_identity; assumption.
Qed.
Print Assumptions C08_names_resolve_modulo_known.

(* Full mode.  The derived values (file paths relative to the working directory / the package, parsed sections) are a
   parameter F of the encoder; [finfo_ok]: they are JSON that decodes (parsed sections are dicts with a `kind` that is not
   an object kind and no `name`).  For every such F a full document decodes to the same tree as the minimal one ... *)
Theorem C08_full_decode :
  forall F, (forall path, finfo_ok (F path)) ->
  forall t prefix j, rep t = true -> enc_full F prefix t = Ok j -> decode j = Ok (PTree (reload t)).
Proof. exact full_decode. Qed.
Print Assumptions C08_full_decode.

(* ... and, the derived values being re-derived identically (same F), the reloaded tree gives the identical full document. *)
Theorem C08_roundtrip_full :
  forall F, (forall path, finfo_ok (F path)) ->
  forall t prefix j, wf t = true -> enc_full F prefix t = Ok j ->
  exists t', decode j = Ok (PTree t') /\ enc_full F prefix t' = Ok j.
Proof. exact roundtrip_full. Qed.
Print Assumptions C08_roundtrip_full.

Theorem C08_example_full :
  let F := w_F [mkSection "text" None (JStr "Doc.")] (Some (JStr "/p/pkg/__init__.py")) in
  (forall path, finfo_ok (F path)) /\ exists j, enc_full F "" ex_tree = Ok j /\ decode j = Ok (PTree ex_tree).
Proof. exact example_full. Qed.
Print Assumptions C08_example_full.

(* Non-vacuity: a tree with every node kind satisfies every hypothesis and round-trips to itself. *)
Theorem C08_example_all_kinds :
  wf ex_tree = true /\ gap_expr ex_tree = false /\ decode (enc_min ex_tree) = Ok (PTree ex_tree).
Proof. split; [exact (proj1 example_wf)|]. split; [exact (proj2 example_wf)|exact example_roundtrip_exact]. Qed.
Print Assumptions C08_example_all_kinds.

(* ---- repaired defects: their witnesses now round-trip to themselves (objects and aliases without line numbers;
   namespace and builtin file paths; members named kind / cls / name; lambda parameter kinds) *)
Theorem C08_fixed_witnesses :
  (let t := w_module [("a", w_attr "a" None); ("al", TAlias "al" "os.al" None None)] (FPStr "/x/w.py") in
   rep t = true /\ decode (enc_min t) = Ok (PTree t)) /\
  (let t := w_module [] (FPList ["/x/w"; "/y/w"]) in rep t = true /\ decode (enc_min t) = Ok (PTree t)) /\
  (let t := w_module [] FPNone in rep t = true /\ decode (enc_min t) = Ok (PTree t)) /\
  (let t := w_module [("kind", w_attr "kind" (Some 1%Z)); ("cls", w_attr "cls" (Some 2%Z)); ("name", w_attr "name" (Some 3%Z))] (FPStr "/x/w.py") in
   rep t = true /\ decode (enc_min t) = Ok (PTree t)) /\
  (wf_slot w_lambda = true /\ decode (enc_ev w_lambda) = Ok (PExpr w_lambda) /\ slot_restored w_lambda = true).
Proof.
  split; [exact fixed_lineno|]. split; [exact (proj1 fixed_filepath)|]. split; [exact (proj2 fixed_filepath)|].
  split; [exact fixed_memberkey|exact fixed_enum].
Qed.
Print Assumptions C08_fixed_witnesses.

(* ---- the remaining known gaps are real: computed witnesses (each replayed on the implementation by the harness) *)
Theorem C08_refuted_docstring :
  exists t t', rep t = true /\ gap_doc t = true /\ decode (enc_min t) = Ok (PTree t') /\ enc_min t' <> enc_min t.
Proof. exact refuted_docstring. Qed.
Print Assumptions C08_refuted_docstring.

(* repaired in /repo (8c597ee, 5995d8a, bc5643e, 47f36fc), hence no longer gaps: names below the first layer of an
   expression, names in class bases and attribute annotations, dotted names, attributes of string literals and of call
   results all come back with the links they had *)
Theorem C08_fixed_links :
  (let e := ex_sub (nm "Optional") (ex_sub (nm "List") (nm "Foo")) in wf_slot e = true /\ slot_restored e = true) /\
  (let e := ex_dotted "osp" "join" in wf_slot e = true /\ slot_restored e = true) /\
  (let e := VNode "ExprAttribute" [("values", VList [VStr "'lit'"; VName "join" LStr])] in wf_slot e = true /\ slot_restored e = true) /\
  (let e := VNode "ExprAttribute" [("values", VList [ex_call (nm "f") []; VName "res" LNone])] in wf_slot e = true /\ slot_restored e = true) /\
  (let x := XClass [nm "Foo"; ex_dotted "sub" "Foo"] [] in extra_restored x = true) /\
  (let x := XAttribute (nm "v") (ex_sub (nm "List") (nm "Foo")) in extra_restored x = true).
Proof. exact fixed_links. Qed.
Print Assumptions C08_fixed_links.

(* F11, the one remaining link gap: a name whose parent was not the scope, the preceding name or "str" (the value of an
   attribute assigned in a method is attached to the method) comes back attached to the scope, at any depth *)
Theorem C08_refuted_links_other :
  wf_slot (VName "p" LOther) = true /\ slot_restored (VName "p" LOther) = false /\
  attach_top (reload_ev (VName "p" LOther)) = VName "p" LScope /\
  (let e := ex_sub (nm "List") (VName "p" LOther) in wf_slot e = true /\ slot_restored e = false).
Proof. exact refuted_links_other. Qed.
Print Assumptions C08_refuted_links_other.

(* serialisation itself fails only for a builtin module in full mode *)
Theorem C08_refuted_full_builtin :
  enc_full (w_F [] None) "" (w_module [] FPNone) = Err EBuiltin /\
  exists j, enc_full (w_F [] (Some (JStr "/x/w.py"))) "" (w_module [] (FPStr "/x/w.py")) = Ok j
            /\ decode j = Ok (PTree (w_module [] (FPStr "/x/w.py"))).
Proof. exact refuted_full_builtin. Qed.
Print Assumptions C08_refuted_full_builtin.

(* ---- full mode with the derived values computed (Model/C08_full.v): [enc_fullD c t] is as_dict(full=True) of an object
   met in context c = (working directory, file path of the top-level package, file path of the enclosing module, dotted
   path of the parent); `path`, `filepath`, `relative_filepath`, `relative_package_filepath` and the `parsed` sections
   (no docstring parser) are functions of the serialised base fields and of the working directory alone. *)
Theorem C08_full_decode_derived :
  forall c t j, rep t = true -> enc_fullD c t = Ok j -> decode j = Ok (PTree (reload t)).
Proof. exact full_decodeD. Qed.
Print Assumptions C08_full_decode_derived.

(* the reloaded tree re-derives every full-only value identically: the same full document, from the same place *)
Theorem C08_full_derived_stable :
  forall t c, rep t = true -> gap_doc t = false -> enc_fullD c (reload t) = enc_fullD c t.
Proof. exact reencode_identical_fullD. Qed.
Print Assumptions C08_full_derived_stable.

Theorem C08_roundtrip_full_derived :
  forall c t j, wf t = true -> enc_fullD c t = Ok j -> exists t', decode j = Ok (PTree t') /\ enc_fullD c t' = Ok j.
Proof. exact roundtrip_fullD. Qed.
Print Assumptions C08_roundtrip_full_derived.

(* across the modes: the tree reloaded from the minimal document has the full document of the original *)
Theorem C08_full_from_minimal :
  forall c t t', wf t = true -> decode (enc_min t) = Ok (PTree t') -> enc_fullD c t' = enc_fullD c t.
Proof. exact full_from_minimal. Qed.
Print Assumptions C08_full_from_minimal.

Theorem C08_example_full_derived :
  (exists j, enc_fullD (root_ctx w_cwd) ex_tree = Ok j /\ decode j = Ok (PTree ex_tree)
             /\ enc_fullD (root_ctx w_cwd) ex_tree = enc_fullD (root_ctx w_cwd) (reload ex_tree)) /\
  (let m := TObj "pkg" None None (Some (mkDoc "Doc." (Some 1%Z) (Some 1%Z))) [] [] (XModule (FPStr "/p/src/pkg/__init__.py")) in
   let gi := derive (root_ctx w_cwd) m in
   g_filepath gi = Ok (JStr "/p/src/pkg/__init__.py") /\ g_relative gi = Ok (JStr "src/pkg/__init__.py")
   /\ g_relative_package gi = Ok (JStr "pkg/__init__.py") /\ g_parsed gi = [mkSection "text" None (JStr "Doc.")]).
Proof. split; [exact example_fullD|exact example_derive]. Qed.
Print Assumptions C08_example_full_derived.

(* serialisation itself fails in full mode, with the derived values computed, for a builtin module only (F4); a namespace
   package none of whose directories lies below the working directory (was F13, repaired by bb0db70) serialises with the
   absolute path of its first directory and round-trips *)
Theorem C08_fixed_full_namespace :
  enc_fullD (root_ctx w_cwd) (w_module [] FPNone) = Err EBuiltin /\
  (let t := w_module [] (FPList ["/q/ns"; "/r/ns"]) in
   rep t = true /\
   g_relative (derive (root_ctx w_cwd) t) = Ok (JStr "/q/ns") /\ g_relative (derive (root_ctx ["/"; "r"]) t) = Ok (JStr "ns") /\
   (exists j, enc_fullD (root_ctx w_cwd) t = Ok j /\ decode j = Ok (PTree t))).
Proof. split; [exact refuted_fullD_builtin|exact fixed_fullD_namespace]. Qed.
Print Assumptions C08_fixed_full_namespace.

(* ---- the text level (Model/C08_text.v): [dumps] = json.dumps with the default separators and ensure_ascii,
   [loads] = json.loads (recursive descent over the text, strict strings), strings are sequences of code points < 256 *)
Theorem C08_loads_dumps : forall j, loads (dumps j) = POk j EmptyString.
Proof. exact loads_dumps. Qed.
Print Assumptions C08_loads_dumps.

(* Module.from_json (tree.as_json()) at the level of texts *)
Theorem C08_text_decode_min : forall t, rep t = true -> loads_decode (dumps (enc_min t)) = TOk (PTree (reload t)).
Proof. exact text_decode_min. Qed.
Print Assumptions C08_text_decode_min.

Theorem C08_text_roundtrip_min : forall t, wf t = true ->
  exists t', loads_decode (dumps (enc_min t)) = TOk (PTree t') /\ dumps (enc_min t') = dumps (enc_min t).
Proof. exact text_roundtrip_min. Qed.
Print Assumptions C08_text_roundtrip_min.

Theorem C08_text_decode_full : forall c t j, rep t = true -> enc_fullD c t = Ok j ->
  loads_decode (dumps j) = TOk (PTree (reload t)).
Proof. exact text_decode_full. Qed.
Print Assumptions C08_text_decode_full.

Theorem C08_text_roundtrip_full : forall c t j, wf t = true -> enc_fullD c t = Ok j ->
  exists t' j', loads_decode (dumps j) = TOk (PTree t') /\ enc_fullD c t' = Ok j' /\ dumps j' = dumps j.
Proof. exact text_roundtrip_full. Qed.
Print Assumptions C08_text_roundtrip_full.

Theorem C08_example_text :
  (let j := JObj [("a", JArr [JNum 10; JNum (-3); JNull; JBool true]); ("q""\", JStr (String (ch 10) (String (ch 127) "x"))); ("e", JObj [])] in
   dumps j = "{""a"": [10, -3, null, true], ""q\""\\"": ""\n\u007fx"", ""e"": {}}" /\ loads (dumps j) = POk j "" /\
   loads "{""a"": 1,}" = PErr /\ loads "[1.5]" = PUnmod /\ loads " [ 1 , 2 ] " = POk (JArr [JNum 1; JNum 2]) "") /\
  loads_decode (dumps (enc_min ex_tree)) = TOk (PTree ex_tree).
Proof. split; [exact example_text|exact example_text_tree]. Qed.
Print Assumptions C08_example_text.

(* ---- the model's own tables are those of CPython / of models.py, regenerated on every run (Gen/C08_text_tables.v):
   string escapes of json.dumps, the white space json.loads skips, the white space str.rstrip()/lstrip() strip
   (cleandoc) on code points below 256, the full-only keys of as_dict and their order *)
Theorem C08_text_tables_agree :
  (forall c k, escape_char c k = append (string_of_codes (nth (code c) json_escape_table [])) k) /\
  (forall c, is_jws c = mem_nat (code c) json_whitespace) /\
  (forall c, is_ws c = mem_nat (nat_of_ascii c) latin1_space) /\
  (forall path gi l, full_keys_g path gi = Ok l -> keys_of l = full_object_keys).
Proof.
  split; [exact escape_char_is_cpython|]. split; [exact json_whitespace_is_cpython|]. split; [exact strip_whitespace_is_cpython|].
  exact (proj1 full_keys_are_the_code's).
Qed.
Print Assumptions C08_text_tables_agree.

(* ---- the command line's format: cli.dump serialises with indent=2 and sort_keys=True and print() adds a newline;
   [dumps_cli] is that text, and json.loads gives back the document with the keys of every object sorted *)
Theorem C08_loads_dumps_cli : forall j, loads (dumps_cli j) = POk (sort_keys j) EmptyString.
Proof. exact loads_dumps_cli. Qed.
Print Assumptions C08_loads_dumps_cli.

Theorem C08_example_cli :
  dumps_cli (JObj [("b", JArr [JNum 10; JArr []; JObj []]); ("a", JObj [("z", JNull); ("y", JStr "s")])])
  = append "{" (String (ch 10) (append "  ""a"": {" (String (ch 10) (append "    ""y"": ""s""," (String (ch 10) (append "    ""z"": null" (String (ch 10)
    (append "  }," (String (ch 10) (append "  ""b"": [" (String (ch 10) (append "    10," (String (ch 10) (append "    []," (String (ch 10) (append "    {}" (String (ch 10)
    (append "  ]" (String (ch 10) (append "}" (String (ch 10) ""))))))))))))))))))))).
Proof. exact example_cli. Qed.
Print Assumptions C08_example_cli.

(* ---- the link gap, exactly and without reference to the loader (Model/C08_links.v): [canon e] says that every name of
   e outside a dotted chain is attached to the scope, that in a chain a name after a name is linked to it, a name after
   a string literal to "str" and a name after any other expression to nothing, and that ExprParameter.kind (and nothing
   else) holds an enum member.  An expression comes back from a reload unchanged iff it is canonical ... *)
Theorem C08_links_exact : forall e, wf_ev e = true -> slot_restored e = canon e.
Proof. exact slot_restored_canon. Qed.
Print Assumptions C08_links_exact.

(* ... so the expression gap of a tree is the negation of a structural predicate ... *)
Theorem C08_gap_expr_exact : forall t, rep t = true -> gap_expr t = negb (canon_tree t).
Proof. exact gap_expr_exact. Qed.
Print Assumptions C08_gap_expr_exact.

(* ... and a module whose names all carry canonical links (and whose docstrings are cleandoc fixpoints) reloads to itself *)
Theorem C08_names_resolve_canonical :
  forall n ln eln doc ls ms fp,
  let t := TObj n ln eln doc ls ms (XModule fp) in
  rep t = true -> gap_doc t = false -> canon_tree t = true -> from_json (enc_min t) = Ok t.
Proof. exact names_resolve_canonical. Qed.
Print Assumptions C08_names_resolve_canonical.

Theorem C08_example_canon : canon_tree ex_tree = true /\ canon (VName "p" LOther) = false
  /\ canon (ex_sub (nm "Optional") (ex_sub (nm "List") (nm "Foo"))) = true /\ canon (ex_dotted "osp" "join") = true.
Proof. exact example_canon. Qed.
Print Assumptions C08_example_canon.

(* ---- json.loads(text, object_hook=json_decoder) with the hook called while the text is read (Model/C08_hook.v):
   on a printed document this is the decoding of the document, error included ... *)
Theorem C08_loads_hook_dumps : forall j, loads_hook (dumps j) = tres_of (decode j).
Proof. exact loads_hook_dumps. Qed.
Print Assumptions C08_loads_hook_dumps.

(* ... hence Module.from_json (tree.as_json(full=...)) as CPython runs it, in both modes ... *)
Theorem C08_hook_decode :
  (forall t, rep t = true -> loads_hook (dumps (enc_min t)) = TOk (PTree (reload t))) /\
  (forall c t j, rep t = true -> enc_fullD c t = Ok j -> loads_hook (dumps j) = TOk (PTree (reload t))).
Proof. split; [exact hook_decode_min|exact hook_decode_full]. Qed.
Print Assumptions C08_hook_decode.

(* ... and the same as reading first and decoding afterwards; the two differ in the order in which errors are found only *)
Theorem C08_hook_agrees_on_json :
  (forall j, loads_hook (dumps j) = loads_decode (dumps j)) /\
  loads_hook "{""kind"": ""alias"", ""name"": ""a""} x" = TErr (EKey "target_path") /\
  loads_decode "{""kind"": ""alias"", ""name"": ""a""} x" = TJson /\
  loads_hook "[{""cls"": ""ExprBogus""}, }" = TErr EAttr /\ loads_hook "[1, }" = TJson.
Proof. split; [exact hook_agrees_on_json|exact example_hook]. Qed.
Print Assumptions C08_hook_agrees_on_json.

(* F14: names bound by the expression itself (no parent since 1071289) are attached to the scope by a reload *)
Theorem C08_refuted_links_local :
  let e := VNode "ExprListComp"
             [("element", VName "i" LNone);
              ("generators", VList [VNode "ExprComprehension"
                                      [("conditions", VList []); ("is_async", VBool false); ("iterable", nm "xs"); ("target", VName "i" LNone)]])] in
  wf_slot e = true /\ canon e = false /\ slot_restored e = false /\
  attach_top (reload_ev e)
  = VNode "ExprListComp"
      [("element", VName "i" LScope);
       ("generators", VList [VNode "ExprComprehension"
                               [("conditions", VList []); ("is_async", VBool false); ("iterable", nm "xs"); ("target", VName "i" LScope)]])].
Proof. exact refuted_links_local. Qed.
Print Assumptions C08_refuted_links_local.

(* ---- the two documented ways of loading a dump (Model/C08_entry.v): Cls.from_json(text), and json_decoder used directly
   as object_hook of json.loads.  For every text, what from_json returns is what the bare hook returns ... *)
Theorem C08_entry_points_agree : forall w s v,
  (from_json_text w s = TOk v -> loads_hook s = TOk v) /\
  (loads_hook s = TOk v -> is_instance w v = true -> from_json_text w s = TOk v) /\
  (loads_hook s = TOk v -> is_instance w v = false -> from_json_text w s = TErr EType).
Proof. exact entry_points_agree. Qed.
Print Assumptions C08_entry_points_agree.

(* ... on the dump of any tree, in both modes, both build [reload t], the parent link of every name included ... *)
Theorem C08_entry_points_on_dump :
  (forall t, rep t = true ->
     loads_hook (dumps (enc_min t)) = TOk (PTree (reload t)) /\
     from_json_text (WKind (kind_of_tree t)) (dumps (enc_min t)) = TOk (PTree (reload t))) /\
  (forall c t j, rep t = true -> enc_fullD c t = Ok j ->
     loads_hook (dumps j) = TOk (PTree (reload t)) /\
     from_json_text (WKind (kind_of_tree t)) (dumps j) = TOk (PTree (reload t))).
Proof. split; [exact entry_points_on_dump|exact entry_points_on_full_dump]. Qed.
Print Assumptions C08_entry_points_on_dump.

(* ... and the dictionary of packages that `griffe dump` writes loads, through the bare hook, to the dictionary of the
   reloaded packages, each the tree Module.from_json gives for that package (from_json rejects the dictionary itself) *)
Theorem C08_packages_doc_loads : forall ps, Forall (fun km : string * tree => rep (snd km) = true) ps ->
  loads_hook (dumps (packages_doc ps)) = TOk (PDict (dmembers ps)) /\
  (forall w, from_json_text w (dumps (packages_doc ps)) = TErr EType) /\
  (forall k m, In (k, m) ps -> In (k, PTree (reload m)) (dmembers ps) /\ loads_hook (dumps (enc_min m)) = TOk (PTree (reload m))).
Proof. exact packages_doc_loads. Qed.
Print Assumptions C08_packages_doc_loads.

Theorem C08_example_entry :
  from_json_text (WKind kind_module) (dumps (enc_min ex_tree)) = TOk (PTree ex_tree) /\
  loads_hook (dumps (enc_min ex_tree)) = TOk (PTree ex_tree) /\
  from_json_text (WKind kind_class) (dumps (enc_min ex_tree)) = TErr EType /\
  loads_hook (dumps (packages_doc [("pkg", ex_tree); ("kind", ex_tree)])) = TOk (PDict [("pkg", PTree ex_tree); ("kind", PTree ex_tree)]).
Proof. exact example_entry. Qed.
Print Assumptions C08_example_entry.
