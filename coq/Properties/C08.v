(* C08 — JSON serialisation round-trips without loss.
   Property theorems only: each closed by [exact] of a lemma from Proofs/, followed by Print Assumptions.

   Vocabulary (Model/C08_json.v): [enc_min] = as_dict(full=False) + JSONEncoder conventions; [decode] = json.loads with
   object_hook=json_decoder (bottom-up; _load_*, _attach_parent_to_exprs); [reload] = an explicit function saying what a
   reload does to a tree (docstrings cleaned again, enum-valued expression fields become strings, every name's parent
   link reset and then re-attached on the first layer of the attached slots).
   [rep] = representation invariants of trees built by the agents.  Known gaps, all decidable:
   [gap_lineno] [gap_filepath] [gap_memberkey] (decoding fails), [gap_doc] (re-encoding differs), [gap_expr] (an
   expression is not restored exactly), [has_obj_doc] in full mode.  [decodable] = rep and none of the first three,
   [wf] = decodable and not gap_doc. *)
From Coq Require Import List ZArith String Bool Arith.
From Verif Require Import Lib.Sexp Gen.C08_tables Model.C08_json Proofs.C08_json.
Import ListNotations.
Open Scope string_scope. Open Scope list_scope. Open Scope nat_scope.

(* Every expression Griffe can hold (any dataclass of the regenerated table, any nesting) decodes to its reload. *)
Theorem C08_expr_roundtrip :
  forall e, wf_ev e = true ->
  decode (enc_ev e) = Ok (of_ev (reload_ev e)) /\ enc_ev (reload_ev e) = enc_ev e /\ enc_ev (attach_top (reload_ev e)) = enc_ev e.
Proof. intros e H. split; [exact (expr_roundtrip e H)|]. split; [exact (enc_reload_ev e)|]. rewrite enc_attach_top. exact (enc_reload_ev e). Qed.
Print Assumptions C08_expr_roundtrip.

(* Minimal mode, all trees outside the three decoding gaps: the document decodes, to exactly [reload t]. *)
Theorem C08_decode_enc_min : forall t, decodable t = true -> decode (enc_min t) = Ok (PTree (reload t)).
Proof. exact decode_enc_min. Qed.
Print Assumptions C08_decode_enc_min.

(* The three decoding gaps are exact: any tree (no hypothesis) with one of them fails to decode ... *)
Theorem C08_gap_decode_fails :
  forall t, (gap_lineno t || gap_filepath t || gap_memberkey t)%bool = true -> exists e, decode (enc_min t) = Err e.
Proof. exact gap_decode_fails. Qed.
Print Assumptions C08_gap_decode_fails.

(* ... so for trees the agents can build, `decodable` is exactly "the minimal document decodes". *)
Theorem C08_decodable_iff :
  forall t, rep t = true -> ((exists v, decode (enc_min t) = Ok v) <-> decodable t = true).
Proof.
  intros t Hrep. split.
  - intros [v Hv]. unfold decodable. rewrite Hrep.
    destruct (gap_lineno t || gap_filepath t || gap_memberkey t)%bool eqn:G.
    + destruct (gap_decode_fails t G) as [e He]. congruence.
    + apply orb_false_iff in G as [G G3]. apply orb_false_iff in G as [G1 G2]. rewrite G1, G2, G3. reflexivity.
  - intro Hd. exists (PTree (reload t)). apply decode_enc_min. exact Hd.
Qed.
Print Assumptions C08_decodable_iff.

(* ... and the reloaded tree serialises to the identical JSON unless a docstring is not a fixpoint of cleandoc. *)
Theorem C08_roundtrip_min :
  forall t, wf t = true -> exists t', decode (enc_min t) = Ok (PTree t') /\ enc_min t' = enc_min t.
Proof. exact roundtrip_min. Qed.
Print Assumptions C08_roundtrip_min.

Theorem C08_reencode_identical : forall t, rep t = true -> gap_doc t = false -> enc_min (reload t) = enc_min t.
Proof. exact reencode_identical. Qed.
Print Assumptions C08_reencode_identical.

(* Field-by-field: kinds, names, spans, docstrings, labels, parameters, expressions and alias targets agree, up to the
   parent links of names and the enum/str typing of lambda parameter kinds (what [erase] forgets). *)
Theorem C08_equiv_fields : forall t, rep t = true -> gap_doc t = false -> erase (reload t) = erase t.
Proof. exact equiv_fields. Qed.
Print Assumptions C08_equiv_fields.

(* Without the expression gap as well, the reloaded module is the original: every name keeps its parent link
   ("names resolve as before" at the level of links; resolution itself is a function of link + members). *)
Theorem C08_names_resolve_modulo_known :
  forall n ln eln doc ls ms fp,
  let t := TObj n ln eln doc ls ms (XModule fp) in
  decodable t = true -> gap_doc t = false -> gap_expr t = false -> from_json (enc_min t) = Ok t.
Proof.
  intros n ln eln doc ls ms fp t Hd Hg He. unfold t in *.
  rewrite from_json_enc_min by assumption. f_equal. apply reload_identity; try assumption.
  unfold decodable in Hd. apply andb_true_iff in Hd as [Hd _]. apply andb_true_iff in Hd as [Hd _].
  apply andb_true_iff in Hd as [Hd _]. exact Hd.
Qed.
Print Assumptions C08_names_resolve_modulo_known.

(* Full mode: whatever the derived values, a tree with a docstring does not decode (each docstring has >= 1 parsed
   section: always the case without a docstring parser; the empty case fails too, see C08_refuted_full_docstring). *)
Theorem C08_full_docstring_not_decodable :
  forall F, (forall path, f_parsed (F path) <> []) ->
  forall t prefix j, has_obj_doc t = true -> enc_full F prefix t = Ok j -> exists e, decode j = Err e.
Proof. exact full_docstring_not_decodable. Qed.
Print Assumptions C08_full_docstring_not_decodable.

(* Non-vacuity: a tree with every node kind satisfies every hypothesis and round-trips to itself. *)
Theorem C08_example_all_kinds :
  wf ex_tree = true /\ gap_expr ex_tree = false /\ decode (enc_min ex_tree) = Ok (PTree ex_tree).
Proof. split; [exact (proj1 example_wf)|]. split; [exact (proj2 example_wf)|exact example_roundtrip_exact]. Qed.
Print Assumptions C08_example_all_kinds.

(* ---- the known gaps are real: computed witnesses (each replayed on the implementation by the harness) *)
Theorem C08_refuted_lineno : exists t, rep t = true /\ gap_lineno t = true /\ decode (enc_min t) = Err (EKey "lineno").
Proof. exact refuted_lineno. Qed.
Print Assumptions C08_refuted_lineno.

Theorem C08_refuted_filepath :
  (exists t, rep t = true /\ gap_filepath t = true /\ decode (enc_min t) = Err EType) /\
  (exists t, rep t = true /\ gap_filepath t = true /\ decode (enc_min t) = Err EType).
Proof. exact refuted_filepath. Qed.
Print Assumptions C08_refuted_filepath.

Theorem C08_refuted_memberkey_kind : exists t, rep t = true /\ gap_memberkey t = true /\ decode (enc_min t) = Err (EKey "name").
Proof. exact refuted_memberkey_kind. Qed.
Print Assumptions C08_refuted_memberkey_kind.

Theorem C08_refuted_memberkey_cls : exists t, rep t = true /\ gap_memberkey t = true /\ decode (enc_min t) = Err EType.
Proof. exact refuted_memberkey_cls. Qed.
Print Assumptions C08_refuted_memberkey_cls.

Theorem C08_refuted_docstring :
  exists t t', decodable t = true /\ gap_doc t = true /\ decode (enc_min t) = Ok (PTree t') /\ enc_min t' <> enc_min t.
Proof. exact refuted_docstring. Qed.
Print Assumptions C08_refuted_docstring.

Theorem C08_refuted_enum :
  wf_slot w_lambda = true /\ has_enum w_lambda = true /\
  exists e', decode (enc_ev w_lambda) = Ok (PExpr e') /\ e' <> w_lambda /\ slot_restored true w_lambda = false.
Proof. exact refuted_enum. Qed.
Print Assumptions C08_refuted_enum.

Theorem C08_refuted_links_depth :
  let e := ex_sub (nm "Optional") (ex_sub (nm "List") (nm "Foo")) in
  wf_slot e = true /\ has_enum e = false /\ slot_restored true e = false /\
  attach_top (reload_ev e) = ex_sub (nm "Optional") (ex_sub (VName "List" LNone) (VName "Foo" LNone)).
Proof. exact refuted_links_depth. Qed.
Print Assumptions C08_refuted_links_depth.

Theorem C08_refuted_links_slot :
  wf_slot (nm "Foo") = true /\ slot_restored false (nm "Foo") = false /\ slot_restored true (nm "Foo") = true.
Proof. exact refuted_links_slot. Qed.
Print Assumptions C08_refuted_links_slot.

Theorem C08_refuted_links_chain :
  let e := ex_dotted "osp" "join" in
  wf_slot e = true /\ slot_restored true e = false /\
  attach_top (reload_ev e) = VNode "ExprAttribute" [("values", VList [VName "osp" LScope; VName "join" LScope])].
Proof. exact refuted_links_chain. Qed.
Print Assumptions C08_refuted_links_chain.

Theorem C08_refuted_links_other :
  wf_slot (VName "p" LOther) = true /\ slot_restored true (VName "p" LOther) = false /\
  (let e := VNode "ExprAttribute" [("values", VList [VStr "'lit'"; VName "join" LStr])] in wf_slot e = true /\ slot_restored true e = false).
Proof. exact refuted_links_other. Qed.
Print Assumptions C08_refuted_links_other.

Theorem C08_refuted_full_docstring :
  (exists j, enc_full (w_F [mkSection "text" None (JStr "Doc.")] (Some (JStr "/x/w.py"))) "" w_fulldoc = Ok j /\ decode j = Err (EKey "name")) /\
  (exists j, enc_full (w_F [] (Some (JStr "/x/w.py"))) "" w_fulldoc = Ok j /\ decode j = Err EType) /\
  wf w_fulldoc = true.
Proof. exact refuted_full_docstring. Qed.
Print Assumptions C08_refuted_full_docstring.

(* serialisation itself fails only for a builtin module in full mode *)
Theorem C08_refuted_full_builtin :
  enc_full (w_F [] None) "" (w_module [] FPNone) = Err EBuiltin /\
  exists j, enc_full (w_F [] (Some (JStr "/x/w.py"))) "" (w_module [] (FPStr "/x/w.py")) = Ok j
            /\ decode j = Ok (PTree (w_module [] (FPStr "/x/w.py"))).
Proof. exact refuted_full_builtin. Qed.
Print Assumptions C08_refuted_full_builtin.
