(* C10 — No call-breaking signature change goes unreported.  Property theorems only.
   fdiff   = the table rules of _function_incompatibilities (removed/swallowed, required, moved, kind, default, added);
   fdiff_m = the code under test: fdiff plus the members of `incompatible_kind` that look at the old signature
             (Gen/C10_rules.v: none in the unrepaired code, the collision rule in the repaired one);
   xdiff   = fdiff_m on signatures whose defaults are expression trees, compared through a key. *)
From Coq Require Import List Arith Bool ZArith.
From Verif Require Import Lib.Sexp Model.C10_kinds Gen.C10_tables Gen.C10_rules Model.C10_diff Model.C10_defaults Model.C10_ext
  Model.C10_hist Gen.C10_guards Model.C10_code Proofs.C10_diff Proofs.C10_complete Proofs.C10_sound Proofs.C10_rule Proofs.C10_defaults Proofs.C10_hist
  Proofs.C10_code Proofs.C10_exact.
Import ListNotations.
Open Scope list_scope. Open Scope nat_scope.

(* ---- the regenerated rules are the documented ones ---- *)
Theorem C10_code_under_test : forall old new, fdiff_m old new = fdiff_g (ck_rule COLLISION_RULE) old new.
Proof. exact fdiff_m_eq. Qed.
Print Assumptions C10_code_under_test.
Theorem C10_table_rules_included : forall ck old new b, In b (fdiff old new) -> In b (fdiff_g ck old new).
Proof. exact fdiff_sub. Qed.
Print Assumptions C10_table_rules_included.

(* ---- identical signatures produce no report ---- *)
Theorem C10_identical_silent : forall s, nodup_names s = true -> fdiff s s = [].
Proof. exact identical_silent. Qed.
Print Assumptions C10_identical_silent.
Theorem C10_identical_silent_code : forall ck s, nodup_names s = true -> fdiff_g ck s s = [].
Proof. exact identical_silent_g. Qed.
Print Assumptions C10_identical_silent_code.
Theorem C10_identical_silent_expressions : forall idf s, nodup_names (abs_sig (idf s s) s) = true -> xdiff idf s s = [].
Proof. exact identical_silent_x. Qed.
Print Assumptions C10_identical_silent_expressions.

(* ---- every reported parameter breakage names a parameter whose presence, kind, position, default or required-ness changed ---- *)
Theorem C10_reports_sound : forall ck old new b, In b (fdiff_g ck old new) -> changed old new b.
Proof. exact reports_sound_g. Qed.
Print Assumptions C10_reports_sound.

(* ... and comes with a concrete call that old binds and new rejects, unless a documented excuse holds *)
Theorem C10_reports_justified : forall old new, wf old = true -> wf new = true ->
  forall ck b, In b (fdiff_g ck old new) -> excuse old new b = false ->
  exists n K, witness old new b = Some (n, K) /\ binds old n K = true /\ binds new n K = false.
Proof. exact reports_justified. Qed.
Print Assumptions C10_reports_justified.
Theorem C10_excuse_meaning : forall old new b, excuse old new b = true ->
  match b with
  | ChDef _ | Moved _ => True
  | ChKind n => collides old new n = false
  | AddedReq n | ChReq n => forall np, find n new = Some np -> pos_kind (pkind np) = true /\ index_of n new < nreqpo old
  | Removed n => forall op, find n old = Some op ->
      match pkind op with
      | KO => False
      | PK => has_kind VK new = true /\ npos old <= npos new
      | PO => npos old <= npos new
      | VP => has_kind VP new = true
      | VK => has_kind VK new = true end
  end.
Proof. exact excuse_meaning. Qed.
Print Assumptions C10_excuse_meaning.

(* ---- moved positional / changed default / optional made required are always reported ---- *)
Theorem C10_moved_reported : forall old new oi op np,
  nth_error old oi = Some op -> find (pname op) new = Some np ->
  pos_kind (pkind op) = true -> pos_kind (pkind np) = true -> index_of (pname op) new <> oi ->
  In (Moved (pname op)) (fdiff old new).
Proof. exact moved_reported. Qed.
Print Assumptions C10_moved_reported.

Theorem C10_default_change_reported : forall old new oi op np,
  nth_error old oi = Some op -> find (pname op) new = Some np ->
  required op = false -> required np = false -> var_kind (pkind op) = false -> var_kind (pkind np) = false ->
  pdef op <> pdef np ->
  In (ChDef (pname op)) (fdiff old new).
Proof. exact default_change_reported. Qed.
Print Assumptions C10_default_change_reported.

Theorem C10_made_required_reported : forall old new oi op np,
  nth_error old oi = Some op -> find (pname op) new = Some np ->
  required op = false -> required np = true ->
  In (ChReq (pname op)) (fdiff old new).
Proof. exact made_required_reported. Qed.
Print Assumptions C10_made_required_reported.

(* ---- defaults as expressions: the abstract value identifies exactly the defaults with the same key ---- *)
Theorem C10_abstract_default_values : forall (K : Type) (keq : K -> K -> bool) (key : dexp -> K),
  (forall x y, keq x y = true <-> x = y) -> forall pool a b, In a pool -> In b pool ->
  (ident keq key pool a = ident keq key pool b <-> key a = key b).
Proof. exact ident_eq_iff. Qed.
Print Assumptions C10_abstract_default_values.

(* for ANY equality on defaults that refines identity of the compiled expression, a changed default is reported *)
Theorem C10_default_change_reported_refining : forall (K : Type) (keq : K -> K -> bool) (key : dexp -> K),
  (forall x y, keq x y = true <-> x = y) -> (forall a b, key a = key b -> a = b) ->
  forall ck old new oi op np a b,
  nth_error old oi = Some op -> xfind (xname op) new = Some np ->
  var_kind (xkind op) = false -> var_kind (xkind np) = false ->
  xdef op = Some a -> xdef np = Some b -> a <> b ->
  In (ChDef (xname op)) (fdiff_g ck (abs_sig (ident keq key (pool_of old new)) old) (abs_sig (ident keq key (pool_of old new)) new)).
Proof. exact default_change_reported_refining. Qed.
Print Assumptions C10_default_change_reported_refining.

(* the implementation's equality does refine it away from f-string replacement fields ... *)
Theorem C10_impl_equality_refines : forall a b, fmt_free a = true -> fmt_free b = true -> impl_key a = impl_key b -> a = b.
Proof. exact impl_key_refines. Qed.
Print Assumptions C10_impl_equality_refines.
(* ... so a changed default is reported by the code under test unless the pair is in F8, which needs an f-string field *)
Theorem C10_default_change_reported_code : forall old new oi op np a b,
  nth_error old oi = Some op -> xfind (xname op) new = Some np ->
  var_kind (xkind op) = false -> var_kind (xkind np) = false ->
  xdef op = Some a -> xdef np = Some b -> a <> b ->
  In (ChDef (xname op)) (xdiff impl_ident old new) \/ f8_param new op = true.
Proof. exact default_change_reported_impl. Qed.
Print Assumptions C10_default_change_reported_code.
Theorem C10_F8_only_fstrings : forall new op, f8_param new op = true ->
  FMT_LOSSY = true /\ exists np a b, xfind (xname op) new = Some np /\ xdef op = Some a /\ xdef np = Some b /\ a <> b /\
                                     (fmt_free a = false \/ fmt_free b = false).
Proof. exact f8_only_fstrings. Qed.
Print Assumptions C10_F8_only_fstrings.
Theorem C10_default_change_refuted_F8 : FMT_LOSSY = true ->
  exists a b, a <> b /\ xdiff impl_ident [xmk 0 PK (Some a)] [xmk 0 PK (Some b)] = [] /\ F8 [xmk 0 PK (Some a)] [xmk 0 PK (Some b)] = true.
Proof. exact default_change_refuted_F8. Qed.
Print Assumptions C10_default_change_refuted_F8.
(* a reported default breakage means the key, hence the compiled expression, changed *)
Theorem C10_default_report_means_changed : forall (K : Type) (keq : K -> K -> bool) (key : dexp -> K) ck old new n,
  In (ChDef n) (fdiff_g ck (abs_sig (ident keq key (pool_of old new)) old) (abs_sig (ident keq key (pool_of old new)) new)) ->
  exists op np a b, In op old /\ xname op = n /\ xfind n new = Some np /\ xdef op = Some a /\ xdef np = Some b /\ key a <> key b.
Proof. exact default_report_means_key_changed. Qed.
Print Assumptions C10_default_report_means_changed.
(* comparing parenthesis-free renderings does not refine it: same tokens, other computed value, nothing reported *)
Theorem C10_text_equality_does_not_refine :
  text_key grp_a = text_key grp_b /\ dval grp_a = Some 300%Z /\ dval grp_b = Some 123%Z /\
  xdiff text_ident [xmk 0 PK (Some grp_a)] [xmk 0 PK (Some grp_b)] = [] /\
  xdiff impl_ident [xmk 0 PK (Some grp_a)] [xmk 0 PK (Some grp_b)] = [ChDef 0].
Proof. exact text_equality_does_not_refine. Qed.
Print Assumptions C10_text_equality_does_not_refine.

(* ---- completeness ---- *)
(* The unqualified statement is false of the code under test (the witnesses are replayed on the implementation on every
   run): F2 with or without the collision rule, F4..F7 as long as the code has no collision rule. *)
Theorem C10_complete_refuted_F2 : exists old new n K, wf old = true /\ wf new = true /\ ~ complete_at_m old new n K.
Proof. exact complete_refuted_F2_m. Qed.
Print Assumptions C10_complete_refuted_F2.
Theorem C10_complete_refuted_F4 : COLLISION_RULE = false -> exists old new n K, wf old = true /\ wf new = true /\ ~ complete_at_m old new n K.
Proof. exact complete_refuted_F4_m. Qed.
Print Assumptions C10_complete_refuted_F4.
Theorem C10_complete_refuted_F5 : COLLISION_RULE = false -> exists old new n K, wf old = true /\ wf new = true /\ ~ complete_at_m old new n K.
Proof. exact complete_refuted_F5_m. Qed.
Print Assumptions C10_complete_refuted_F5.
Theorem C10_complete_refuted_F6 : COLLISION_RULE = false -> exists old new n K, wf old = true /\ wf new = true /\ ~ complete_at_m old new n K.
Proof. exact complete_refuted_F6_m. Qed.
Print Assumptions C10_complete_refuted_F6.
Theorem C10_complete_refuted_F7 : COLLISION_RULE = false -> exists old new n K, wf old = true /\ wf new = true /\ ~ complete_at_m old new n K.
Proof. exact complete_refuted_F7_m. Qed.
Print Assumptions C10_complete_refuted_F7.

(* Completeness of the code under test for ALL well-formed signature pairs and ALL calls (any number of positionals, any
   keyword list): if CPython binds the call against old and rejects it against new, then something is reported -- unless
   the pair satisfies a known-gap predicate that remains for this code (F2; F4..F7 when there is no collision rule). *)
Theorem C10_complete_modulo_known : forall old new n K,
  wf old = true -> wf new = true -> binds old n K = true -> binds new n K = false ->
  fdiff_m old new <> [] \/ known_gap_m old new = true.
Proof. exact complete_modulo_known_m. Qed.
Print Assumptions C10_complete_modulo_known.

(* With the collision rule (the prepared repair) only F2 remains, and every report of that rule is call-breaking. *)
Theorem C10_complete_with_collision_rule : forall old new n K,
  wf old = true -> wf new = true -> binds old n K = true -> binds new n K = false ->
  fdiff_g (ck_rule true) old new <> [] \/ F2 old new = true.
Proof. exact complete_with_collision_rule. Qed.
Print Assumptions C10_complete_with_collision_rule.
Theorem C10_collision_rule_sound : forall old new b,
  wf old = true -> wf new = true -> In b (collide (ck_rule true) old new) ->
  exists n K, witness old new b = Some (n, K) /\ binds old n K = true /\ binds new n K = false.
Proof. exact collision_rule_sound. Qed.
Print Assumptions C10_collision_rule_sound.

(* ---- signatures produced by edits of the Parameters container: a replaced or deleted parameter's name is gone from the
   container, so the diff against the edited signature reports the removal unless a variadic of new swallows it ---- *)
Theorem C10_replaced_name_forgotten : forall s i q p, nodup_names s = true -> nth_error s i = Some q -> pname p <> pname q ->
  find (pname q) (set_nth i p s) = None.
Proof. exact replaced_name_forgotten. Qed.
Print Assumptions C10_replaced_name_forgotten.
Theorem C10_replaced_parameter_reported : forall ck s o i q p,
  nodup_names s = true -> nth_error s i = Some q -> pname p <> pname q ->
  (o = HSetIdx i p \/ (o = HSetName (pname q) p)) ->
  let new := fst (h_apply pname s o) in
  In (Removed (pname q)) (fdiff_g ck s new) \/ swallowed (pkind q) (has_kind VP new) (has_kind VK new) = true.
Proof. exact replaced_parameter_reported. Qed.
Print Assumptions C10_replaced_parameter_reported.
Theorem C10_deleted_parameter_reported : forall ck s i q,
  nodup_names s = true -> nth_error s i = Some q ->
  let new := fst (h_apply pname s (HDelIdx i)) in
  In (Removed (pname q)) (fdiff_g ck s new) \/ swallowed (pkind q) (has_kind VP new) (has_kind VK new) = true.
Proof. exact deleted_parameter_reported. Qed.
Print Assumptions C10_deleted_parameter_reported.

(* ---- the path conditions of _function_incompatibilities, regenerated from diff.py on every run (Gen/C10_guards.v), are the
   documented rules; the parameter rules written over them -- what the harness extracts and runs against the implementation --
   are fdiff_m, the definition the theorems above are stated over ---- *)
Theorem C10_path_conditions : forall ok nk oreq nreq present sw inc same differ,
  rule_removed ok nk oreq nreq present sw inc same differ = negb present && negb sw /\
  rule_required ok nk oreq nreq present sw inc same differ = present && (nreq && negb oreq) /\
  rule_moved ok nk oreq nreq present sw inc same differ = present && (is_pos ok && is_pos nk && negb same) /\
  rule_kind ok nk oreq nreq present sw inc same differ = present && (negb (kind_eqb ok nk) && inc) /\
  rule_default ok nk oreq nreq present sw inc same differ =
    present && (negb oreq && negb nreq && negb (is_var ok) && negb (is_var nk) && differ) /\
  rule_added ok nk oreq nreq present sw inc same differ = negb present && nreq.
Proof. exact path_conditions. Qed.
Print Assumptions C10_path_conditions.
Theorem C10_extracted_rules_are_model : forall old new, fdiff_code old new = fdiff_m old new.
Proof. exact fdiff_code_eq. Qed.
Print Assumptions C10_extracted_rules_are_model.

(* ---- the excuse of a became-required / added-required report is exact: the parameter is excused iff no call that old
   binds leaves it unfilled in new ---- *)
Theorem C10_required_excuse_exact : forall old new, wf old = true -> wf new = true -> forall n np,
  find n new = Some np -> required np = true -> (forall p, find n old = Some p -> required p = false) ->
  (excuse old new (AddedReq n) = true <-> forall c K, binds old c K = true -> param_ok new c K np = true).
Proof. exact required_excuse_exact. Qed.
Print Assumptions C10_required_excuse_exact.
