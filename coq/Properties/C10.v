(* C10 — No call-breaking signature change goes unreported.  Property theorems only. *)
From Coq Require Import List Arith Bool.
From Verif Require Import Lib.Sexp Model.C10_kinds Gen.C10_tables Model.C10_diff Proofs.C10_diff Proofs.C10_complete.
Import ListNotations.
Open Scope list_scope. Open Scope nat_scope.

Theorem C10_identical_silent : forall s, nodup_names s = true -> fdiff s s = [].
Proof. exact identical_silent. Qed.
Print Assumptions C10_identical_silent.

(* every reported parameter breakage names a parameter whose presence, kind, position, default or required-ness changed *)
Theorem C10_reports_sound : forall old new b, In b (fdiff old new) -> changed old new b.
Proof. exact reports_sound. Qed.
Print Assumptions C10_reports_sound.

Theorem C10_moved_reported : forall old new oi op np,
  nth_error old oi = Some op -> find (pname op) new = Some np ->
  pos_kind (pkind op) = true -> pos_kind (pkind np) = true -> index_of (pname op) new <> oi ->
  In (Moved (pname op)) (fdiff old new).
Proof. exact moved_reported. Qed.
Print Assumptions C10_moved_reported.

Theorem C10_default_change_reported : forall old new oi op np,
  nth_error old oi = Some op -> find (pname op) new = Some np ->
  required op = false -> required np = false -> var_kind (pkind op) = false -> var_kind (pkind np) = false ->
  pdef op <> pdef np ->
  In (ChDef (pname op)) (fdiff old new).
Proof. exact default_change_reported. Qed.
Print Assumptions C10_default_change_reported.

Theorem C10_made_required_reported : forall old new oi op np,
  nth_error old oi = Some op -> find (pname op) new = Some np ->
  required op = false -> required np = true ->
  In (ChReq (pname op)) (fdiff old new).
Proof. exact made_required_reported. Qed.
Print Assumptions C10_made_required_reported.

(* The unqualified completeness statement is false of the faithful model (and of the code: the witnesses are
   replayed on the implementation on every run).  One witness per known finding. *)
Theorem C10_complete_refuted_F2 : exists old new n K, wf old = true /\ wf new = true /\ ~ complete_at old new n K.
Proof. exact complete_refuted_F2. Qed.
Print Assumptions C10_complete_refuted_F2.
Theorem C10_complete_refuted_F4 : exists old new n K, wf old = true /\ wf new = true /\ ~ complete_at old new n K.
Proof. exact complete_refuted_F4. Qed.
Print Assumptions C10_complete_refuted_F4.
Theorem C10_complete_refuted_F5 : exists old new n K, wf old = true /\ wf new = true /\ ~ complete_at old new n K.
Proof. exact complete_refuted_F5. Qed.
Print Assumptions C10_complete_refuted_F5.
Theorem C10_complete_refuted_F6 : exists old new n K, wf old = true /\ wf new = true /\ ~ complete_at old new n K.
Proof. exact complete_refuted_F6. Qed.
Print Assumptions C10_complete_refuted_F6.
Theorem C10_complete_refuted_F7 : exists old new n K, wf old = true /\ wf new = true /\ ~ complete_at old new n K.
Proof. exact complete_refuted_F7. Qed.
Print Assumptions C10_complete_refuted_F7.

(* Completeness for ALL well-formed signature pairs and ALL call shapes (any number of positionals, any keyword names):
   if CPython binds the call against old and rejects it against new, then something is reported -- unless the pair
   satisfies one of the five decidable known-gap predicates (findings F2 F4 F5 F6 F7, each refuted above). *)
Theorem C10_complete_modulo_known : forall old new n K,
  wf old = true -> wf new = true -> binds old n K = true -> binds new n K = false ->
  fdiff old new <> [] \/ known_gap old new = true.
Proof. exact complete_modulo_known. Qed.
Print Assumptions C10_complete_modulo_known.
