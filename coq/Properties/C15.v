(* C15 — Static loading never executes analysed code; interpreter state is restored.
   Property theorems only: each closed by [exact] of a lemma from Proofs/, followed by Print Assumptions.
   agent_ladder, not_found_reraises, the handler tables, the statement order of _inspect_module, the sys_path protocol
   flags, the finder's fallback on sys.path and the option forwarding of the public entry points are the definitions of
   Gen/C15_ladder.v, regenerated from loader.py / importer.py / finder.py / cli.py on every run. *)
From Coq Require Import List ZArith String Bool Arith.
From Verif Require Import Lib.Sexp Model.C15_base Gen.C15_ladder Model.C15_loader Proofs.C15_loader Proofs.C15_restore Proofs.C15_failures Proofs.C15_reads Proofs.C15_history.
Import ListNotations.
Open Scope list_scope. Open Scope nat_scope.

(* The agent-selection ladder never picks the inspector when inspection is neither allowed nor forced:
   for every path kind (namespace directory list or file) and every suffix. *)
Theorem C15_no_inspect_when_disallowed :
  forall is_list suffix, agent_ladder is_list false false suffix <> AInspect.
Proof. exact ladder_never_inspects_when_disallowed. Qed.
Print Assumptions C15_no_inspect_when_disallowed.

(* Every public way into the loader -- griffe.load, griffe.load_git, `griffe dump`, the three loads of `griffe check` --
   hands allow_inspection and force_inspection down to GriffeLoader exactly as it received them. *)
Theorem C15_entry_points_forward_options :
  forall ep allow force, entry_allow ep allow = allow /\ entry_force ep force = force.
Proof. exact entry_points_forward_inspection_options. Qed.
Print Assumptions C15_entry_points_forward_options.

(* A whole session with inspection disallowed -- the root load (found package, namespace package, not found: the
   ModuleNotFoundError fallback, missing path) with ANY tree of loads nested in it (the wildcard expansion _load_package
   runs before merging stubs, re-entering load for packages that may themselves have stubs, to any depth) and ANY
   sequence of such trees after it (alias resolution / wildcard expansion), in any world (any files, any import-time
   behaviour) -- runs no module body, never reaches the inspector, adds nothing to sys.modules and leaves sys.path
   (binding, list objects) as it was. *)
Theorem C15_static_session_executes_nothing :
  forall w store submodules search root later s r s',
    session w false false store submodules search root later s = (r, s') ->
    executions s' = executions s /\ inspections s' = inspections s /\ mods s' = mods s /\
    cur s' = cur s /\ next s' = next s /\ heap s' = heap s.
Proof. exact static_session_executes_nothing. Qed.
Print Assumptions C15_static_session_executes_nothing.

(* ... and so does a call of any public entry point with inspection disallowed, whatever loaders it builds
   (`griffe dump a b c`: one load per package on one loader; `griffe check`: the old and the new tree). *)
Theorem C15_static_entry_executes_nothing :
  forall store phases s r s',
    run_phases false false store phases s = (r, s') ->
    executions s' = executions s /\ inspections s' = inspections s /\ mods s' = mods s /\
    cur s' = cur s /\ next s' = next s /\ heap s' = heap s.
Proof. exact static_entry_executes_nothing. Qed.
Print Assumptions C15_static_entry_executes_nothing.

(* ... and so does any HISTORY of calls on one loader built with inspection disallowed (load, resolve_aliases loading
   external packages, load again, ...): the options are the loader's own, no call changes them (translator: no method
   assigns to them; observed after every call), so what was loaded before never turns a later load into an inspecting one. *)
Theorem C15_static_history_executes_nothing :
  forall w store search catch steps s r s',
    run_history w false false store search catch steps s = (r, s') ->
    executions s' = executions s /\ inspections s' = inspections s /\ mods s' = mods s /\
    cur s' = cur s /\ next s' = next s /\ heap s' = heap s.
Proof. exact static_history_executes_nothing. Qed.
Print Assumptions C15_static_history_executes_nothing.

(* The process history is an input: whatever is already in sys.modules when the entry point is called (the analysed package
   imported before, entirely, partially, or its top level only), a static call runs no body and sys.modules stays
   exactly what it was. *)
Theorem C15_static_whatever_is_imported :
  forall syspath imported store phases r s',
    run_phases false false store phases (init_state_with syspath imported) = (r, s') ->
    executions s' = [] /\ inspections s' = [] /\ mods s' = imported.
Proof. exact static_whatever_is_imported. Qed.
Print Assumptions C15_static_whatever_is_imported.

(* A static load ends in success, LoadingError, ModuleNotFoundError, or with what the finder itself raised for one of
   the packages asked for, at any nesting depth (FileNotFoundError for a missing Path, UnicodeDecodeError for a
   top-level __init__.py that is not UTF-8). *)
Theorem C15_static_root_result :
  forall w store submodules search t s,
    let r := fst (load_tree w false false store submodules search t s) in
    r = None \/ r = Some XLoadingError \/ r = Some XModuleNotFound \/
    exists x, r = Some x /\ exists q e, In q (tree_reqs t) /\ x = ferr_exn e /\ find_pkg (w_find w) q = FFinderError e.
Proof. exact static_root_result. Qed.
Print Assumptions C15_static_root_result.

(* Compiled modules (any suffix that is not a source suffix) are skipped, not imported: as a submodule the error is
   logged and loading continues with the next one in an unchanged interpreter; as the top module the load is refused. *)
Theorem C15_compiled_skipped :
  forall w store search nsroot f subs loaded s,
    source_suffix (m_suffix f) = false ->
    (nsroot = true \/ mem_name (removelast (m_name f)) loaded = true) ->
    load_subs w false false store search nsroot (f :: subs) loaded s =
    load_subs w false false store search nsroot subs loaded (log_ev (EvSkip (m_name f) (m_suffix f)) s).
Proof. exact compiled_submodule_skipped. Qed.
Print Assumptions C15_compiled_skipped.

Theorem C15_compiled_top_rejected :
  forall np w store submodules search top subs stubs s,
    source_suffix (m_suffix top) = false ->
    load_package_with np w false false store submodules search top subs stubs s = (Some XLoadingError, s).
Proof. exact compiled_top_rejected. Qed.
Print Assumptions C15_compiled_top_rejected.

(* resolve_external=False never re-enters load; the default (None) only for the private sibling `_pkg`. *)
Theorem C15_no_reentry_when_external_false :
  forall sibling failed same_pkg loaded,
    alias_reentry_gate (Some false) sibling failed same_pkg loaded = false /\ wildcard_reentry_skip (Some false) sibling = true.
Proof. exact no_reentry_when_external_false. Qed.
Print Assumptions C15_no_reentry_when_external_false.

(* Whatever the flags, the world (every placement of raising / exiting / missing-dependency imports, every in-place
   mutation or rebinding of sys.path by imported code, at the root, in a submodule, or inside a load nested to any depth)
   and the re-entries: after the session sys.path is bound to the same list object and that object has the same contents. *)
Theorem C15_sys_path_restored :
  forall w allow force store submodules search root later s r s',
    wf s -> search <> [] ->
    session w allow force store submodules search root later s = (r, s') ->
    cur s' = cur s /\ heap s' (cur s) = heap s (cur s).
Proof. exact sys_path_restored. Qed.
Print Assumptions C15_sys_path_restored.

(* The worlds of this theorem include code that calls back into Griffe at import time: nested `with sys_path(...)`,
   dynamic_import(name, paths), inspect, load(force_inspection=True) are nested scopes (EScope), each saving the binding it
   finds in its own frame -- a stack.  (One shared slot instead does not nest: Example one_slot_does_not_nest.)
   The same for any history of calls on one loader: *)
Theorem C15_history_sys_path_restored :
  forall w allow force store search catch steps s r s',
    wf s -> search <> [] ->
    run_history w allow force store search catch steps s = (r, s') ->
    cur s' = cur s /\ heap s' (cur s) = heap s (cur s).
Proof. exact history_sys_path_restored. Qed.
Print Assumptions C15_history_sys_path_restored.

(* for a package found on disk no assumption on the search paths is needed *)
Theorem C15_sys_path_restored_found_package :
  forall w allow force store submodules search top subs stubs s r s',
    wf s -> load_package_with no_nested w allow force store submodules search top subs stubs s = (r, s') ->
    cur s' = cur s /\ heap s' (cur s) = heap s (cur s).
Proof. exact sys_path_restored_found_package. Qed.
Print Assumptions C15_sys_path_restored_found_package.

(* The finder's search paths are empty only when no search path is configured AND sys.path itself is empty. *)
Theorem C15_finder_paths_nonempty :
  forall given syspath, given <> [] \/ syspath <> [] -> finder_paths given syspath <> [].
Proof. exact finder_paths_nonempty. Qed.
Print Assumptions C15_finder_paths_nonempty.

(* Through the public entry points: every loader takes its search paths from the finder, so as long as sys.path is not
   empty when the entry point is called (or every loader is given search paths), sys.path is restored -- also with
   search_paths=None, when the temporary list equals sys.path, and across several loads. *)
Theorem C15_entry_sys_path_restored :
  forall allow force store phases s r s',
    wf s -> heap s (cur s) <> [] \/ Forall (fun ph => ph_given ph <> [] \/ ph_front ph <> []) phases ->
    run_phases allow force store phases s = (r, s') ->
    cur s' = cur s /\ heap s' (cur s) = heap s (cur s).
Proof. exact entry_sys_path_restored. Qed.
Print Assumptions C15_entry_sys_path_restored.

(* The exact classification of what can leave a session, with no assumption on the world: ImportError /
   ModuleNotFoundError / LoadingError; or what the finder raised for a requested package before any loading started; or
   what walking an imported module raised, as the handlers of _inspect_module / _load_module leave it. Import-time
   failures proper (exception, SystemExit, KeyboardInterrupt, a BaseException subclass, missing dependency at any
   import attempt; failing attribute access in dynamic_import) are always in the first class. *)
Theorem C15_failures_classified :
  forall w allow force store submodules search root later s x,
    fst (session w allow force store submodules search root later s) = Some x ->
    import_family x = true \/ finder_escape w (session_reqs root later) x \/ walk_escape w x.
Proof. exact failures_classified. Qed.
Print Assumptions C15_failures_classified.

(* When what the walk raises is SystemExit or an ImportError (the faults the handlers convert), every failure is
   ImportError / ModuleNotFoundError / LoadingError or the finder's own error. *)
Theorem C15_failures_become_importerror :
  forall w allow force store submodules search root later s x,
    walk_convertible w ->
    fst (session w allow force store submodules search root later s) = Some x ->
    import_family x = true \/ finder_escape w (session_reqs root later) x.
Proof. exact failures_become_importerror. Qed.
Print Assumptions C15_failures_become_importerror.

(* With no assumption on the world at all: SystemExit never leaves a session, nor a public entry point. *)
Theorem C15_system_exit_never_escapes :
  forall w allow force store submodules search root later s,
    fst (session w allow force store submodules search root later s) <> Some XSystemExit.
Proof. exact system_exit_never_escapes. Qed.
Print Assumptions C15_system_exit_never_escapes.

Theorem C15_system_exit_never_escapes_history :
  forall w allow force store search catch steps s, fst (run_history w allow force store search catch steps s) <> Some XSystemExit.
Proof. exact system_exit_never_escapes_history. Qed.
Print Assumptions C15_system_exit_never_escapes_history.

Theorem C15_system_exit_never_escapes_entry :
  forall allow force store phases s, fst (run_phases allow force store phases s) <> Some XSystemExit.
Proof. exact system_exit_never_escapes_entry. Qed.
Print Assumptions C15_system_exit_never_escapes_entry.

(* Which files the loader reads itself (read_text): only source files (.py / .pyi) -- the visitor is only handed sources, and
   _inspect_module only reads the sources it stores -- whatever the options, the world, the nesting and the entry point;
   compiled files are at most handed to the import system. *)
Theorem C15_reads_are_sources :
  forall allow force store phases s r s',
    reads_source_only s -> run_phases allow force store phases s = (r, s') -> reads_source_only s'.
Proof. exact reads_are_sources. Qed.
Print Assumptions C15_reads_are_sources.

(* A history of calls on ONE loader refines to the stateless reading: with search paths given and a caller that lets
   failures through, it is the same calls made on fresh loaders built by griffe.load with the same options (so every
   entry-point theorem applies to histories, and the loader carries nothing from call to call that matters here). *)
Theorem C15_history_refines_to_fresh_loaders :
  forall w allow force store g r syspath steps s,
    run_history w allow force store (finder_paths (g :: r) syspath) [] steps s =
    run_phases allow force store (map (phase_of_step w (g :: r)) steps) s.
Proof. exact history_refines_to_fresh_loaders. Qed.
Print Assumptions C15_history_refines_to_fresh_loaders.
