(* C15 — Static loading never executes analysed code; interpreter state is restored.
   Property theorems only: each closed by [exact] of a lemma from Proofs/, followed by Print Assumptions.
   agent_ladder, not_found_reraises, the handler tables and the sys_path protocol flags are the definitions of
   Gen/C15_ladder.v, regenerated from loader.py / importer.py on every run. *)
From Coq Require Import List ZArith String Bool Arith.
From Verif Require Import Lib.Sexp Model.C15_base Gen.C15_ladder Model.C15_loader Proofs.C15_loader.
Import ListNotations.
Open Scope list_scope. Open Scope nat_scope.

(* The agent-selection ladder never picks the inspector when inspection is neither allowed nor forced:
   for every path kind (namespace directory list or file) and every suffix. *)
Theorem C15_no_inspect_when_disallowed :
  forall is_list suffix, agent_ladder is_list false false suffix <> AInspect.
Proof. exact ladder_never_inspects_when_disallowed. Qed.
Print Assumptions C15_no_inspect_when_disallowed.

(* A whole session with inspection disallowed -- the root load (found package, namespace package, not found: the
   ModuleNotFoundError fallback, missing path), ANY sequence of loads nested in it (the wildcard expansion _load_package
   runs before merging stubs) and ANY sequence of re-entrant loads after it (alias resolution / wildcard expansion),
   in any world (any files, any import-time behaviour) -- runs no module body,
   never reaches the inspector, adds nothing to sys.modules and leaves sys.path (binding, list objects) as it was. *)
Theorem C15_static_session_executes_nothing :
  forall w submodules search nested root reqs s r s',
    session w false false submodules search nested root reqs s = (r, s') ->
    executions s' = executions s /\ inspections s' = inspections s /\ mods s' = mods s /\
    cur s' = cur s /\ next s' = next s /\ heap s' = heap s.
Proof. exact static_session_executes_nothing. Qed.
Print Assumptions C15_static_session_executes_nothing.

(* ... and a static load ends in success, LoadingError, ModuleNotFoundError, or with what the finder itself raised
   (FileNotFoundError for a missing Path, UnicodeDecodeError for a top-level __init__.py that is not UTF-8). *)
Theorem C15_static_root_result :
  forall w submodules search root s,
    let r := fst (load_one w false false submodules search root s) in
    r = None \/ r = Some XLoadingError \/ r = Some XModuleNotFound \/
    exists e, r = Some (ferr_exn e) /\ find_pkg (w_find w) root = FFinderError e.
Proof. exact static_root_result. Qed.
Print Assumptions C15_static_root_result.

(* Compiled modules (any suffix that is not a source suffix) are skipped, not imported: as a submodule the error is
   logged and loading continues with the next one in an unchanged interpreter; as the top module the load is refused. *)
Theorem C15_compiled_skipped :
  forall w search nsroot f subs loaded s,
    source_suffix (m_suffix f) = false ->
    (nsroot = true \/ mem_name (removelast (m_name f)) loaded = true) ->
    load_subs w false false search nsroot (f :: subs) loaded s =
    load_subs w false false search nsroot subs loaded (log_ev (EvSkip (m_name f) (m_suffix f)) s).
Proof. exact compiled_submodule_skipped. Qed.
Print Assumptions C15_compiled_skipped.

Theorem C15_compiled_top_rejected :
  forall np w submodules search top subs stubs s,
    source_suffix (m_suffix top) = false ->
    load_package_with np w false false submodules search top subs stubs s = (Some XLoadingError, s).
Proof. exact compiled_top_rejected. Qed.
Print Assumptions C15_compiled_top_rejected.

(* resolve_external=False never re-enters load; the default (None) only for the private sibling `_pkg`. *)
Theorem C15_no_reentry_when_external_false :
  forall sibling failed same_pkg loaded,
    alias_reentry_gate (Some false) sibling failed same_pkg loaded = false /\ wildcard_reentry_skip (Some false) sibling = true.
Proof. exact no_reentry_when_external_false. Qed.
Print Assumptions C15_no_reentry_when_external_false.

(* Whatever the flags, the world (every placement of raising / exiting / missing-dependency imports, every in-place
   mutation or rebinding of sys.path by imported code) and the re-entries: after the session sys.path is bound to the same
   list object and that object has the same contents. *)
Theorem C15_sys_path_restored :
  forall w allow force submodules search nested root reqs s r s',
    wf s -> search <> [] ->
    session w allow force submodules search nested root reqs s = (r, s') ->
    cur s' = cur s /\ heap s' (cur s) = heap s (cur s).
Proof. exact sys_path_restored. Qed.
Print Assumptions C15_sys_path_restored.

(* for a package found on disk no assumption on the search paths is needed *)
Theorem C15_sys_path_restored_found_package :
  forall w allow force submodules search top subs stubs s r s',
    wf s -> load_package_with no_nested w allow force submodules search top subs stubs s = (r, s') ->
    cur s' = cur s /\ heap s' (cur s) = heap s (cur s).
Proof. exact sys_path_restored_found_package. Qed.
Print Assumptions C15_sys_path_restored_found_package.

(* Import-time failures (exception, SystemExit, KeyboardInterrupt, missing dependency at any import attempt; failing
   attribute access in dynamic_import; SystemExit while walking the imported module) leave load as ImportError,
   ModuleNotFoundError or LoadingError; anything else is what the finder raised before any loading started. *)
Theorem C15_failures_become_importerror :
  forall w allow force submodules search nested root s x,
    walk_exit_only w ->
    fst (load_root w allow force submodules search nested root s) = Some x ->
    import_family x = true \/
    exists q e, In q (root :: nested) /\ x = ferr_exn e /\ find_pkg (w_find w) q = FFinderError e.
Proof. exact failures_become_importerror. Qed.
Print Assumptions C15_failures_become_importerror.

(* With no assumption on the world at all: SystemExit never leaves a session. *)
Theorem C15_system_exit_never_escapes :
  forall w allow force submodules search nested root reqs s,
    fst (session w allow force submodules search nested root reqs s) <> Some XSystemExit.
Proof. exact system_exit_never_escapes. Qed.
Print Assumptions C15_system_exit_never_escapes.
