(* C07 — Method resolution order and inherited members equal CPython's.
   Property theorems only: each closed by [exact] of a lemma from Proofs/, followed by Print Assumptions.
   Model/C07_mro.v: c3linear_merge, Class._mro/mro, inherited_members, all_members (Griffe) and
   pmerge, mro_implementation, lookup through tp_mro (CPython, `object` elided). *)
From Coq Require Import List ZArith String Bool Arith.
From Verif Require Import Lib.Sexp Model.C07_mro Proofs.C07_mro.
Import ListNotations.
Open Scope string_scope. Open Scope list_scope. Open Scope nat_scope.

(* Griffe's deque-based merge and CPython's index-vector pmerge are the same function on every list of lists:
   same linearisation when there is one, failure on exactly the same inputs. *)
Theorem C07_merge_eq_pmerge : forall ls, c3linear_merge ls = cpython_pmerge ls.
Proof. exact merge_eq_pmerge. Qed.
Print Assumptions C07_merge_eq_pmerge.

(* The `while True` loop ends: the fuel (total length + 1) is never exhausted. *)
Theorem C07_merge_terminates : forall ls, c3linear_merge ls <> OutOfFuel.
Proof. exact c3linear_merge_total. Qed.
Print Assumptions C07_merge_terminates.

(* The C3 conditions: no duplicates, exactly the input elements, every input list's order preserved. *)
Theorem C07_merge_sound : forall ls r, c3linear_merge ls = Ok r ->
  NoDup r /\ (forall x, In x r <-> exists l, In l ls /\ In x l) /\ (forall l, In l ls -> Subseq l r).
Proof. exact c3linear_merge_sound. Qed.
Print Assumptions C07_merge_sound.

(* `class C(A, A)`: CPython's check_duplicates; Griffe's merge fails too because the bases list is merged last. *)
Theorem C07_merge_duplicate_rejected : forall ls l, In l ls -> has_dup l = true -> c3linear_merge ls = Fail Inconsistent.
Proof. exact c3linear_merge_dup_fails. Qed.
Print Assumptions C07_merge_duplicate_rejected.

(* For every hierarchy a Python program can express (bases created before the class), of any size and any
   number of bases: Class._mro gives CPython's MRO, and is uncomputable (ValueError) exactly where CPython
   raises TypeError; neither side runs out of fuel. *)
Theorem C07_mro_eq_cpython : forall t c, ordered t -> c < List.length t ->
  griffe_full_mro t c = cpython_mro t c /\ cpython_mro t c <> OutOfFuel.
Proof. exact mro_eq_cpython. Qed.
Print Assumptions C07_mro_eq_cpython.

(* Eliding `object` is sound.  Merge level: appending a common last element o to the linearisations (not to the
   bases list) appends o to the result and preserves failure.  Table level: CPython's MRO with `object` spelled
   out is the elided MRO followed by `object`, with the same TypeErrors. *)
Theorem C07_merge_object_elision : forall o ms bs, ms <> [] -> (forall l, In l ms -> ~ In o l) -> ~ In o bs ->
  (forall b, In b bs -> exists l, In l ms /\ In b l) ->
  c3linear_merge (map (fun l => l ++ [o]) ms ++ [bs]) = add_obj o (c3linear_merge (ms ++ [bs])).
Proof. exact object_elision. Qed.
Print Assumptions C07_merge_object_elision.

Theorem C07_mro_object_elision : forall t c, ordered t -> c < List.length t ->
  cpython_mro_obj t c = add_obj (List.length t) (cpython_mro t c).
Proof. exact cpython_mro_obj_eq. Qed.
Print Assumptions C07_mro_object_elision.

(* Arbitrary tables (cycles, self-bases, unresolvable bases): the recursion of _mro stops within #classes + 1
   levels, and a class that reaches an inheritance cycle is reported as uncomputable. *)
Theorem C07_cycle_reported_not_looped : forall t c, c < List.length t ->
  griffe_full_mro t c <> OutOfFuel /\
  (forall d, d = c \/ reach t c d -> reach t d d -> exists e, griffe_full_mro t c = Fail e).
Proof. intros t c Hc. split; [exact (griffe_full_mro_total t c Hc)|]. intros d. exact (cycle_reported t c d Hc). Qed.
Print Assumptions C07_cycle_reported_not_looped.

(* "inheritance cycle detected" is only ever said of a class that does reach a cycle; never for a Python-expressible table. *)
Theorem C07_cycle_error_truthful : forall t c,
  (griffe_full_mro t c = Fail Cycle -> exists d, (d = c \/ reach t c d) /\ reach t d d) /\
  (ordered t -> c < List.length t -> griffe_full_mro t c <> Fail Cycle).
Proof. intros t c. split; [exact (cycle_error_truthful t c)|exact (ordered_never_cycle t c)]. Qed.
Print Assumptions C07_cycle_error_truthful.

(* inherited_members: the nearest definition along the MRO wins; a name declared by the class is never inherited. *)
Theorem C07_inherited_nearest_wins : forall t c m n, griffe_mro t c = Ok m ->
  lookup n (inherited_members t c) =
  if smem n (cmembers (nth_cls t c)) then None
  else option_map (fun k => mkAlias n c k true) (first_definer t m n).
Proof. exact inherited_nearest_wins. Qed.
Print Assumptions C07_inherited_nearest_wins.

(* all_members = {**inherited, **members}: a declared member is never shadowed. *)
Theorem C07_declared_not_shadowed : forall t c n,
  lookup n (all_members t c) =
  if smem n (cmembers (nth_cls t c)) then Some (Own c n) else option_map Inh (lookup n (inherited_members t c)).
Proof. exact all_members_lookup. Qed.
Print Assumptions C07_declared_not_shadowed.

(* Which class provides attribute n: Griffe's all_members agrees with CPython's lookup through tp_mro. *)
Theorem C07_all_members_eq_getattr : forall t c n, ordered t -> c < List.length t -> (exists m, cpython_mro t c = Ok m) ->
  option_map entry_owner (lookup n (all_members t c)) = cpython_getattr t c n.
Proof. exact all_members_eq_getattr. Qed.
Print Assumptions C07_all_members_eq_getattr.

(* Inherited members are aliases flagged `inherited`, whose path is under the subclass and whose target is the
   member of a class of the MRO that declares the name. *)
Theorem C07_inherited_paths : forall t c n a, lookup n (inherited_members t c) = Some a ->
  al_name a = n /\ al_parent a = c /\ al_inherited a = true /\
  alias_path t a = (cpath (nth_cls t c) ++ "." ++ n)%string /\
  alias_target_path t a = (cpath (nth_cls t (al_owner a)) ++ "." ++ n)%string /\
  smem n (cmembers (nth_cls t c)) = false /\
  exists m, griffe_mro t c = Ok m /\ In (al_owner a) m /\ smem n (cmembers (nth_cls t (al_owner a))) = true.
Proof. exact inherited_paths. Qed.
Print Assumptions C07_inherited_paths.

(* An uncomputable MRO yields no inherited members (the ValueError is caught), never a partial or wrong set. *)
Theorem C07_uncomputable_no_inherited : forall t c e, griffe_mro t c = Fail e -> inherited_members t c = [].
Proof. exact inherited_uncomputable_empty. Qed.
Print Assumptions C07_uncomputable_no_inherited.
