(* C07 — Method resolution order and inherited members equal CPython's.
   Property theorems only: each closed by [exact] of a lemma from Proofs/, followed by Print Assumptions.
   Model/C07_mro.v: c3linear_merge, Class._mro/mro, inherited_members, all_members (Griffe) and
   pmerge, mro_implementation, lookup through tp_mro (CPython, `object` elided). *)
From Coq Require Import List ZArith String Bool Arith.
From Verif Require Import Lib.Sexp Model.C07_mro Proofs.C07_mro Model.C07_bases Proofs.C07_bases Proofs.C07_hidden Proofs.C07_pyeval.
Import ListNotations.
Open Scope string_scope. Open Scope list_scope. Open Scope nat_scope.

(* Griffe's deque-based merge and CPython's index-vector pmerge are the same function on every list of lists:
   same linearisation when there is one, failure on exactly the same inputs. *)
Theorem C07_merge_eq_pmerge : forall ls, c3linear_merge ls = cpython_pmerge ls.
Proof. exact merge_eq_pmerge. Qed.
Print Assumptions C07_merge_eq_pmerge.

(* The `while True` loop ends: the fuel (total length + 1) is never exhausted. *)
Theorem C07_merge_terminates : forall ls, c3linear_merge ls <> OutOfFuel.
Proof. exact c3linear_merge_total. Qed.
Print Assumptions C07_merge_terminates.

(* The C3 conditions: no duplicates, exactly the input elements, every input list's order preserved. *)
Theorem C07_merge_sound : forall ls r, c3linear_merge ls = Ok r ->
  NoDup r /\ (forall x, In x r <-> exists l, In l ls /\ In x l) /\ (forall l, In l ls -> Subseq l r).
Proof. exact c3linear_merge_sound. Qed.
Print Assumptions C07_merge_sound.

(* `class C(A, A)`: CPython's check_duplicates; Griffe's merge fails too because the bases list is merged last. *)
Theorem C07_merge_duplicate_rejected : forall ls l, In l ls -> has_dup l = true -> c3linear_merge ls = Fail Inconsistent.
Proof. exact c3linear_merge_dup_fails. Qed.
Print Assumptions C07_merge_duplicate_rejected.

(* For every hierarchy a Python program can express (bases created before the class), of any size and any
   number of bases: Class._mro gives CPython's MRO, and is uncomputable (ValueError) exactly where CPython
   raises TypeError; neither side runs out of fuel. *)
Theorem C07_mro_eq_cpython : forall t c, ordered t -> c < List.length t ->
  griffe_full_mro t c = cpython_mro t c /\ cpython_mro t c <> OutOfFuel.
Proof. exact mro_eq_cpython. Qed.
Print Assumptions C07_mro_eq_cpython.

(* Eliding `object` is sound.  Merge level: appending a common last element o to the linearisations (not to the
   bases list) appends o to the result and preserves failure.  Table level: CPython's MRO with `object` spelled
   out is the elided MRO followed by `object`, with the same TypeErrors. *)
Theorem C07_merge_object_elision : forall o ms bs, ms <> [] -> (forall l, In l ms -> ~ In o l) -> ~ In o bs ->
  (forall b, In b bs -> exists l, In l ms /\ In b l) ->
  c3linear_merge (map (fun l => l ++ [o]) ms ++ [bs]) = add_obj o (c3linear_merge (ms ++ [bs])).
Proof. exact object_elision. Qed.
Print Assumptions C07_merge_object_elision.

Theorem C07_mro_object_elision : forall t c, ordered t -> c < List.length t ->
  cpython_mro_obj t c = add_obj (List.length t) (cpython_mro t c).
Proof. exact cpython_mro_obj_eq. Qed.
Print Assumptions C07_mro_object_elision.

(* Arbitrary tables (cycles, self-bases, unresolvable bases): the recursion of _mro stops within #classes + 1
   levels, and a class that reaches an inheritance cycle is reported as uncomputable. *)
Theorem C07_cycle_reported_not_looped : forall t c, c < List.length t ->
  griffe_full_mro t c <> OutOfFuel /\
  (forall d, d = c \/ reach t c d -> reach t d d -> exists e, griffe_full_mro t c = Fail e).
Proof. intros t c Hc. split; [exact (griffe_full_mro_total t c Hc)|]. intros d. exact (cycle_reported t c d Hc). Qed.
Print Assumptions C07_cycle_reported_not_looped.

(* "inheritance cycle detected" is only ever said of a class that does reach a cycle; never for a Python-expressible table. *)
Theorem C07_cycle_error_truthful : forall t c,
  (griffe_full_mro t c = Fail Cycle -> exists d, (d = c \/ reach t c d) /\ reach t d d) /\
  (ordered t -> c < List.length t -> griffe_full_mro t c <> Fail Cycle).
Proof. intros t c. split; [exact (cycle_error_truthful t c)|exact (ordered_never_cycle t c)]. Qed.
Print Assumptions C07_cycle_error_truthful.

(* inherited_members: the nearest definition along the MRO wins; a name declared by the class is never inherited. *)
Theorem C07_inherited_nearest_wins : forall t c m n, griffe_mro t c = Ok m ->
  lookup n (inherited_members t c) =
  if smem n (cmembers (nth_cls t c)) then None
  else option_map (fun k => mkAlias n c k true) (first_definer t m n).
Proof. exact inherited_nearest_wins. Qed.
Print Assumptions C07_inherited_nearest_wins.

(* all_members = {**inherited, **members}: a declared member is never shadowed. *)
Theorem C07_declared_not_shadowed : forall t c n,
  lookup n (all_members t c) =
  if smem n (cmembers (nth_cls t c)) then Some (Own c n) else option_map Inh (lookup n (inherited_members t c)).
Proof. exact all_members_lookup. Qed.
Print Assumptions C07_declared_not_shadowed.

(* Which class provides attribute n: Griffe's all_members agrees with CPython's lookup through tp_mro. *)
Theorem C07_all_members_eq_getattr : forall t c n, ordered t -> c < List.length t -> (exists m, cpython_mro t c = Ok m) ->
  option_map entry_owner (lookup n (all_members t c)) = cpython_getattr t c n.
Proof. exact all_members_eq_getattr. Qed.
Print Assumptions C07_all_members_eq_getattr.

(* Inherited members are aliases flagged `inherited`, whose path is under the subclass and whose target is the
   member of a class of the MRO that declares the name. *)
Theorem C07_inherited_paths : forall t c n a, lookup n (inherited_members t c) = Some a ->
  al_name a = n /\ al_parent a = c /\ al_inherited a = true /\
  alias_path t a = (cpath (nth_cls t c) ++ "." ++ n)%string /\
  alias_target_path t a = (cpath (nth_cls t (al_owner a)) ++ "." ++ n)%string /\
  smem n (cmembers (nth_cls t c)) = false /\
  exists m, griffe_mro t c = Ok m /\ In (al_owner a) m /\ smem n (cmembers (nth_cls t (al_owner a))) = true.
Proof. exact inherited_paths. Qed.
Print Assumptions C07_inherited_paths.

(* An uncomputable MRO yields no inherited members (the ValueError is caught), never a partial or wrong set. *)
Theorem C07_uncomputable_no_inherited : forall t c e, griffe_mro t c = Fail e -> inherited_members t c = [].
Proof. exact inherited_uncomputable_empty. Qed.
Print Assumptions C07_uncomputable_no_inherited.

(* ================================================================================================
   From the bases as written to Class.resolved_bases (Model/C07_bases.v): Expr.canonical_path through
   Object.resolve, the walk of ModulesCollection.get_member through aliases, Alias.final_target with its cycle
   guards, the except-and-drop of resolved_bases and the is_class filter of _mro -- against the Python reading
   of the same expressions (an assigned name denotes its value).
   ================================================================================================ *)

(* Resolution always returns: alias chains and cycles, dangling targets, any heap, any expression -- the walk through
   aliases (either reading) ... *)
Theorem C07_resolve_total : forall follow h scope e, resolve_base follow h scope e <> RFuel.
Proof. exact resolve_base_total. Qed.
Print Assumptions C07_resolve_total.

(* ... and Class.resolved_bases as a whole, with its loop following assigned names (fix 3a123f9): assignment cycles
   (A = B; B = A) are dropped, not looped on. *)
Theorem C07_resolved_bases_total : forall subs h scope e, gresolve_s subs h scope e <> RFuel.
Proof. exact gresolve_total. Qed.
Print Assumptions C07_resolved_bases_total.

(* `A[int]`, `Generic[T]`: a subscripted base resolves as its left part. *)
Theorem C07_resolve_subscript_transparent : forall follow h scope e,
  resolve_base follow h scope (BSub e) = resolve_base follow h scope e.
Proof. exact resolve_subscript. Qed.
Print Assumptions C07_resolve_subscript_transparent.

(* What resolved_bases holds is an object of the collection, never an alias (final_target went all the way). *)
Theorem C07_resolve_result_is_object : forall subs h scope e q k, gresolve_s subs h scope e = Found q k ->
  find_obj h q = Some k /\ (forall t, k <> KAlias t).
Proof. exact gresolve_found. Qed.
Print Assumptions C07_resolve_result_is_object.

(* Soundness of the walk: whatever get_member + final_target reach -- unless it is an assigned name -- is what the
   expression denotes in Python (nested evaluation), through any chain of import aliases, re-exports, module aliases
   and holder classes; and resolved_bases returns exactly that. *)
Theorem C07_resolved_base_sound : forall h scope e q k, attr_leaf h ->
  resolve_base false h scope e = Found q k -> not_attr k ->
  gresolve h scope e = Found q k /\ resolve_base true h scope e = Found q k.
Proof. exact gresolve_sound_direct. Qed.
Print Assumptions C07_resolved_base_sound.

(* resolved_bases + is_class filter, any list of bases, against the reading in which every assigned name denotes its
   value: Griffe's bases are a subsequence (same order, nothing invented) ... *)
Theorem C07_resolved_bases_subseq : forall h scope es bs, map_opt (p1base h scope) es = Some bs ->
  Subseq (gbases h scope es) bs.
Proof. exact gbases_subseq. Qed.
Print Assumptions C07_resolved_bases_subseq.

(* ... and exactly those bases when every base expression resolves to a class. *)
Theorem C07_resolved_bases_complete : forall h scope es, forallb (kept h scope) es = true ->
  map_opt (p1base h scope) es = Some (gbases h scope es).
Proof. exact gbases_complete. Qed.
Print Assumptions C07_resolved_bases_complete.

(* When no base goes through an assignment, they are Python's bases (full nested reading). *)
Theorem C07_resolved_bases_alias_only : forall h scope es, attr_leaf h ->
  forallb (fun e => match resolve_base false h scope e with Found _ (KCls _) => true | _ => false end) es = true ->
  map_opt (pbase h scope) es = Some (gbases h scope es).
Proof. exact gbases_alias_only. Qed.
Print Assumptions C07_resolved_bases_alias_only.

(* Was finding C07-F2, repaired by 3a123f9.  The loop agrees with "every assigned name denotes its value" on every
   heap and every base, UNLESS its answer is an attribute -- i.e. unless it stopped at a subscripted value. *)
Theorem C07_resolve_complete_modulo_assign : forall h scope e,
  (forall q v, gresolve h scope e <> Found q (KAttr v)) -> gresolve_s true h scope e = gresolve h scope e.
Proof. exact gresolve_agree. Qed.
Print Assumptions C07_resolve_complete_modulo_assign.

(* What remains (finding C07-F2, narrowed): (a) `IntG = G[int]; class D(IntG)` -- subscripted value not followed;
   (b) `ns = H; class E(ns.Inner)` -- an assigned name in the middle of an attribute chain; (c) `Base = K1;
   class C(Base); Base = K2` -- the collection keeps the last binding (Griffe: K2, CPython: K1). *)
Theorem C07_resolve_assign_narrowed_refuted :
  (gbases sub_heap ["m"] [BName "IntG"] = [] /\ pbases sub_heap ["m"] [BName "IntG"] = Some [0] /\
   stops_at_attr sub_heap ["m"] (BName "IntG") = true) /\
  (gbases mid_heap ["m"] [BAttr (BName "ns") "Inner"] = [] /\ pbases mid_heap ["m"] [BAttr (BName "ns") "Inner"] = Some [0]) /\
  (cbases (nth_cls (gtbl rebind_prog) 2) = [1] /\ cbases (nth_cls (ptbl rebind_prog) 2) = [0] /\
   misresolved rebind_prog (mkX ["m"; "C"] ["m"] [BName "Base"] [] []) (BName "Base") = true).
Proof. exact resolve_assign_narrowed_refuted. Qed.
Print Assumptions C07_resolve_assign_narrowed_refuted.

(* ================================================================================================
   Bases the collection does not hold (typing.Generic, object, unloaded packages) are dropped before the merge.
   ================================================================================================ *)

(* Erasing a class that is last wherever it occurs commutes with the C3 merge, failures included. *)
Theorem C07_merge_last_only_elision : forall x ls, lo_all x ls ->
  c3linear_merge (dropl x ls) = map_ok (drop x) (c3linear_merge ls).
Proof. exact last_only_elision. Qed.
Print Assumptions C07_merge_last_only_elision.

(* The hypothesis is needed. *)
Theorem C07_merge_last_only_needed : exists x ls r r',
  c3linear_merge ls = Ok r /\ c3linear_merge (dropl x ls) = Ok r' /\ r' <> drop x r.
Proof. exact last_only_needed. Qed.
Print Assumptions C07_merge_last_only_needed.

(* Empty linearisations are neutral for the merge. *)
Theorem C07_merge_nil_neutral : forall ls, c3linear_merge (nonnil ls) = c3linear_merge ls.
Proof. exact merge_nil_neutral. Qed.
Print Assumptions C07_merge_nil_neutral.

(* Finding C07-F1: P(A, Generic), Q(Generic), S(P, B), Z(S, Q) with Generic not loaded -- every bases list has the
   hidden class last, yet Griffe's MRO of Z orders B before Q (CPython: Q before B) and attributes f0 to B. *)
Theorem C07_hidden_refuted : exists t x c m m', ordered t /\
  (forall d, d < List.length t -> last_only x (cbases (nth_cls t d)) = true) /\
  cpython_mro t c = Ok m /\ griffe_full_mro (hide x t) c = Ok m' /\ m' <> drop x m /\
  first_definer t m "f0" = Some 4 /\ first_definer (hide x t) m' "f0" = Some 1.
Proof. exact hidden_refuted. Qed.
Print Assumptions C07_hidden_refuted.

(* For every Python-expressible hierarchy and every root class x the collection does not hold: if x is written last
   in the bases lists (classes up to c) and is last in every linearisation below c, Griffe's MRO on the collection
   without x is CPython's MRO with x erased -- same order, uncomputable exactly when CPython raises. *)
Theorem C07_hidden_last_only : forall t x, ordered t -> cbases (nth_cls t x) = [] ->
  forall c, c < List.length t -> c <> x ->
  (forall d, d <= c -> last_only x (cbases (nth_cls t d)) = true) ->
  (forall d m, d < c -> cpython_mro t d = Ok m -> last_only x m = true) ->
  griffe_full_mro (hide x t) c = map_ok (drop x) (cpython_mro t c).
Proof. exact hidden_last_only. Qed.
Print Assumptions C07_hidden_last_only.

(* The same with the decidable gap predicate that the check evaluates. *)
Theorem C07_hidden_modulo_known : forall t x c, ordered t -> cbases (nth_cls t x) = [] -> c < List.length t -> c <> x ->
  ext_not_last t x c = false ->
  griffe_full_mro (hide x t) c = map_ok (drop x) (cpython_mro t c).
Proof. exact hidden_modulo_known. Qed.
Print Assumptions C07_hidden_modulo_known.

(* The spec used for generated programs (external root classes, `object` possibly written among the bases) is
   conservative: on a table that never writes `object` it is the elided spec followed by object. *)
Theorem C07_mro_ext_conservative : forall t c, ordered t -> c < List.length t ->
  cpython_mro_ext t c = add_obj (List.length t) (cpython_mro t c).
Proof. exact cpython_mro_ext_eq. Qed.
Print Assumptions C07_mro_ext_conservative.

(* Aliases as members: where an inherited alias finally leads is the owner's own member, or -- when that member is an
   import inside the class body -- the object at the end of its alias chain in the collection; never an alias. *)
Theorem C07_inherited_final_is_object : forall g owner n q k, member_final g owner n = Found q k ->
  (forall t, k <> KAlias t) /\
  (lookup n (xmalias (nth owner (pclasses g) (mkX [] [] [] [] []))) = None ->
   q = xpath (nth owner (pclasses g) (mkX [] [] [] [] [])) ++ [n]) /\
  (forall tgt, lookup n (xmalias (nth owner (pclasses g) (mkX [] [] [] [] []))) = Some tgt ->
   lookup_path false (pheap g) tgt = Found q k /\ find_obj (pheap g) q = Some k).
Proof. exact inherited_final_object. Qed.
Print Assumptions C07_inherited_final_is_object.

(* ================================================================================================
   The loop of resolved_bases against Python's NESTED evaluation (Model/C07_bases.v, pyfin: an assigned name denotes
   its value wherever it stands in the chain; the value was computed on its own), for bases WITH assignments.
   ================================================================================================ *)

(* Whatever Class.resolved_bases finds for a base -- through import aliases, re-exports, module aliases, holder classes
   AND chains of assignments -- is what the expression denotes under Python's nested evaluation; fuel (2+#objects)^2. *)
Theorem C07_resolved_base_sound_py : forall h scope e q k, attr_leaf h ->
  gresolve h scope e = Found q k -> not_attr k -> pyresolve h scope e = Found q k.
Proof. exact resolved_base_sound_py. Qed.
Print Assumptions C07_resolved_base_sound_py.

(* Hence, for every list of bases: Griffe's bases are a subsequence of Python's bases ... *)
Theorem C07_resolved_bases_subseq_py : forall h scope es bs, attr_leaf h -> map_opt (pybase h scope) es = Some bs ->
  Subseq (gbases h scope es) bs.
Proof. exact gbases_subseq_py. Qed.
Print Assumptions C07_resolved_bases_subseq_py.

(* ... and exactly Python's bases when every base resolves to a class. *)
Theorem C07_resolved_bases_complete_py : forall h scope es, attr_leaf h -> forallb (kept h scope) es = true ->
  map_opt (pybase h scope) es = Some (gbases h scope es).
Proof. exact gbases_complete_py. Qed.
Print Assumptions C07_resolved_bases_complete_py.

(* Several classes the collection does not hold (typing.Generic, abc.ABC, ...): hidden one after the other, each last-only
   in the table left by the previous ones (decidable, evaluated by the check on every class of every program). *)
Theorem C07_hidden_all : forall xs t c, ordered t -> (forall x, In x xs -> cbases (nth_cls t x) = []) ->
  c < List.length t -> ~ In c xs -> ext_last_only_all t xs c = true ->
  griffe_full_mro (hide_all xs t) c = map_ok (drop_all xs) (cpython_mro t c).
Proof. exact hidden_all. Qed.
Print Assumptions C07_hidden_all.
