(* C12 — Docstring parsers are total and terminating on arbitrary text.
   Property theorems only: each closed by [exact] of a lemma from Proofs/, followed by Print Assumptions.
   A docstring is a list of line-feature records ([lf], one per line of Docstring.lines); every lines[i] of the
   Python code is an explicit lookup whose failure is [Err IndexError]; the three offset-driven main loops run on
   fuel [S (length lines)] and report [Err OutOfFuel] when it runs out. *)
From Coq Require Import List ZArith String Bool Arith.
From Verif Require Import Lib.Sexp Model.C12_docstrings Proofs.C12_docstrings Model.C12_regex Gen.C12_regexes Proofs.C12_regex Proofs.C12_regex2 Proofs.C12_regex3 Model.C12_chars Model.C12_run Proofs.C12_chars Model.C12_history Proofs.C12_history Model.C12_guards Gen.C12_guards Proofs.C12_guards.
Import ListNotations.
Open Scope list_scope. Open Scope nat_scope.

(* ---- termination: len(lines)+1 iterations always suffice, for every line sequence, option set and parent ---- *)
Theorem C12_google_terminates : forall lines o p, g_parse lines o p <> Err OutOfFuel.
Proof. exact google_terminates. Qed.
Print Assumptions C12_google_terminates.

Theorem C12_numpy_terminates : forall lines o p, n_parse lines o p <> Err OutOfFuel.
Proof. exact numpy_terminates. Qed.
Print Assumptions C12_numpy_terminates.

Theorem C12_sphinx_terminates : forall lines, s_parse lines <> Err OutOfFuel.
Proof. exact sphinx_terminates. Qed.
Print Assumptions C12_sphinx_terminates.

(* the offset contract behind it: a reader called at [offset] hands back at least offset - 1 *)
Theorem C12_google_reader_offset_contract :
  forall lines o k offset n off', g_reader lines o k offset = Ok (n, off') ->
    offset <= S off' /\ off' <= Nat.max offset (List.length lines).
Proof. exact g_reader_off. Qed.
Print Assumptions C12_google_reader_offset_contract.

Theorem C12_numpy_reader_offset_contract :
  forall lines k offset n off', n_reader lines k offset = Ok (n, off') ->
    offset <= S off' /\ off' <= Nat.max offset (List.length lines).
Proof. exact n_reader_off. Qed.
Print Assumptions C12_numpy_reader_offset_contract.

(* ---- totality: no lookup fails.  Google and Sphinx need no hypothesis at all (the indented-line-below test
   guarantees a non-blank line for the readers' blank-line skip); Numpy needs the cleandoc post-condition of
   Docstring.__init__, and without it IndexError does occur. ---- *)
Theorem C12_google_total : forall lines o p, exists secs, g_parse lines o p = Ok secs.
Proof. exact google_total. Qed.
Print Assumptions C12_google_total.

Theorem C12_numpy_total :
  forall lines o p, cleandoc_post lines = true -> exists secs, n_parse lines o p = Ok secs.
Proof. exact numpy_total. Qed.
Print Assumptions C12_numpy_total.

Theorem C12_numpy_index_error_without_cleandoc :
  exists lines, cleandoc_post lines = false /\ n_parse lines gopts_default no_parent = Err IndexError.
Proof. exact numpy_index_error_without_cleandoc. Qed.
Print Assumptions C12_numpy_index_error_without_cleandoc.

Theorem C12_sphinx_total : forall lines, exists secs, s_parse lines = Ok secs.
Proof. exact sphinx_total. Qed.
Print Assumptions C12_sphinx_total.

(* ---- text without section syntax: exactly one text section made of all lines, in order ----
   Google: no line matches the admonition/section-header pattern.  The whole behaviour is pinned, including the two
   options that touch plain text by design: ignore_init_summary on a Class.__init__ docstring starts at line 2, and
   returns_type_in_property_summary on a property cuts "type:" off the first non-blank line and appends a Returns
   section.  Lines are taken verbatim ([idx_text]: no line is emptied). *)
Theorem C12_google_plain_text_single_section :
  forall lines o p,
    (forall l, In l lines -> gadm l = ANone) ->
    g_parse lines o p =
    Ok (if List.length lines <=? g_start o p then []
        else if o_ret_prop o && p_property p && fnc_lines (skipn (g_start o p) lines)
             then [SText (idx_text (g_start o p) (List.length lines - g_start o p)) true true; SSec KReturns 0 1]
             else [SText (idx_text (g_start o p) (List.length lines - g_start o p))
                         (fnc_lines (skipn (g_start o p) lines)) false]).
Proof. exact google_plain_text. Qed.
Print Assumptions C12_google_plain_text_single_section.

(* Sphinx: no line starts a field.  The text is every line after the leading blank ones, verbatim. *)
Theorem C12_sphinx_plain_text_single_section :
  forall lines,
    (forall l, In l lines -> sfield l = None) -> cleandoc_post lines = true ->
    s_parse lines =
    Ok [SText (idx_text (leading_blank lines) (List.length lines - leading_blank lines)) false false].
Proof. exact sphinx_plain_text. Qed.
Print Assumptions C12_sphinx_plain_text_single_section.

(* Numpy: no dash line.  One text section with every line from the start offset on, in order, where only blank
   lines may have been emptied ("whitespace on otherwise blank lines aside"); the empty docstring gives one empty
   text section (finding C12-F1, repaired). *)
Theorem C12_numpy_plain_text_single_section :
  forall lines o p,
    (forall l, In l lines -> dash l = false) ->
    cleandoc_post lines = true -> lines_wf lines = true ->
    exists ls fc,
      n_parse lines o p = Ok (if List.length lines <=? g_start o p then [] else [SText ls fc false]) /\
      (g_start o p < List.length lines ->
       map fst ls = seq (g_start o p) (List.length lines - g_start o p) /\
       forall i b, In (i, b) ls -> b = true -> exists l, nth_error lines i = Some l /\ blank l = true).
Proof. exact numpy_plain_text. Qed.
Print Assumptions C12_numpy_plain_text_single_section.

(* ---- well-formed sections: text lines exist, admonitions have a header above a non-empty block inside the
   docstring, every other section has at least one item and an existing header; Sphinx returns its text first ---- *)
Theorem C12_google_sections_well_formed :
  forall lines o p secs, g_parse lines o p = Ok secs -> wf_sections (List.length lines) secs = true.
Proof. exact google_sections_well_formed. Qed.
Print Assumptions C12_google_sections_well_formed.

Theorem C12_numpy_sections_well_formed :
  forall lines o p secs, n_parse lines o p = Ok secs -> wf_sections (List.length lines) secs = true.
Proof. exact numpy_sections_well_formed. Qed.
Print Assumptions C12_numpy_sections_well_formed.

Theorem C12_sphinx_sections_well_formed :
  forall lines secs, s_parse lines = Ok secs ->
    wf_sections (List.length lines) secs = true /\ exists ls rest, secs = SText ls false false :: rest.
Proof. exact sphinx_sections_well_formed. Qed.
Print Assumptions C12_sphinx_sections_well_formed.

(* ---- regex level (Model/C12_regex.v; the regex ASTs are regenerated from /repo on every run) ----
   The step-counting matcher [mc] returns the model matcher's result. *)
Theorem C12_regex_step_counter_faithful :
  forall ic r s, snd (re_match_c ic r s) = re_match ic r s.
Proof. exact re_match_c_result. Qed.
Print Assumptions C12_regex_step_counter_faithful.

(* Criterion A1 (every unbounded quantifier repeats one character matcher) bounds the steps of the model matcher,
   for every subject, every position and every continuation whose calls cost at most K steps. *)
Theorem C12_regex_a1_bounded :
  forall ic (R : Type) r, poly1 r = true ->
    forall n K (p : N) s c (k : kontc R), List.length s <= n ->
      (forall p' s' c', List.length s' <= List.length s -> fst (k p' s' c') <= K) ->
      fst (mc ic r p s c k) <= bound r n K.
Proof. intros ic R r H n K p s c k Hn Hk. apply mc_bound; auto. Qed.
Print Assumptions C12_regex_a1_bounded.

(* pattern.match: at most [bound r |s| 0] steps; search / sub (one attempt per start position): (|s|+1) times that. *)
Theorem C12_regex_match_bounded :
  forall ic r s, poly1 r = true -> fst (re_match_c ic r s) <= bound r (List.length s) 0.
Proof. exact poly1_match_bounded. Qed.
Print Assumptions C12_regex_match_bounded.

Theorem C12_regex_scan_bounded :
  forall ic r, poly1 r = true ->
    forall n s p, List.length s <= n -> re_scan_c ic r p s <= (List.length s + 1) * bound r n 0.
Proof. exact poly1_scan_bounded. Qed.
Print Assumptions C12_regex_scan_bounded.

(* and the bound is a polynomial in the subject length whose degree is the number of unbounded quantifiers *)
Theorem C12_regex_bound_polynomial :
  forall r n K, bound r n K <= coef r * (n + 1) ^ stars r * (K + 1).
Proof. exact bound_polynomial. Qed.
Print Assumptions C12_regex_bound_polynomial.

(* every regular expression found in the docstring parsers meets the criterion A2 (A1, or a delimited deterministic
   iteration); all of them meet A1 itself except the Numpy parameter regex, whose list of further names is a
   delimited iteration *)
Theorem C12_repo_regexes_meet_criterion : forallb (fun x => regex_ok (snd x)) all_regexes = true.
Proof. exact repo_regexes_meet_criterion. Qed.
Print Assumptions C12_repo_regexes_meet_criterion.

Theorem C12_repo_regexes_a1_except :
  map fst (filter (fun x => negb (regex_a1 (snd x))) all_regexes) = ["numpy._RE_PARAMETER"%string].
Proof. exact repo_regexes_a1_except. Qed.
Print Assumptions C12_repo_regexes_a1_except.

(* ---- progress: every iteration of the three main loops moves the cursor strictly forward and stays inside the
   docstring, for every line sequence (the block readers' own loops are structural recursion over the remaining
   lines; the quantifier loop of the matcher only goes on after an iteration that consumed a character) ---- *)
Theorem C12_google_loop_progress :
  forall lines o st st', g_step lines o st = Next st' -> g_off st < g_off st' /\ g_off st < List.length lines.
Proof. exact g_step_next. Qed.
Print Assumptions C12_google_loop_progress.

Theorem C12_numpy_loop_progress :
  forall lines st st', n_step lines st = Next st' -> n_off st < n_off st' /\ n_off st < List.length lines.
Proof. exact n_step_next. Qed.
Print Assumptions C12_numpy_loop_progress.

Theorem C12_sphinx_loop_progress :
  forall lines st st', s_step lines st = Next st' ->
    s_off st < s_off st' /\ s_off st < List.length lines /\ s_off st' <= List.length lines.
Proof. exact s_step_next. Qed.
Print Assumptions C12_sphinx_loop_progress.

(* ---- character level: the line features are computed from the characters inside the model (model matcher on the
   regenerated regexes, regenerated keyword tables) and the items of every section are parsed; no look-up fails, for
   every list of lines of characters, every option set and parent ---- *)
Theorem C12_google_total_at_character_level :
  forall cl o p, exists r, g_parse_full cl o p = Ok r.
Proof. exact google_full_total. Qed.
Print Assumptions C12_google_total_at_character_level.

Theorem C12_numpy_total_at_character_level :
  forall cl o p, cleandoc_post (features cl) = true -> exists r, n_parse_full cl o p = Ok r.
Proof. exact numpy_full_total. Qed.
Print Assumptions C12_numpy_total_at_character_level.

(* the quantifier loop counts its iterations down from the number of characters left; that counter is no cut-off:
   every counter at least that large gives the same result, for every regex, subject, position and continuation *)
Theorem C12_regex_quantifier_counter_irrelevant :
  forall ic (R : Type) g a p s c (k : kont R) n, List.length s <= n ->
    m ic (RStar g a) p s c k = star_loop (m ic a) g k n p s c.
Proof. intros ic R g a p s c k n H. apply star_counter_irrelevant. exact H. Qed.
Print Assumptions C12_regex_quantifier_counter_irrelevant.

(* ---- criterion A2 (A1, or an iteration "delimiter, then a deterministic rest that the delimiter follows") bounds the
   steps as well: a deterministic regex calls its continuation at most once where it can do real work, so an
   iteration costs a polynomial plus the next iteration -- additive, not multiplicative.  For every regex meeting A2,
   every subject of well-formed characters, every position and every continuation costing at most K per call. ---- *)
Theorem C12_regex_class_disjointness_sound :
  forall ic c1 c2 x, cls_disjoint ic c1 c2 = true -> ch_wf x = true ->
    cls_match ic c1 x = true -> cls_match ic c2 x = false.
Proof. exact cls_disjoint_sound. Qed.
Print Assumptions C12_regex_class_disjointness_sound.

Theorem C12_regex_a2_bounded :
  forall ic (R : Type) r, poly2 ic r = true ->
    forall n K p s c (k : kontc R), List.length s <= n -> wf_text s ->
      (forall s', suffix s' s -> forall p' c', fst (k p' s' c') <= K) ->
      fst (mc ic r p s c k) <= bound2 r n K.
Proof. exact poly2_bounded. Qed.
Print Assumptions C12_regex_a2_bounded.

(* every regular expression of the docstring parsers (ASTs regenerated from /repo on every run), every well-formed
   subject: pattern.match takes at most bound2 steps in the model matcher *)
Theorem C12_repo_regexes_bounded :
  forall key x s, In (key, x) all_regexes -> wf_text s ->
    fst (re_match_c (rx_ic x) (rx_re x) s) <= bound2 (rx_re x) (List.length s) 0.
Proof. exact repo_regexes_bounded. Qed.
Print Assumptions C12_repo_regexes_bounded.

(* the subjects the model runs on are well-formed: the decoder of the model's input accepts nothing else *)
Theorem C12_model_subjects_well_formed : forall s t, dec_text s = Some t -> wf_text t.
Proof. exact dec_text_wf. Qed.
Print Assumptions C12_model_subjects_well_formed.

(* ---- no hidden state: histories of parses, assignments to value / parser / parser_options and reads of parsed /
   lines on ONE docstring.  After any history, parse(style, **options) returns what a fresh docstring carrying the
   current attributes returns, which is the pure function of the current text, the effective style and the
   effective options; lines are those of the current value; parsed is computed once (documented caching). ---- *)
Theorem C12_history_parse_equals_fresh :
  forall p pa st ops s o,
    let '(cl, s0, o0) := fields_after (d_lines st) (d_parser st) (d_opts st) ops in
    snd (step p pa (fst (exec p pa st ops)) (OParse s o)) = snd (step p pa (fresh cl s0 o0) (OParse s o)).
Proof. exact history_parse_equals_fresh. Qed.
Print Assumptions C12_history_parse_equals_fresh.

Theorem C12_history_parse_is_function_of_current_state :
  forall p pa st ops s o,
    let '(cl, s0, o0) := fields_after (d_lines st) (d_parser st) (d_opts st) ops in
    snd (step p pa (fst (exec p pa st ops)) (OParse s o)) = ObsParse (parse_pure p pa cl (pick_style s s0) (pick o o0)).
Proof. exact history_parse_is_parse_pure. Qed.
Print Assumptions C12_history_parse_is_function_of_current_state.

Theorem C12_history_lines_current :
  forall p pa st ops,
    let '(cl, _, _) := fields_after (d_lines st) (d_parser st) (d_opts st) ops in
    snd (step p pa (fst (exec p pa st ops)) OReadLines) = ObsLines cl.
Proof. exact history_lines_current. Qed.
Print Assumptions C12_history_lines_current.

Theorem C12_history_parsed_cached :
  forall p pa st ops,
    let st1 := fst (step p pa st OReadParsed) in
    snd (step p pa (fst (exec p pa st1 ops)) OReadParsed) = snd (step p pa st1 OReadParsed).
Proof. exact history_parsed_cached. Qed.
Print Assumptions C12_history_parsed_cached.

(* ---- the A2 bound in closed form: a polynomial in the subject length whose degree is the number of unbounded
   quantifiers along the longest alternative (those of the rest of a delimited iteration included) ---- *)
Theorem C12_regex_bound2_polynomial :
  forall r n K, bound2 r n K <= coef2 r * (n + 1) ^ deg2 r * (K + 1).
Proof. exact bound2_polynomial. Qed.
Print Assumptions C12_regex_bound2_polynomial.

(* every regular expression of the docstring parsers, every well-formed subject: at most coef2 * (|s|+1)^deg2 steps of
   the model matcher, with deg2 <= 8 for each of them (5 is the largest at present) *)
Theorem C12_repo_regexes_polynomial :
  forall key x s, In (key, x) all_regexes -> wf_text s ->
    fst (re_match_c (rx_ic x) (rx_re x) s) <= coef2 (rx_re x) * (List.length s + 1) ^ deg2 (rx_re x)
    /\ deg2 (rx_re x) <= 8.
Proof. exact repo_regexes_polynomial. Qed.
Print Assumptions C12_repo_regexes_polynomial.

(* ---- look-ups on the parent and annotation compilation: for every site found in the parsers (table regenerated
   from /repo: what the operation can raise by its shape, what the enclosing suppress / except clauses catch), every
   exception class that can be raised is a subclass of one that is caught ---- *)
Theorem C12_parent_lookups_guarded :
  forall name raised caught, In (name, raised, caught) guard_sites ->
    forall e, In e raised -> exists c, In c caught /\ subclass e c = true.
Proof. exact repo_guards_sound. Qed.
Print Assumptions C12_parent_lookups_guarded.

(* Sphinx at character level: the field parser s_parse_full is a total function by construction; the control-flow
   result over the features computed from the characters always exists *)
Theorem C12_sphinx_total_at_character_level :
  forall cl, exists secs, s_parse (features cl) = Ok secs.
Proof. intros cl. apply sphinx_total. Qed.
Print Assumptions C12_sphinx_total_at_character_level.
