From Coq Require Import List ZArith String Bool Arith.
From Verif Require Import Lib.Sexp Model.C12_docstrings Proofs.C12_docstrings.
Theorem C12_stub : True. Proof. exact stub. Qed.
Print Assumptions C12_stub.
