(* C17 proofs, wildcard imports: the names expand_wildcards brings are the names CPython's `import *` binds (for every
   member list and every __all__), and for every module body the statement a name ends up bound by is the same. *)
From Coq Require Import List ZArith String Ascii Bool Arith Lia.
From Verif Require Import Lib.Sexp Model.C17_base Gen.C17_tables Model.C17_agents Model.C17_star.
Import ListNotations.
Open Scope string_scope.
Open Scope list_scope.
Open Scope nat_scope.

(* ================================================================================================ *)
(* A. names                                                                                          *)

Lemma mem_str_In s l : mem_str s l = true <-> In s l.
Proof.
  unfold mem_str. rewrite existsb_exists. split.
  - intros [x [Hx He]]. apply String.eqb_eq in He. subst. exact Hx.
  - intros H. exists s. split; auto. apply String.eqb_refl.
Qed.

(* the generated boolean function says: available at runtime, and listed in __all__ when there is one, else public and
   not a submodule the module does not import itself *)
Lemma wildcard_exposed_spec all m :
  wildcard_exposed all m =
  sm_runtime m && match all with
                  | Some l => mem_str (sm_name m) l
                  | None => negb (private_name (sm_name m)) && negb (sm_lone_submodule m)
                  end.
Proof.
  unfold wildcard_exposed, wildcard_exposed_tbl, sm_lone_submodule.
  destruct all as [l|]; destruct (sm_runtime m), (private_name (sm_name m)), (sm_alias m), (sm_module m), (sm_imported m);
    try destruct (mem_str (sm_name m) l); reflexivity.
Qed.

(* the namespace of the source module holds exactly its runtime members, except submodules it does not import itself *)
Definition namespace_of (ms : list smem) (ns : list string) : Prop :=
  forall n, In n ns <-> exists m, In m ms /\ sm_name m = n /\ sm_runtime m = true /\ sm_lone_submodule m = false.

Theorem star_names_agree all ms ns l :
  namespace_of ms ns ->
  cpython_star all ns = Some l ->
  forall n, In n (griffe_star all ms) <-> In n l.
Proof.
  intros Hns Hc n. unfold griffe_star. rewrite in_map_iff.
  destruct all as [a|]; simpl in Hc.
  - destruct (forallb (fun n0 => mem_str n0 ns) a) eqn:Ea; [|discriminate]. inversion Hc; subst l.
    split.
    + intros [m [Hn Hm]]. apply filter_In in Hm. destruct Hm as [_ He]. rewrite wildcard_exposed_spec in He.
      apply andb_prop in He. destruct He as [_ He]. subst n. apply mem_str_In. exact He.
    + intros Hin. assert (Hb : In n ns).
      { apply mem_str_In. exact (proj1 (forallb_forall _ a) Ea n Hin). }
      apply Hns in Hb. destruct Hb as [m [Hm [Hn [Hr _]]]].
      exists m. split; auto. apply filter_In. split; auto.
      rewrite wildcard_exposed_spec. rewrite Hr, Hn. simpl. apply mem_str_In. exact Hin.
  - inversion Hc; subst l. rewrite filter_In. split.
    + intros [m [Hn Hm]]. apply filter_In in Hm. destruct Hm as [Hm He]. rewrite wildcard_exposed_spec in He.
      apply andb_prop in He. destruct He as [Hr He]. apply andb_prop in He. destruct He as [Hp Hl].
      subst n. split; auto. apply Hns. exists m. repeat split; auto. apply negb_true_iff. exact Hl.
    + intros [Hb Hp]. apply Hns in Hb. destruct Hb as [m [Hm [Hn [Hr Hl]]]].
      exists m. split; auto. apply filter_In. split; auto.
      rewrite wildcard_exposed_spec. rewrite Hr, Hn, Hp, Hl. reflexivity.
Qed.

Example star_names_nonvacuous :
  let ms := [mkSM "f" true false false false; mkSM "_g" true false false false; mkSM "T" false true false true; mkSM "sub" true false true false] in
  namespace_of ms ["f"; "_g"] /\ cpython_star None ["f"; "_g"] = Some ["f"] /\ griffe_star None ms = ["f"] /\
  cpython_star (Some ["_g"]) ["f"; "_g"] = Some ["_g"] /\ griffe_star (Some ["_g"]) ms = ["_g"].
Proof.
  repeat split; try reflexivity.
  - intros [H|[H|[]]]; subst n.
    + exists (mkSM "f" true false false false). simpl. auto.
    + exists (mkSM "_g" true false false false). simpl. auto 6.
  - intros [m [Hm [Hn [Hr Hl]]]]. simpl in Hm.
    destruct Hm as [H|[H|[H|[H|[]]]]]; subst m; simpl in *; subst n; auto; discriminate.
Qed.

(* ================================================================================================ *)
(* B. the binding statement                                                                          *)

(* the last position (counting from i) whose statement satisfies P *)
Fixpoint last_from (P : event -> bool) (i : nat) (b : list event) : option nat :=
  match b with
  | [] => None
  | e :: r => match last_from P (S i) r with Some k => Some k | None => if P e then Some i else None end
  end.

Lemma last_from_ge P b : forall i k, last_from P i b = Some k -> i <= k.
Proof.
  induction b as [|e r IH]; intros i k H; simpl in H; [discriminate|].
  destruct (last_from P (S i) r) as [k'|] eqn:E.
  - inversion H; subst. apply IH in E. lia.
  - destruct (P e); inversion H; lia.
Qed.

Definition or_else (a b : option nat) : option nat := match a with Some k => Some k | None => b end.

Lemma left_fold_last (P : event -> bool) (f : string -> nat -> list event -> option nat -> option nat) n :
  (forall i e r acc, f n i (e :: r) acc = f n (S i) r (if P e then Some i else acc)) ->
  (forall i acc, f n i [] acc = acc) ->
  forall b i acc, f n i b acc = or_else (last_from P i b) acc.
Proof.
  intros Hc Hn b. induction b as [|e r IH]; intros i acc; [rewrite Hn; reflexivity|].
  rewrite Hc, IH. simpl. destruct (last_from P (S i) r); simpl; auto. destruct (P e); reflexivity.
Qed.

Lemma cpy_binder_last n b i acc : cpy_binder n i b acc = or_else (last_from (binds n) i b) acc.
Proof. apply (left_fold_last (binds n) cpy_binder n); reflexivity. Qed.

Lemma visit_binder_last n b i acc : visit_binder n i b acc = or_else (last_from (is_bind n) i b) acc.
Proof. apply (left_fold_last (is_bind n) visit_binder n); reflexivity. Qed.

(* what a wildcard at position k does to the present binder *)
Definition over (acc : option nat) (s : option nat) : option nat :=
  match s with
  | None => acc
  | Some k => match acc with None => Some k | Some old => if old <? k then Some k else Some old end
  end.

Lemma expand_binder_last n b : forall j acc, expand_binder n j b acc = over acc (last_from (is_star n) j b).
Proof.
  induction b as [|e r IH]; intros j acc; [reflexivity|].
  cbn [expand_binder last_from]. rewrite IH.
  destruct (last_from (is_star n) (S j) r) as [k|] eqn:E.
  - pose proof (last_from_ge _ _ _ _ E) as Hk.
    destruct (is_star n e); [|reflexivity].
    destruct acc as [old|]; simpl.
    + destruct (old <? j) eqn:E1; simpl.
      * apply Nat.ltb_lt in E1.
        replace (j <? k) with true by (symmetry; apply Nat.ltb_lt; lia).
        replace (old <? k) with true by (symmetry; apply Nat.ltb_lt; lia). reflexivity.
      * reflexivity.
    + replace (j <? k) with true by (symmetry; apply Nat.ltb_lt; lia). reflexivity.
  - destruct (is_star n e); [|reflexivity].
    destruct acc as [old|]; simpl; [destruct (old <? j)|]; reflexivity.
Qed.

Definition omax (a b : option nat) : option nat :=
  match a, b with
  | Some x, Some y => Some (Nat.max x y)
  | Some x, None => Some x
  | None, y => y
  end.

Lemma last_from_or P Q b : forall i,
  last_from (fun e => P e || Q e) i b = omax (last_from P i b) (last_from Q i b).
Proof.
  induction b as [|e r IH]; intros i; [reflexivity|]. simpl. rewrite IH.
  destruct (last_from P (S i) r) as [a|] eqn:EP; destruct (last_from Q (S i) r) as [c|] eqn:EQ; simpl.
  - reflexivity.
  - apply last_from_ge in EP. destruct (Q e); simpl; [f_equal; lia|reflexivity].
  - apply last_from_ge in EQ. destruct (P e); simpl; [f_equal; lia|reflexivity].
  - destruct (P e), (Q e); simpl; try reflexivity. rewrite Nat.max_id. reflexivity.
Qed.

Lemma binds_split n e : binds n e = is_bind n e || is_star n e.
Proof. destruct e; simpl; [rewrite orb_false_r|]; reflexivity. Qed.

Lemma last_from_ext P Q b : (forall e, P e = Q e) -> forall i, last_from P i b = last_from Q i b.
Proof. intros H. induction b as [|e r IH]; intros i; simpl; auto. rewrite IH, H. reflexivity. Qed.

(* for every module body (any interleaving of definitions and wildcard imports, any number of each) and every name:
   the member the loader keeps comes from the statement whose binding survives at runtime *)
Theorem binder_agree n body : griffe_binder n body = cpy_binder n 0 body None.
Proof.
  unfold griffe_binder. rewrite expand_binder_last, visit_binder_last, cpy_binder_last.
  rewrite (last_from_ext (binds n) (fun e => is_bind n e || is_star n e) body (binds_split n)), last_from_or.
  destruct (last_from (is_bind n) 0 body) as [a|]; destruct (last_from (is_star n) 0 body) as [c|]; simpl; try reflexivity.
  destruct (a <? c) eqn:E; [apply Nat.ltb_lt in E|apply Nat.ltb_ge in E]; f_equal; lia.
Qed.

Example binder_nonvacuous :
  griffe_binder "f" [EBind "f"; EStar ["f"; "g"]; EBind "g"] = Some 1 /\
  griffe_binder "g" [EBind "f"; EStar ["f"; "g"]; EBind "g"] = Some 2 /\
  griffe_binder "f" [EStar ["f"]; EStar ["f"]; EBind "h"] = Some 1.
Proof. repeat split; reflexivity. Qed.
