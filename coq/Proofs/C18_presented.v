(* C18 proofs, part 5: the presented constructor (Class.parameters) against inspect.signature(cls), for the three shapes
   of the merging code. *)
From Coq Require Import List Arith Bool Lia.
From Verif Require Import Lib.Sexp Model.C18_dataclass Model.C18_modes Model.C18_presented Proofs.C18_dataclass Proofs.C18_modes.
Import ListNotations.
Open Scope list_scope. Open Scope nat_scope.

Lemma first_init_ext : forall f g l, (forall j, In j l -> f j = g j) -> first_init f l = first_init g l.
Proof.
  intros f g. induction l as [|j r IH]; simpl; intros H; auto.
  rewrite (H j) by auto. destruct (g j); auto.
Qed.

Lemma member_at_eq : forall m t e j, py_eval_table t = Some e -> mode_ok m t = true ->
  (forall b, nth_error t j = Some b -> decorated b = true -> c_hw b = None -> known_gap_m m t e j b = false) ->
  gm_member_at m t j = py_member_at t e j.
Proof.
  intros m t e j Hev Hok H. unfold gm_member_at, py_member_at. destruct (nth_error t j) as [b|] eqn:Hb; auto.
  destruct (c_hw b) as [l|] eqn:Hh.
  - unfold gm_init_member, py_init_member. rewrite Hh. reflexivity.
  - destruct (decorated b) eqn:Hd.
    + apply init_eq_cpython_by_mode; auto.
    + unfold gm_init_member, py_init_member. rewrite Hh, Hd. unfold decorated in Hd. destruct (c_dec b); [discriminate|reflexivity].
Qed.

(* Class.parameters = the constructor CPython resolves along __mro__, when every class that can provide it is gap-free *)
Lemma presented_eq_modulo_known : forall m t e i c, py_eval_table t = Some e -> mode_ok m t = true ->
  (forall j b, In j (i :: c_mro c) -> nth_error t j = Some b -> decorated b = true -> c_hw b = None -> known_gap_m m t e j b = false) ->
  gm_presented m t i c = py_presented t e i c.
Proof.
  intros m t e i c Hev Hok H. unfold gm_presented, py_presented. apply first_init_ext.
  intros j Hj. apply member_at_eq; [exact Hev|exact Hok|]. intros b Hb Hd Hh. exact (H j b Hj Hb Hd Hh).
Qed.

(* every class of an accepted module has its entry in the environment; a decorated one has a field dictionary *)
Lemma py_eval_entry : forall t e, py_eval_table t = Some e ->
  forall k c, nth_error t k = Some c -> decorated c = true -> exists fl, nth_error e k = Some (Some fl).
Proof.
  intros t e Hev k c Hk Hd. destruct (py_eval_nth t t [] e Hev) as [res [He Hres]]. simpl in He. subst res.
  destruct (Hres k c Hk) as [x [Hx Hs]]. unfold py_step in Hs. unfold decorated in Hd.
  destruct (c_dec c) as [d|]; [|discriminate].
  destruct (py_own t c) as [own|]; [|discriminate].
  destruct (opt_is (d_init d) false || order_ok false (merge f_name (inherited t ([] ++ firstn k e) c) own)); [|discriminate].
  inversion Hs; subst x. eauto.
Qed.

Lemma absent_iff : forall m t e j, py_eval_table t = Some e ->
  (gm_member_at m t j = Absent <-> py_member_at t e j = Absent).
Proof.
  intros m t e j Hev. unfold gm_member_at, py_member_at. destruct (nth_error t j) as [b|] eqn:Hb; [|tauto].
  unfold gm_init_member, py_init_member, init_false. destruct (c_hw b); [split; discriminate|].
  destruct (decorated b) eqn:Hd.
  - destruct (py_eval_entry t e Hev j b Hb Hd) as [fl Hfl]. rewrite Hfl.
    unfold decorated in Hd. destruct (c_dec b) as [d|]; [|discriminate].
    destruct (opt_is (d_init d) false); [tauto|split; discriminate].
  - unfold decorated in Hd. destruct (c_dec b); [discriminate|tauto].
Qed.

(* which class provides the presented constructor never depends on the gaps *)
Lemma presented_provider_eq : forall m t e i c, py_eval_table t = Some e ->
  option_map fst (gm_presented m t i c) = option_map fst (py_presented t e i c).
Proof.
  intros m t e i c Hev. unfold gm_presented, py_presented. generalize (i :: c_mro c). intros l.
  induction l as [|j r IH]; simpl; auto.
  pose proof (absent_iff m t e j Hev) as [H1 H2].
  destruct (gm_member_at m t j) eqn:Eg; destruct (py_member_at t e j) eqn:Ep; simpl; auto;
    try (specialize (H1 eq_refl); discriminate); try (specialize (H2 eq_refl); discriminate).
Qed.

(* non-vacuity: a diamond whose join inherits the constructor of its SECOND base (the first base is a plain subclass) *)
Definition dia : table :=
  [ mkcls D0 [P0 0] None [];
    mkcls None [] None [0];
    mkcls D0 [P1 1; SAttr 2 AInitVar VPlain] None [0];
    mkcls None [] None [1; 2; 0] ].
Example dia_presented : forall m, exists e, py_eval_table dia = Some e /\ mode_ok m dia = true /\
  (forall j b, In j (3 :: c_mro (cls_at dia 3)) -> nth_error dia j = Some b -> decorated b = true -> c_hw b = None -> known_gap_m m dia e j b = false) /\
  gm_presented m dia 3 (cls_at dia 3) = Some (2, Synth [mkp 0 PK false; mkp 1 PK true; mkp 2 PK true]).
Proof.
  intros m. exists (env_of dia). split; [reflexivity|]. split; [destruct m; reflexivity|]. split; [|destruct m; reflexivity].
  intros j b Hj Hb Hd _. simpl in Hj. destruct m;
  destruct Hj as [<-|[<-|[<-|[<-|[]]]]]; vm_compute in Hb; inversion Hb; subst b; vm_compute in Hd |- *; try discriminate; reflexivity.
Qed.

