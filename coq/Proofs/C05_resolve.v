(* C05: alias resolution as a relation (a derivation = the chain of hops `final` follows), with the fuel it needs, its
   stability under updates of modules it never enters, and path lookup in a well-formed module tree.
   Used by Proofs/C05_compose.v (composition over a dependency order). *)
From Coq Require Import List ZArith String Ascii Bool Arith Lia.
From Verif Require Import Lib.Sexp Model.C05_imports Model.C05_wf Proofs.C05_imports.
Import ListNotations.
Open Scope string_scope.
Open Scope list_scope.
Open Scope nat_scope.

(* ------------------------------------------------------------------------------------------------------------ *)
(* tables                                                                                                        *)
(* ------------------------------------------------------------------------------------------------------------ *)
Lemma path_eqb_sym p q : path_eqb p q = path_eqb q p.
Proof.
  destruct (path_eqb p q) eqn:E.
  - apply path_eqb_eq in E. subst. symmetry. apply path_eqb_refl.
  - destruct (path_eqb q p) eqn:E2; auto. apply path_eqb_eq in E2. subst. rewrite path_eqb_refl in E. discriminate.
Qed.

Lemma path_eqb_neq p q : p <> q -> path_eqb p q = false.
Proof. intros H. destruct (path_eqb p q) eqn:E; auto. apply path_eqb_eq in E. contradiction. Qed.

Lemma get_set_mod_same t p st st0 : get_mod t p = Some st0 -> get_mod (set_mod t p st) p = Some st.
Proof.
  induction t as [|[q s] r IH]; simpl; try discriminate.
  destruct (path_eqb q p) eqn:E; simpl; rewrite E; auto.
Qed.

Lemma get_set_mod_other t p q st : p <> q -> get_mod (set_mod t p st) q = get_mod t q.
Proof.
  intros Hne. induction t as [|[k s] r IH]; simpl.
  - rewrite (path_eqb_neq p q Hne). reflexivity.
  - destruct (path_eqb k p) eqn:E; simpl.
    + apply path_eqb_eq in E. subst k. rewrite (path_eqb_neq p q Hne). reflexivity.
    + destruct (path_eqb k q); auto.
Qed.

Lemma set_mod_length t p st st0 : get_mod t p = Some st0 -> List.length (set_mod t p st) = List.length t.
Proof.
  induction t as [|[q s] r IH]; simpl; try discriminate.
  destruct (path_eqb q p) eqn:E; simpl; auto.
Qed.

Lemma set_mod_keys t p st st0 : get_mod t p = Some st0 -> map fst (set_mod t p st) = map fst t.
Proof.
  induction t as [|[q s] r IH]; simpl; try discriminate.
  destruct (path_eqb q p) eqn:E; simpl; intros H; f_equal; auto.
Qed.

(* ------------------------------------------------------------------------------------------------------------ *)
(* resolution as a relation                                                                                      *)
(* ------------------------------------------------------------------------------------------------------------ *)
Section Resolve.
Variable top : string.

(* Res t P h m loc r: the member m, reached at path loc, resolves to r in at most h hops, and every hop that lands on a member
   lands in a module of P *)
Inductive Res (t : table) (P : path -> Prop) : nat -> member -> path -> fres -> Prop :=
| R_obj h k ln loc : Res t P (S h) (MObj k ln) loc (FObj k loc)
| R_sub h loc : Res t P (S h) MSub loc (FMod loc)
| R_alias_mod h tgt ln b loc q :
    lookup_path t top tgt = LMod q -> Res t P (S h) (MAlias tgt ln b) loc (FMod q)
| R_alias_mem h tgt ln b loc mp n m' r :
    lookup_path t top tgt = LMem mp n m' -> P mp -> Res t P h m' (mp ++ [n]) r -> Res t P (S h) (MAlias tgt ln b) loc r
| R_wrap_mod h src inner ln loc q :
    is_alias inner = false -> lookup_path t top src = LMod q -> Res t P (S h) (MWrap src inner ln) loc (FMod q)
| R_wrap_mem h src inner ln loc mp n m' r :
    is_alias inner = false -> lookup_path t top src = LMem mp n m' -> P mp -> Res t P h m' (mp ++ [n]) r ->
    Res t P (S h) (MWrap src inner ln) loc r
| R_wrap_alias h src inner ln loc r :
    is_alias inner = true -> Res t P h inner src r -> Res t P (S h) (MWrap src inner ln) loc r.

Lemma Res_final t P h m loc r : Res t P h m loc r -> forall F, h <= F -> final F t top m loc = r.
Proof.
  induction 1; intros F HF; (destruct F as [|F]; [lia|]); simpl.
  - reflexivity.
  - reflexivity.
  - rewrite H. reflexivity.
  - rewrite H. apply IHRes. lia.
  - destruct inner; try discriminate; rewrite H0; reflexivity.
  - destruct inner; try discriminate; rewrite H0; apply IHRes; lia.
  - destruct inner; try discriminate; apply IHRes; lia.
Qed.

Lemma Res_mono_h t P h m loc r : Res t P h m loc r -> forall h', h <= h' -> Res t P h' m loc r.
Proof.
  induction 1; intros h' Hh; (destruct h' as [|h']; [lia|]).
  - constructor.
  - constructor.
  - econstructor; eauto.
  - eapply R_alias_mem; eauto. apply IHRes. lia.
  - eapply R_wrap_mod; eauto.
  - eapply R_wrap_mem; eauto. apply IHRes. lia.
  - eapply R_wrap_alias; eauto. apply IHRes. lia.
Qed.

Lemma Res_mono_P t (P Q : path -> Prop) h m loc r : (forall p, P p -> Q p) -> Res t P h m loc r -> Res t Q h m loc r.
Proof.
  intros HPQ. induction 1.
  - constructor.
  - constructor.
  - econstructor; eauto.
  - eapply R_alias_mem; eauto.
  - eapply R_wrap_mod; eauto.
  - eapply R_wrap_mem; eauto.
  - eapply R_wrap_alias; eauto.
Qed.

Lemma Res_det t P h m loc r : Res t P h m loc r -> forall h' r', Res t P h' m loc r' -> r = r'.
Proof.
  intros H1 h' r' H2.
  rewrite <- (Res_final t P h m loc r H1 (h + h')) by lia.
  rewrite <- (Res_final t P h' m loc r' H2 (h + h')) by lia. reflexivity.
Qed.

(* the line number of an alias plays no part *)
Lemma Res_relineno t P h m loc r ln : Res t P h m loc r -> Res t P h (relineno m ln) loc r.
Proof.
  intros H. inversion H; subst; simpl; try (constructor; fail).
  - econstructor; eauto.
  - eapply R_alias_mem; eauto.
  - eapply R_wrap_mod; eauto.
  - eapply R_wrap_mem; eauto.
  - eapply R_wrap_alias; eauto.
Qed.

(* t' answers the lookups that matter like t *)
Definition lookups_kept (t t' : table) (P : path -> Prop) : Prop :=
  forall p, (forall q, lookup_path t top p = LMod q -> lookup_path t' top p = LMod q) /\
            (forall mp n m, lookup_path t top p = LMem mp n m -> P mp -> lookup_path t' top p = LMem mp n m).

Lemma Res_stable t t' P h m loc r : lookups_kept t t' P -> Res t P h m loc r -> Res t' P h m loc r.
Proof.
  intros Hk. induction 1.
  - constructor.
  - constructor.
  - econstructor. apply (proj1 (Hk tgt)). auto.
  - eapply R_alias_mem; eauto. apply (proj2 (Hk tgt)); auto.
  - eapply R_wrap_mod; eauto. apply (proj1 (Hk src)). auto.
  - eapply R_wrap_mem; eauto. apply (proj2 (Hk src)); auto.
  - eapply R_wrap_alias; eauto.
Qed.

(* replacing the state of one module by one that keeps its submodule members keeps every lookup that does not end in it *)
Definition keeps_subs (st st' : modst) : Prop :=
  forall c, lookup c (members st) = Some MSub -> lookup c (members st') = Some MSub.

Lemma walk_update t mp st st' :
  get_mod t mp = Some st -> keeps_subs st st' ->
  forall rest cur,
    (forall q, walk t cur rest = LMod q -> walk (set_mod t mp st') cur rest = LMod q) /\
    (forall mq n m, walk t cur rest = LMem mq n m -> mq <> mp -> walk (set_mod t mp st') cur rest = LMem mq n m).
Proof.
  intros Hg Hk. induction rest as [|c rest IH]; intros cur; simpl.
  - split; [auto|intros; discriminate].
  - destruct (path_eqb cur mp) eqn:E.
    + apply path_eqb_eq in E. subst cur. rewrite Hg. rewrite (get_set_mod_same t mp st' st Hg).
      destruct (lookup c (members st)) as [m|] eqn:El.
      * destruct m.
        -- split; [intros; destruct rest; discriminate|]. intros mq n0 m0 H Hne. destruct rest; try discriminate. inversion H; subst. contradiction.
        -- rewrite (Hk c El). apply IH.
        -- split; [intros; destruct rest; discriminate|]. intros mq n0 m0 H Hne. destruct rest; try discriminate. inversion H; subst. contradiction.
        -- split; [intros; destruct rest; discriminate|]. intros mq n0 m0 H Hne. destruct rest; try discriminate. inversion H; subst. contradiction.
      * split; intros; discriminate.
    + assert (Hne : mp <> cur) by (intros Heq; subst; rewrite path_eqb_refl in E; discriminate).
      rewrite (get_set_mod_other t mp cur st' Hne).
      destruct (get_mod t cur) as [stc|]; [|split; intros; discriminate].
      destruct (lookup c (members stc)) as [m|]; [|split; intros; discriminate].
      destruct m; try apply IH; (split; [intros; destruct rest; discriminate|]); intros mq n0 m0 H _; exact H.
Qed.

Lemma lookups_kept_update t mp st st' (P : path -> Prop) :
  get_mod t mp = Some st -> keeps_subs st st' -> ~ P mp -> lookups_kept t (set_mod t mp st') P.
Proof.
  intros Hg Hk HP p. unfold lookup_path. destruct p as [|h rest]; [split; intros; discriminate|].
  destruct (String.eqb h top); [|split; intros; discriminate].
  destruct (walk_update t mp st st' Hg Hk rest [top]) as [H1 H2]. split; auto.
  intros mq n m H HPq. apply H2; auto. intros Heq. subst. contradiction.
Qed.

Lemma lookups_kept_refl t P : lookups_kept t t P.
Proof. intros p. split; auto. Qed.

Lemma lookups_kept_trans t1 t2 t3 P : lookups_kept t1 t2 P -> lookups_kept t2 t3 P -> lookups_kept t1 t3 P.
Proof.
  intros H12 H23 p. split.
  - intros q H. apply (proj1 (H23 p)). apply (proj1 (H12 p)). auto.
  - intros mq n m H HP. apply (proj2 (H23 p)); auto. apply (proj2 (H12 p)); auto.
Qed.

(* ------------------------------------------------------------------------------------------------------------ *)
(* path lookup in a module tree whose packages hold their submodules                                             *)
(* ------------------------------------------------------------------------------------------------------------ *)
Variable ms : list modsrc.

(* every submodule named by a source module is a submodule member of that module in the table *)
Definition struct_ok (t : table) : Prop :=
  forall q c, In c (children_of ms q) -> exists st, get_mod t q = Some st /\ lookup c (members st) = Some MSub.

Lemma walk_reach t : struct_ok t -> forall rest cur, reach_from ms cur rest = true -> walk t cur rest = LMod (cur ++ rest).
Proof.
  intros Hs. induction rest as [|c r IH]; intros cur H; simpl in *.
  - rewrite app_nil_r. reflexivity.
  - apply andb_true_iff in H. destruct H as [Hc Hr]. apply mem_str_In in Hc.
    destruct (Hs cur c Hc) as [st [Hg Hl]]. rewrite Hg, Hl. rewrite (IH _ Hr). rewrite <- app_assoc. reflexivity.
Qed.

Lemma lookup_path_reach t q : struct_ok t -> reachb top ms q = true -> lookup_path t top q = LMod q.
Proof.
  intros Hs H. destruct q as [|h rest]; simpl in *; try discriminate.
  apply andb_true_iff in H. destruct H as [Hh Hr]. rewrite Hh. apply String.eqb_eq in Hh. subst h.
  apply (walk_reach t Hs rest [top] Hr).
Qed.

Lemma walk_app t : forall r1 cur r2, walk t cur r1 = LMod (cur ++ r1) -> r2 <> [] -> walk t cur (r1 ++ r2) = walk t (cur ++ r1) r2.
Proof.
  induction r1 as [|c r1 IH]; intros cur r2 H Hne; simpl in *.
  - rewrite app_nil_r. reflexivity.
  - destruct (get_mod t cur) as [st|]; try discriminate.
    destruct (lookup c (members st)) as [m|]; try discriminate.
    destruct m; try (destruct r1; discriminate).
    replace (cur ++ c :: r1) with ((cur ++ [c]) ++ r1) in * by (rewrite <- app_assoc; reflexivity).
    apply IH; auto.
Qed.

(* the member n of a reachable module T *)
Lemma lookup_path_member t T n st :
  struct_ok t -> reachb top ms T = true -> get_mod t T = Some st ->
  lookup_path t top (T ++ [n]) =
  match lookup n (members st) with
  | None => LNone
  | Some MSub => LMod (T ++ [n])
  | Some m => LMem T n m
  end.
Proof.
  intros Hs Hr Hg. destruct T as [|h rest]; simpl in Hr; try discriminate.
  apply andb_true_iff in Hr. destruct Hr as [Hh Hr]. simpl. rewrite Hh. apply String.eqb_eq in Hh. subst h.
  pose proof (walk_reach t Hs rest [top] Hr) as Hw.
  rewrite (walk_app t rest [top] [n] Hw) by discriminate.
  change ([top] ++ rest) with (top :: rest). simpl walk. rewrite Hg.
  destruct (lookup n (members st)) as [m|]; auto.
Qed.

End Resolve.
