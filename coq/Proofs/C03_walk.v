(* C03 proofs, part 7: the recursive one-layer walk that renderers do with iter(expr) -- take one layer, keep strings and
   names, descend into every other sub-expression -- yields exactly the flat iteration, whenever it comes to its end within
   its fuel (a decidable condition, evaluated by the extracted model on every case of the check). *)
From Coq Require Import List ZArith String Ascii Bool Arith Lia.
From Verif Require Import Lib.Sexp Model.C03_ops Gen.C03_tables Model.C03_expr Model.C03_spec Proofs.C03_ind Proofs.C03_iter.
Import ListNotations.
Open Scope string_scope. Open Scope list_scope. Open Scope nat_scope.

Section Walk.
Variable fx : fixes.

Definition step (n : nat) (i : item) : list item :=
  match i with
  | IStr s => [IStr s]
  | IExpr (GName _ _ as c) => [IExpr c]
  | IExpr c => rwalk fx n c
  end.

Lemma rwalk_S n g : rwalk fx (S n) g = flat_map (step n) (iterate fx false g).
Proof. reflexivity. Qed.

Lemma forallb_flat_map {A B} (p : B -> bool) (f : A -> list B) l :
  forallb p (flat_map f l) = true -> Forall (fun x => forallb p (f x) = true) l.
Proof.
  induction l as [|x l IH]; simpl; intros H; [constructor|].
  rewrite forallb_app in H. apply andb_prop in H. destruct H. constructor; auto.
Qed.

Theorem rwalk_is_flat : forall n g, forallb is_pieceb (rwalk fx n g) = true -> rwalk fx n g = iterate fx true g.
Proof.
  induction n as [|n IH]; intros g H.
  - (* no fuel: the expression itself must be a name *) cbn [rwalk forallb is_pieceb] in H.
    destruct g; try discriminate H. reflexivity.
  - rewrite rwalk_S in *. rewrite (iterate_flat_is_expansion fx g). unfold flatten.
    apply forallb_flat_map in H. induction H as [|i l Hi _ IHl]; [reflexivity|].
    cbn [flat_map]. rewrite IHl. f_equal.
    destruct i as [s|c]; [reflexivity|]. cbn [step expand] in *.
    destruct c; try (apply IH; exact Hi). reflexivity.
Qed.

(* fuel is only an upper bound: more of it changes nothing once the walk has ended *)
Theorem rwalk_fuel_irrelevant : forall n m g,
  forallb is_pieceb (rwalk fx n g) = true -> forallb is_pieceb (rwalk fx m g) = true -> rwalk fx n g = rwalk fx m g.
Proof. intros n m g Hn Hm. rewrite (rwalk_is_flat n g Hn), (rwalk_is_flat m g Hm). reflexivity. Qed.

End Walk.

(* non-vacuity: a three-level expression; two units of fuel are not enough, three are, and the result is the flat iteration *)
Definition walk_example : gexpr :=
  GBinOp (GBinOp (GName "a" ParScope) "+" (GCall (GName "f" ParScope) [GName "b" ParScope])) "*" (GName "c" ParScope).
Example walk_example_fuel :
  forallb is_pieceb (rwalk fx_all 2 walk_example) = false /\
  forallb is_pieceb (rwalk fx_all 3 walk_example) = true /\
  rwalk fx_all 3 walk_example = iterate fx_all true walk_example /\
  render_items (rwalk fx_all 3 walk_example) = "(a + f(b)) * c".
Proof. repeat split; reflexivity. Qed.
