(* C05: the real traversal of expand_exports (expx: recursion with a seen-set, sources expanded on demand, submodules visited
   afterwards) computes exactly the per-module schedule step (sched_exports_step), module after module, in the order in which
   it completes the modules -- for every table, every fuel, without any hypothesis. *)
From Coq Require Import List ZArith String Ascii Bool Arith Lia.
From Verif Require Import Lib.Sexp Model.C05_imports Proofs.C05_imports.
Import ListNotations.
Open Scope string_scope.
Open Scope list_scope.
Open Scope nat_scope.

(* ------------------------------------------------------------------------------------------------------------ *)
(* tables that differ in exports only                                                                            *)
(* ------------------------------------------------------------------------------------------------------------ *)
Definition same_members (t t' : table) : Prop :=
  List.length t = List.length t' /\ forall q, option_map members (get_mod t q) = option_map members (get_mod t' q).

Lemma same_members_refl t : same_members t t.
Proof. split; auto. Qed.

Lemma same_members_trans t1 t2 t3 : same_members t1 t2 -> same_members t2 t3 -> same_members t1 t3.
Proof. intros [L1 M1] [L2 M2]. split; [congruence|]. intros q. rewrite M1. apply M2. Qed.

Lemma path_eqb_neq' p q : p <> q -> path_eqb p q = false.
Proof. intros H. destruct (path_eqb p q) eqn:E; auto. apply path_eqb_eq in E. contradiction. Qed.

Lemma get_set_same t p st st0 : get_mod t p = Some st0 -> get_mod (set_mod t p st) p = Some st.
Proof.
  induction t as [|[q s] r IH]; simpl; try discriminate.
  destruct (path_eqb q p) eqn:E; simpl; rewrite E; auto.
Qed.

Lemma get_set_other t p q st : p <> q -> get_mod (set_mod t p st) q = get_mod t q.
Proof.
  intros Hne. induction t as [|[k s] r IH]; simpl.
  - rewrite (path_eqb_neq' p q Hne). reflexivity.
  - destruct (path_eqb k p) eqn:E; simpl.
    + apply path_eqb_eq in E. subst k. rewrite (path_eqb_neq' p q Hne). reflexivity.
    + destruct (path_eqb k q); auto.
Qed.

Lemma set_mod_len t p st st0 : get_mod t p = Some st0 -> List.length (set_mod t p st) = List.length t.
Proof.
  induction t as [|[q s] r IH]; simpl; try discriminate.
  destruct (path_eqb q p) eqn:E; simpl; auto.
Qed.

Lemma set_exports_other t p ex q : p <> q -> get_mod (set_exports t p ex) q = get_mod t q.
Proof. intros Hne. unfold set_exports. destruct (get_mod t p); auto. apply get_set_other. auto. Qed.

Lemma set_exports_same_members t p ex : same_members t (set_exports t p ex).
Proof.
  unfold set_exports. destruct (get_mod t p) as [st|] eqn:E; [|apply same_members_refl]. split.
  - symmetry. eapply set_mod_len; eauto.
  - intros q. destruct (path_eqb p q) eqn:Ep.
    + apply path_eqb_eq in Ep. subst q. rewrite E, (get_set_same t p _ st E). reflexivity.
    + rewrite get_set_other; auto. intros Heq. subst. rewrite path_eqb_refl in Ep. discriminate.
Qed.

Lemma walk_same t t' : same_members t t' -> forall rest cur, walk t cur rest = walk t' cur rest.
Proof.
  intros [_ Hm]. induction rest as [|c rest IH]; intros cur; simpl; auto.
  pose proof (Hm cur) as Hc. destruct (get_mod t cur) as [st|]; destruct (get_mod t' cur) as [st'|]; simpl in Hc; try discriminate; auto.
  inversion Hc as [Hc']. rewrite Hc'. destruct (lookup c (members st')) as [m|]; auto. destruct m; auto.
Qed.

Lemma lookup_path_same t t' top p : same_members t t' -> lookup_path t top p = lookup_path t' top p.
Proof. intros Hs. unfold lookup_path. destruct p; auto. destruct (String.eqb s top); auto. apply walk_same. auto. Qed.

Lemma final_same t t' top : same_members t t' -> forall fuel m loc, final fuel t top m loc = final fuel t' top m loc.
Proof.
  intros Hs. induction fuel as [|f IH]; intros m loc; simpl; auto.
  destruct m; auto.
  - rewrite (lookup_path_same t t' top tgt Hs). destruct (lookup_path t' top tgt); auto.
  - destruct m; auto; rewrite (lookup_path_same t t' top src Hs); destruct (lookup_path t' top src); auto.
Qed.

Lemma list_owner_same t t' top fuel q lname : same_members t t' -> list_owner fuel t top q lname = list_owner fuel t' top q lname.
Proof.
  intros Hs. unfold list_owner. destruct (String.eqb lname "__all__"); auto.
  pose proof (proj2 Hs q) as Hq. destruct (get_mod t q) as [st|]; destruct (get_mod t' q) as [st'|]; simpl in Hq; try discriminate; auto.
  inversion Hq as [Hq']. rewrite Hq'. destruct (lookup lname (members st')) as [am|]; auto. destruct (is_alias am); auto.
  rewrite (final_same t t' top Hs). reflexivity.
Qed.

(* ------------------------------------------------------------------------------------------------------------ *)
(* the module a source denotes, and one item of the schedule's expansion                                         *)
(* ------------------------------------------------------------------------------------------------------------ *)
Definition named_module (fl : nat) (t : table) (top : string) (mp : path) (st : modst) (l : string) (a : bool) : option (option path) :=
  match ref_module_path mp st l a with
  | None => None
  | Some p =>
      match lookup_path t top p with
      | LMod q => Some (Some q)
      | LMem amp an am =>
          if is_alias am
          then match final fl t top am (amp ++ [an]) with
               | FMod q => Some (Some q)
               | _ => Some None
               end
          else Some None
      | LNone => Some None
      | LUnsupported => None
      end
  end.
Definition source_module (fl : nat) (t : table) (top : string) (mp : path) (st : modst) (l : string) (a : bool) : option (option path) :=
  let named := named_module fl t top mp st l a in
  match named with
  | Some (Some q) => Some (list_owner fl t top q (ref_list_name mp st l a))
  | other => other
  end.

Lemma source_module_same fl t t' top mp st l a : same_members t t' -> source_module fl t top mp st l a = source_module fl t' top mp st l a.
Proof.
  intros Hs. unfold source_module, named_module. destruct (ref_module_path mp st l a) as [p|]; auto.
  rewrite (lookup_path_same t t' top p Hs). destruct (lookup_path t' top p) as [q|amp an am| |]; auto.
  - rewrite (list_owner_same t t' top fl q _ Hs). reflexivity.
  - destruct (is_alias am); auto. rewrite (final_same t t' top Hs). destruct (final fl t' top am (amp ++ [an])); auto.
    rewrite (list_owner_same t t' top fl p0 _ Hs). reflexivity.
Qed.

Definition sitem (fl : nat) (t : table) (top : string) (mp : path) (st : modst) (acc : list item) (it : item) : list item :=
  match it with
  | IStr x => acc ++ [IStr x]
  | IRef l a => match source_module fl t top mp st l a with
                | Some (Some q) => match get_mod t q with
                                   | Some stq => match exports stq with Some l' => merge_exports acc l' | None => acc end
                                   | None => acc
                                   end
                | _ => acc
                end
  end.

Lemma walk_LMem_not_sub t : forall rest cur amp an am, walk t cur rest = LMem amp an am -> am <> MSub.
Proof.
  induction rest as [|c rest IH]; intros cur amp an am H; simpl in H; try discriminate.
  destruct (get_mod t cur) as [st|]; try discriminate. destruct (lookup c (members st)) as [m|]; try discriminate.
  destruct m; try (destruct rest; try discriminate; inversion H; subst; discriminate).
  eapply IH; eauto.
Qed.

Lemma lookup_path_LMem_not_sub t top p amp an am : lookup_path t top p = LMem amp an am -> am <> MSub.
Proof.
  unfold lookup_path. destruct p; try discriminate. destruct (String.eqb s top); try discriminate. apply walk_LMem_not_sub.
Qed.

Lemma sched_items_fold fl t top mp st ex : sched_exports_items fl t top mp st ex = fold_left (sitem fl t top mp st) ex [].
Proof.
  unfold sched_exports_items. apply fold_left_ext'. intros acc [x|l a]; auto.
  unfold sitem, source_module, named_module. destruct (ref_module_path mp st l a) as [p|]; auto.
  destruct (lookup_path t top p) as [q|amp an am| |] eqn:El; auto.
  destruct (is_alias am) eqn:Ea.
  - destruct (final fl t top am (amp ++ [an])) as [k p'|q|]; auto.
  - pose proof (lookup_path_LMem_not_sub t top p amp an am El) as Hns.
    destruct am; simpl in Ea; try discriminate; try contradiction. destruct fl; reflexivity.
Qed.

(* ------------------------------------------------------------------------------------------------------------ *)
(* expx with its two loops named                                                                                 *)
(* ------------------------------------------------------------------------------------------------------------ *)
Section Loops.
Variable rec : path -> xstate -> outcome xstate.     (* the recursive call, one unit of fuel less *)
Variable top : string.
Variable mp : path.
Variable st : modst.

Fixpoint xitems (its : list item) (acc : list item) (s : xstate) : outcome (list item * xstate) :=
  match its with
  | [] => Done (acc, s)
  | IStr x :: r => xitems r (acc ++ [IStr x]) s
  | IRef l a :: r =>
      let fl := S (List.length (xt s) * 8 + 64) in
      let lname := ref_list_name mp st l a in
      let named := named_module fl (xt s) top mp st l a in
      let tgt := source_module fl (xt s) top mp st l a in
      let hops : list (path * string) :=
        (match ref_module_path mp st l a with
         | Some p => match lookup_path (xt s) top p with
                     | LMem amp an am => (amp, an) :: final_hops fl (xt s) top am
                     | _ => []
                     end
         | None => []
         end)
        ++ (match named with
            | Some (Some q) =>
                if String.eqb lname "__all__" then []
                else match get_mod (xt s) q with
                     | Some stq => match lookup lname (members stq) with
                                   | Some am => if is_alias am then (q, lname) :: final_hops fl (xt s) top am else []
                                   | None => []
                                   end
                     | None => []
                     end
            | _ => []
            end) in
      match tgt with
      | None => xitems r acc (mkX (xt s) (xseen s) true (xdropped s) (xdone s) (xpending s) (xhops s))
      | Some None => xitems r acc (mkX (xt s) (xseen s) (xunsup s) (xdropped s ++ [(mp, l)]) (xdone s) (xpending s) (xhops s))
      | Some (Some q) =>
          let missing := match named with Some (Some q0) => list_missing (xt s) q0 lname | _ => false end in
          let s := mkX (xt s) (xseen s) (xunsup s) (xdropped s ++ (if missing then [(mp, l)] else [])) (xdone s) (xpending s)
                       (xhops s ++ hops) in
          let after := if mem_path q (xseen s) then Done s else rec q s in
          match after with
          | Done s' =>
              match get_mod (xt s') q with
              | Some stq => match exports stq with
                            | Some l' =>
                                let pend := negb (mem_path q (xdone s')) && has_ref (Some l') in
                                let s2 := if pend then mkX (xt s') (xseen s') (xunsup s') (xdropped s') (xdone s')
                                                               (xpending s' ++ [(mp, q)]) (xhops s') else s' in
                                xitems r (merge_exports acc l') s2
                            | None => xitems r acc s'
                            end
              | None => xitems r acc s'
              end
          | other => match other with Crash e => Crash e | _ => OutOfFuel end
          end
      end
  end.

Fixpoint xsubs (ms : list (string * member)) (s : xstate) : outcome xstate :=
  match ms with
  | [] => Done s
  | (c, MSub) :: r =>
      if mem_path (mp ++ [c]) (xseen s) then xsubs r s
      else match rec (mp ++ [c]) s with
           | Done s' => xsubs r s'
           | other => other
           end
  | _ :: r => xsubs r s
  end.
End Loops.

Lemma expx_unfold f top mp s :
  expx (S f) top mp s =
  let s := mkX (xt s) (mp :: xseen s) (xunsup s) (xdropped s) (xdone s) (xpending s) (xhops s) in
  match get_mod (xt s) mp with
  | None => Done s
  | Some st =>
      match xitems (expx f top) top mp st (match exports st with Some ex => ex | None => [] end) [] s with
      | Done (expanded, s') =>
          let t'' := match exports st with Some _ => set_exports (xt s') mp (Some expanded) | None => xt s' end in
          let s'' := mkX t'' (xseen s') (xunsup s') (xdropped s') (mp :: xdone s') (xpending s') (xhops s') in
          xsubs (expx f top) mp (members st) s''
      | Crash e => Crash e
      | OutOfFuel => OutOfFuel
      end
  end.
Proof. reflexivity. Qed.

(* ------------------------------------------------------------------------------------------------------------ *)
(* the schedule steps                                                                                            *)
(* ------------------------------------------------------------------------------------------------------------ *)
Definition xsteps (fl : nat) (top : string) (order : list path) (t : table) : table :=
  fold_left (sched_exports_step fl top) order t.

Lemma sched_exports_step_other fl top t mp q : mp <> q -> get_mod (sched_exports_step fl top t mp) q = get_mod t q.
Proof.
  intros Hne. unfold sched_exports_step. destruct (get_mod t mp) as [st|]; auto. destruct (exports st); auto.
  apply set_exports_other. auto.
Qed.

Lemma sched_exports_step_same fl top t mp : same_members t (sched_exports_step fl top t mp).
Proof.
  unfold sched_exports_step. destruct (get_mod t mp) as [st|]; [|apply same_members_refl].
  destruct (exports st); [apply set_exports_same_members|apply same_members_refl].
Qed.

Lemma xsteps_same fl top order : forall t, same_members t (xsteps fl top order t).
Proof.
  induction order as [|m order IH]; intros t; simpl; [apply same_members_refl|].
  eapply same_members_trans; [apply sched_exports_step_same|apply IH].
Qed.

Lemma xsteps_other fl top q order : forall t, (forall m, In m order -> m <> q) -> get_mod (xsteps fl top order t) q = get_mod t q.
Proof.
  induction order as [|m order IH]; intros t Hn; simpl; auto.
  change (fold_left (sched_exports_step fl top) order (sched_exports_step fl top t m)) with (xsteps fl top order (sched_exports_step fl top t m)).
  rewrite IH by (intros m' Hm'; apply Hn; right; auto).
  apply sched_exports_step_other. apply Hn. left. auto.
Qed.

Lemma xsteps_app fl top o1 o2 t : xsteps fl top (o1 ++ o2) t = xsteps fl top o2 (xsteps fl top o1 t).
Proof. unfold xsteps. apply fold_left_app. Qed.

Lemma mem_path_In p l : mem_path p l = true <-> In p l.
Proof.
  unfold mem_path. rewrite existsb_exists. split.
  - intros [x [Hin He]]. apply path_eqb_eq in He. subst. auto.
  - intros H. exists p. split; auto. apply path_eqb_refl.
Qed.

Definition FLof (t : table) : nat := S (List.length t * 8 + 64).

Lemma FLof_same t t' : same_members t t' -> FLof t = FLof t'.
Proof. intros [L _]. unfold FLof. rewrite L. reflexivity. Qed.

(* what a call of the traversal on a module not yet entered does: it performs schedule steps, for modules it enters *)
Definition XSpec (top : string) (rec : path -> xstate -> outcome xstate) : Prop :=
  forall q s s', rec q s = Done s' -> ~ In q (xseen s) ->
    exists order, xt s' = xsteps (FLof (xt s)) top order (xt s) /\
                  (forall m, In m order -> ~ In m (xseen s)) /\ incl (xseen s) (xseen s') /\ In q (xseen s') /\
                  xdone s' = rev order ++ xdone s.      (* the order is the one in which the modules are marked done *)

Section LoopSpecs.
Variable top : string.
Variable rec : path -> xstate -> outcome xstate.
Hypothesis Hrec : XSpec top rec.
Variable mp : path.
Variable st : modst.

Lemma xitems_spec : forall its acc s r s',
  xitems rec top mp st its acc s = Done (r, s') ->
  exists order, xt s' = xsteps (FLof (xt s)) top order (xt s) /\
                (forall m, In m order -> ~ In m (xseen s)) /\ incl (xseen s) (xseen s') /\
                r = fold_left (sitem (FLof (xt s)) (xt s') top mp st) its acc /\
                xdone s' = rev order ++ xdone s.
Proof.
  induction its as [|[x|l a] its IH]; intros acc s r s' Hx.
  - simpl in Hx. inversion Hx; subst. exists []. split; [reflexivity|]. split; [intros m []|]. split; [apply incl_refl|]. split; reflexivity.
  - simpl in Hx. destruct (IH _ _ _ _ Hx) as [order [Ht [Hn [Hi [Hr Hd]]]]]. exists order. split; auto.
  - simpl in Hx. fold (FLof (xt s)) in Hx.
    destruct (source_module (FLof (xt s)) (xt s) top mp st l a) as [[q|]|] eqn:Esrc.
    + (* a module is spliced in *)
      set (s1 := mkX (xt s) (xseen s) (xunsup s) _ (xdone s) (xpending s) _) in Hx.
      assert (Hafter : exists s1' order1,
                (if mem_path q (xseen s) then Done s1 else rec q s1) = Done s1' /\
                xt s1' = xsteps (FLof (xt s)) top order1 (xt s) /\
                (forall m, In m order1 -> ~ In m (xseen s)) /\ incl (xseen s) (xseen s1') /\ In q (xseen s1') /\
                xdone s1' = rev order1 ++ xdone s).
      { destruct (mem_path q (xseen s)) eqn:Eseen.
        - exists s1, []. split; [reflexivity|]. split; [reflexivity|]. split; [intros m []|]. split; [apply incl_refl|]. split; [apply mem_path_In; exact Eseen|reflexivity].
        - destruct (rec q s1) as [s1'| |] eqn:Er; try (exfalso; simpl in Hx; discriminate).
          assert (Hq : ~ In q (xseen s1)) by (intros Hin; apply mem_path_In in Hin; change (xseen s1) with (xseen s) in Hin; congruence).
          destruct (Hrec q s1 s1' Er Hq) as [order1 [Ht [Hn [Hi [Hqs Hd]]]]]. exists s1', order1. split; [reflexivity|]. split; [exact Ht|]. split; [exact Hn|]. split; [exact Hi|]. split; [exact Hqs|exact Hd]. }
      destruct Hafter as [s1' [order1 [Ha [Ht1 [Hn1 [Hi1 [Hq1 Hd1]]]]]]]. rewrite Ha in Hx.
      assert (Hsame1 : same_members (xt s) (xt s1')) by (rewrite Ht1; apply xsteps_same).
      (* the rest of the loop, from the state s2 that differs from s1' in the pending list only *)
      assert (Hrest : forall acc' s2, xt s2 = xt s1' -> xseen s2 = xseen s1' -> xdone s2 = xdone s1' ->
                xitems rec top mp st its acc' s2 = Done (r, s') ->
                acc' = sitem (FLof (xt s)) (xt s') top mp st acc (IRef l a) ->
                exists order, xt s' = xsteps (FLof (xt s)) top order (xt s) /\
                              (forall m, In m order -> ~ In m (xseen s)) /\ incl (xseen s) (xseen s') /\
                              r = fold_left (sitem (FLof (xt s)) (xt s') top mp st) (IRef l a :: its) acc /\
                              xdone s' = rev order ++ xdone s).
      { intros acc' s2 Ht2 Hs2 Hd2 Hx2 Hacc. destruct (IH _ _ _ _ Hx2) as [order2 [Ht [Hn [Hi [Hr Hd]]]]].
        rewrite Ht2, <- (FLof_same _ _ Hsame1) in Ht, Hr. exists (order1 ++ order2). split; [|split; [|split; [|split]]].
        - rewrite xsteps_app, <- Ht1. exact Ht.
        - intros m Hm. apply in_app_or in Hm. destruct Hm as [Hm|Hm]; auto. intros Hin. apply (Hn m Hm). rewrite Hs2. apply Hi1. auto.
        - intros x0 Hx0. apply Hi. rewrite Hs2. apply Hi1. auto.
        - cbn [fold_left]. rewrite <- Hacc. exact Hr.
        - rewrite Hd, Hd2, Hd1, rev_app_distr, <- app_assoc. reflexivity. }
      (* the value read for this item is the one the schedule step reads in the final table of the loop *)
      assert (Hread : forall order2, xt s' = xsteps (FLof (xt s)) top order2 (xt s1') -> (forall m, In m order2 -> ~ In m (xseen s1')) ->
                sitem (FLof (xt s)) (xt s') top mp st acc (IRef l a) =
                match get_mod (xt s1') q with
                | Some stq => match exports stq with Some l' => merge_exports acc l' | None => acc end
                | None => acc
                end).
      { intros order2 Ht2 Hn2. unfold sitem.
        assert (Hs' : same_members (xt s) (xt s')).
        { eapply same_members_trans; [exact Hsame1|]. rewrite Ht2. apply xsteps_same. }
        rewrite <- (source_module_same _ (xt s) (xt s') top mp st l a Hs'), Esrc.
        rewrite Ht2, xsteps_other; auto. intros m Hm Heq. subst m. apply (Hn2 q Hm). exact Hq1. }
      destruct (get_mod (xt s1') q) as [stq|] eqn:Eg.
      * destruct (exports stq) as [l'|] eqn:Ee.
        -- match type of Hx with xitems _ _ _ _ _ _ ?sx = _ => set (s2 := sx) in Hx end.
           assert (Ht2 : xt s2 = xt s1') by (unfold s2; destruct (negb _ && _); reflexivity).
           assert (Hs2 : xseen s2 = xseen s1') by (unfold s2; destruct (negb _ && _); reflexivity).
           assert (Hd2 : xdone s2 = xdone s1') by (unfold s2; destruct (negb _ && _); reflexivity).
           destruct (IH _ _ _ _ Hx) as [order2 [Ht [Hn _]]]. rewrite Ht2, <- (FLof_same _ _ Hsame1) in Ht. rewrite Hs2 in Hn.
           apply (Hrest _ s2 Ht2 Hs2 Hd2 Hx). rewrite (Hread order2 Ht Hn); rewrite ?Eg; rewrite ?Ee; reflexivity.
        -- destruct (IH _ _ _ _ Hx) as [order2 [Ht [Hn _]]]. rewrite <- (FLof_same _ _ Hsame1) in Ht.
           apply (Hrest _ s1' eq_refl eq_refl eq_refl Hx). rewrite (Hread order2 Ht Hn); rewrite ?Eg; rewrite ?Ee; reflexivity.
      * destruct (IH _ _ _ _ Hx) as [order2 [Ht [Hn _]]]. rewrite <- (FLof_same _ _ Hsame1) in Ht.
        apply (Hrest _ s1' eq_refl eq_refl eq_refl Hx). rewrite (Hread order2 Ht Hn); rewrite ?Eg; reflexivity.
    + (* the source is dropped *)
      destruct (IH _ _ _ _ Hx) as [order [Ht [Hn [Hi [Hr Hd]]]]]. simpl in Ht, Hn, Hi, Hr, Hd. exists order.
      split; [exact Ht|]. split; [exact Hn|]. split; [exact Hi|]. split; [|exact Hd].
      cbn [fold_left]. unfold sitem at 2.
      assert (Hs' : same_members (xt s) (xt s')) by (rewrite Ht; apply xsteps_same).
      rewrite <- (source_module_same _ (xt s) (xt s') top mp st l a Hs'), Esrc. exact Hr.
    + (* outside the model *)
      destruct (IH _ _ _ _ Hx) as [order [Ht [Hn [Hi [Hr Hd]]]]]. simpl in Ht, Hn, Hi, Hr, Hd. exists order.
      split; [exact Ht|]. split; [exact Hn|]. split; [exact Hi|]. split; [|exact Hd].
      cbn [fold_left]. unfold sitem at 2.
      assert (Hs' : same_members (xt s) (xt s')) by (rewrite Ht; apply xsteps_same).
      rewrite <- (source_module_same _ (xt s) (xt s') top mp st l a Hs'), Esrc. exact Hr.
Qed.

Lemma xsubs_spec : forall ms s s',
  xsubs rec mp ms s = Done s' ->
  exists order, xt s' = xsteps (FLof (xt s)) top order (xt s) /\
                (forall m, In m order -> ~ In m (xseen s)) /\ incl (xseen s) (xseen s') /\
                xdone s' = rev order ++ xdone s.
Proof.
  induction ms as [|[c m] ms IH]; intros s s' Hx; simpl in Hx.
  - inversion Hx; subst. exists []. split; [reflexivity|]. split; [intros m []|]. split; [apply incl_refl|reflexivity].
  - destruct m; try (apply IH; exact Hx).
    destruct (mem_path (mp ++ [c]) (xseen s)) eqn:Eseen; [apply IH; exact Hx|].
    destruct (rec (mp ++ [c]) s) as [s1| |] eqn:Er; try discriminate.
    assert (Hq : ~ In (mp ++ [c]) (xseen s)) by (intros Hin; apply mem_path_In in Hin; congruence).
    destruct (Hrec _ s s1 Er Hq) as [order1 [Ht1 [Hn1 [Hi1 [_ Hd1]]]]].
    destruct (IH _ _ Hx) as [order2 [Ht2 [Hn2 [Hi2 Hd2]]]].
    assert (Hsame1 : same_members (xt s) (xt s1)) by (rewrite Ht1; apply xsteps_same).
    rewrite <- (FLof_same _ _ Hsame1) in Ht2.
    exists (order1 ++ order2). split; [|split; [|split]].
    + rewrite xsteps_app, <- Ht1. exact Ht2.
    + intros m Hm. apply in_app_or in Hm. destruct Hm as [Hm|Hm]; auto. intros Hin. apply (Hn2 m Hm). apply Hi1. auto.
    + intros x Hx0. apply Hi2. apply Hi1. auto.
    + rewrite Hd2, Hd1, rev_app_distr, <- app_assoc. reflexivity.
Qed.

End LoopSpecs.

(* ------------------------------------------------------------------------------------------------------------ *)
(* the traversal                                                                                                 *)
(* ------------------------------------------------------------------------------------------------------------ *)
Lemma expx_spec top : forall fuel, XSpec top (expx fuel top).
Proof.
  induction fuel as [|f IH]; intros mp s s' Hx Hnew; [simpl in Hx; discriminate|].
  rewrite expx_unfold in Hx. cbv zeta in Hx.
  set (s0 := mkX (xt s) (mp :: xseen s) (xunsup s) (xdropped s) (xdone s) (xpending s) (xhops s)) in *.
  change (xt s0) with (xt s) in Hx.
  destruct (get_mod (xt s) mp) as [st|] eqn:Eg.
  2:{ inversion Hx; subst s'. exists []. split; [reflexivity|]. split; [intros m []|]. split; [intros x Hx0; right; exact Hx0|]. split; [left; reflexivity|reflexivity]. }
  destruct (xitems (expx f top) top mp st (match exports st with Some ex => ex | None => [] end) [] s0) as [[expanded s1]| |] eqn:Ei;
    try discriminate.
  destruct (xitems_spec top (expx f top) IH mp st _ _ _ _ _ Ei) as [order1 [Ht1 [Hn1 [Hi1 [Hexp Hd1]]]]].
  change (xdone s0) with (xdone s) in Hd1.
  change (xt s0) with (xt s) in Ht1, Hexp. change (xseen s0) with (mp :: xseen s) in Hn1, Hi1.
  assert (Hsame1 : same_members (xt s) (xt s1)) by (rewrite Ht1; apply xsteps_same).
  assert (Hmp1 : get_mod (xt s1) mp = Some st).
  { rewrite Ht1, xsteps_other; auto. intros m Hm Heq. subst m. apply (Hn1 mp Hm). left. auto. }
  (* the table after the step of mp itself *)
  assert (Hstep : match exports st with Some _ => set_exports (xt s1) mp (Some expanded) | None => xt s1 end =
                  sched_exports_step (FLof (xt s)) top (xt s1) mp).
  { unfold sched_exports_step. rewrite Hmp1. destruct (exports st) as [ex|]; auto.
    rewrite sched_items_fold, Hexp. reflexivity. }
  rewrite Hstep in Hx.
  match type of Hx with xsubs _ _ _ ?sx = _ => set (s2 := sx) in Hx end.
  destruct (xsubs_spec top (expx f top) IH mp _ _ _ Hx) as [order2 [Ht2 [Hn2 [Hi2 Hd2]]]].
  change (xdone s2) with (mp :: xdone s1) in Hd2.
  change (xt s2) with (sched_exports_step (FLof (xt s)) top (xt s1) mp) in Ht2. change (xseen s2) with (xseen s1) in Hn2, Hi2.
  assert (Hsame2 : same_members (xt s) (sched_exports_step (FLof (xt s)) top (xt s1) mp)).
  { eapply same_members_trans; [exact Hsame1|apply sched_exports_step_same]. }
  rewrite <- (FLof_same _ _ Hsame2) in Ht2.
  exists (order1 ++ mp :: order2). split; [|split; [|split; [|split]]].
  - rewrite xsteps_app. simpl. rewrite <- Ht1. exact Ht2.
  - intros m Hm. apply in_app_or in Hm. destruct Hm as [Hm|[Hm|Hm]].
    + intros Hin. apply (Hn1 m Hm). right. auto.
    + subst m. auto.
    + intros Hin. apply (Hn2 m Hm). apply Hi1. right. auto.
  - intros x Hx0. apply Hi2. apply Hi1. right. auto.
  - apply Hi2. apply Hi1. left. auto.
  - rewrite Hd2, Hd1, rev_app_distr. simpl. rewrite <- !app_assoc. reflexivity.
Qed.

(* The exports phase of griffe.load: every table, every fuel.  The traversal performs exactly the schedule's per-module
   export steps, one per module it enters, in the order in which it completes them. *)
Theorem expx_is_a_schedule fuel top mp s s' :
  expx fuel top mp s = Done s' -> ~ In mp (xseen s) ->
  exists order, xt s' = fold_left (sched_exports_step (S (List.length (xt s) * 8 + 64)) top) order (xt s) /\
                (forall m, In m order -> ~ In m (xseen s)) /\ In mp (xseen s') /\ xdone s' = rev order ++ xdone s.
Proof.
  intros Hx Hnew. destruct (expx_spec top fuel mp s s' Hx Hnew) as [order [Ht [Hn [_ [Hq Hd]]]]]. exists order. auto.
Qed.

(* the exports phase of griffe_load *)
Corollary load_exports_phase top ms x :
  expx (total_fuel ms) top [top] (mkX (initial_table ms) [] false [] [] [] []) = Done x ->
  xt x = fold_left (sched_exports_step (S (List.length ms * 8 + 64)) top) (rev (xdone x)) (initial_table ms).
Proof.
  intros Hx. destruct (expx_is_a_schedule _ _ _ _ _ Hx) as [order [Ht [_ [_ Hd]]]]; [intros []|].
  simpl in Ht, Hd. unfold initial_table in Ht at 1. rewrite map_length in Ht. rewrite app_nil_r in Hd.
  rewrite Hd, rev_involutive. exact Ht.
Qed.
