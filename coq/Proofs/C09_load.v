(* C09 -- `loadable` derived: whatever the construction sites of the loaders build is in the domain of the theorems,
   provided the expressions conform to their classes. *)
From Coq Require Import List ZArith String Ascii Bool Arith Lia.
From Verif Require Import Lib.Sexp Model.C09_json Gen.C09_schema Gen.C09_exprs Gen.C09_load Model.C09_expr Model.C09_enc Model.C09_paths
  Model.C09_load Proofs.C09_schema Proofs.C09_mem Proofs.C09_expr Proofs.C09_enc Proofs.C09_paths.
Import ListNotations.
Open Scope string_scope.
Open Scope list_scope.
Open Scope nat_scope.

Lemma load_tables_ok_holds : load_tables_ok = true.
Proof. vm_compute. reflexivity. Qed.

Definition kind_opt_ok (o : option string) : bool := match o with Some k => str_in k enc_parameter_kinds | None => false end.

Lemma bucket_ok : forall b, In b ["posonlyargs"; "args"; "vararg"; "kwonlyargs"; "kwarg"] -> kind_opt_ok (bucket_kind b) = true.
Proof.
  intros b Hin. pose proof load_tables_ok_holds as T. unfold load_tables_ok in T.
  do 4 (apply andb_true_iff in T; destruct T as [T _]). rewrite forallb_forall in T. exact (T b Hin).
Qed.

Lemma dataclass_kinds_ok : str_in dataclass_kw_kind enc_parameter_kinds = true /\ str_in dataclass_other_kind enc_parameter_kinds = true
  /\ str_in dataclass_self_kind enc_parameter_kinds = true.
Proof. repeat split; vm_compute; reflexivity.
Qed.

Lemma inspect_kind_ok : forall k, str_in k inspect_kinds = true -> kind_opt_ok (lookup k inspect_kind_map) = true.
Proof.
  intros k Hin. apply str_in_In in Hin. pose proof load_tables_ok_holds as T. unfold load_tables_ok in T.
  do 3 (apply andb_true_iff in T; destruct T as [T _]). apply andb_true_iff in T. destruct T as [_ T].
  rewrite forallb_forall in T. exact (T k Hin).
Qed.

(* ---------- the construction sites ---------- *)

Theorem visit_decorator_ok : forall d, aval_ok (fst d) = true -> deco_ok (visit_decorator d) = true.
Proof. intros [v pos] H. unfold deco_ok, visit_decorator. simpl in *. exact H. Qed.

Lemma param_ok_intro : forall n a k d, kind_opt_ok k = true -> aval_ok a = true -> aval_ok d = true -> param_ok (mkParam n a k d None) = true.
Proof.
  intros n a k d Hk Ha Hd. unfold param_ok. cbn [p_kind p_doc p_annotation p_default optdoc_ok].
  destruct k as [k|]; [|discriminate]. unfold kind_opt_ok in Hk. now rewrite Hk, Ha, Hd.
Qed.

Lemma visit_args_ok : forall b l, In b ["posonlyargs"; "args"; "vararg"; "kwonlyargs"; "kwarg"] ->
  forallb arg_src_ok l = true -> forallb param_ok (map (visit_arg b) l) = true.
Proof.
  intros b l Hb H. apply forallb_forall. intros p Hin. apply in_map_iff in Hin. destruct Hin as [a [<- Ha]].
  rewrite forallb_forall in H. specialize (H a Ha). unfold arg_src_ok in H. apply andb_true_iff in H. destruct H as [H1 H2].
  apply param_ok_intro; auto. now apply bucket_ok.
Qed.

Lemma visit_variadic_ok : forall b dflt a, In b ["posonlyargs"; "args"; "vararg"; "kwonlyargs"; "kwarg"] ->
  optarg_src_ok a = true -> forallb param_ok (visit_variadic b dflt a) = true.
Proof.
  intros b dflt [a|] Hb H; [|reflexivity]. simpl in *. rewrite andb_true_r. apply param_ok_intro; auto. now apply bucket_ok.
Qed.

Theorem visit_parameters_ok : forall a, arguments_src_ok a = true -> forallb param_ok (visit_parameters a) = true.
Proof.
  intros a H. unfold arguments_src_ok in H. repeat (apply andb_true_iff in H; let K := fresh "K" in destruct H as [H K]).
  unfold visit_parameters. rewrite !forallb_app.
  rewrite (visit_args_ok "posonlyargs"), (visit_args_ok "args"), (visit_variadic_ok "vararg"), (visit_args_ok "kwonlyargs"),
    (visit_variadic_ok "kwarg"); simpl; auto 10.
Qed.

(* the default the inspector gives a parameter is None or a string, whatever the live default object is (since fix 5db8f3a) *)
Theorem inspect_default_always_string : forall k d, aval_ok (inspect_default k d) = true.
Proof.
  intros k d. unfold inspect_default. destruct (String.eqb k "VAR_POSITIONAL"); [reflexivity|].
  destruct (String.eqb k "VAR_KEYWORD"); [reflexivity|]. now destruct d.
Qed.

Theorem inspect_parameter_ok : forall p, sig_src_ok p = true -> param_ok (inspect_parameter p) = true.
Proof.
  intros [n k a d] H. unfold sig_src_ok in H. cbn [sp_kind sp_annotation sp_default] in H.
  apply andb_true_iff in H. destruct H as [Hk Ha].
  unfold inspect_parameter. cbn [sp_name sp_kind sp_annotation sp_default].
  apply param_ok_intro; [now apply inspect_kind_ok|exact Ha|apply inspect_default_always_string].
Qed.

(* ... annotations: a text that does not compile is kept as text, never as the object *)
Theorem convert_annotation_cases :
  (forall text, ann_src_ok (AnnText text None) = true) /\ (forall text x, ann_src_ok (AnnText text (Some x)) = aval_ok x).
Proof. split; reflexivity. Qed.

Theorem build_section_ok : forall s, ssection_src_ok s = true -> section_ok (build_section s) = true.
Proof.
  intros [cls v t] H. unfold ssection_src_ok in H. cbn [ss_class ss_value] in H.
  unfold section_ok, build_section. cbn [ss_class ss_value ss_title sec_kind sec_value].
  destruct (lookup cls section_classes) as [k|]; [|discriminate]. destruct (lookup k section_table) as [sk|]; [exact H|discriminate].
Qed.

Lemma build_doc_ok : forall d, sdoc_src_ok d = true -> optdoc_ok (option_map build_doc d) = true.
Proof.
  intros [d|] H; [|reflexivity]. simpl in *. unfold doc_ok. cbn [ds_parsed build_doc]. apply forallb_forall.
  intros s Hin. apply in_map_iff in Hin. destruct Hin as [x [<- Hx]]. apply build_section_ok. rewrite forallb_forall in H. auto.
Qed.

Lemma decos_ok : forall l, decos_src_ok l = true -> forallb deco_ok (map visit_decorator l) = true.
Proof.
  intros l H. apply forallb_forall. intros d Hin. apply in_map_iff in Hin. destruct Hin as [x [<- Hx]].
  apply visit_decorator_ok. unfold decos_src_ok in H. rewrite forallb_forall in H. auto.
Qed.

(* the parameters the dataclasses extension synthesises always have a kind *)
Theorem synth_parameter_ok : forall p, synth_src_ok p = true -> param_ok (synth_parameter p) = true.
Proof.
  intros [n a kw d doc] H. unfold synth_src_ok in H. cbn [sy_annotation sy_default sy_doc] in H.
  apply andb_true_iff in H. destruct H as [H Hdoc]. apply andb_true_iff in H. destruct H as [Ha Hd].
  unfold synth_parameter, param_ok. cbn [sy_name sy_annotation sy_kw_only sy_default sy_doc p_kind p_doc p_annotation p_default].
  destruct dataclass_kinds_ok as [K1 [K2 _]].
  rewrite Ha, Hd, (build_doc_ok _ Hdoc). destruct kw; [rewrite K1|rewrite K2]; reflexivity.
Qed.

Theorem synth_init_ok : forall fields, forallb synth_src_ok fields = true -> spec_ok (synth_init fields) = true.
Proof.
  intros fields H. unfold synth_init. cbn [spec_ok forallb aval_ok]. destruct dataclass_kinds_ok as [_ [_ K3]].
  unfold param_ok at 1. cbn [p_kind p_doc p_annotation p_default optdoc_ok aval_ok]. rewrite K3.
  cbn [andb]. rewrite andb_true_r. apply forallb_forall. intros p Hin. apply in_map_iff in Hin. destruct Hin as [x [<- Hx]].
  apply synth_parameter_ok. rewrite forallb_forall in H. auto.
Qed.

Theorem build_spec_ok : forall s, sspec_src_ok s = true -> spec_ok (build_spec s) = true.
Proof.
  intros s H. destruct s as [|bases decos|decos a returns|params returns|value annotation|returns|fields];
    try (apply synth_init_ok; exact H); simpl in *; try reflexivity.
  - apply andb_true_iff in H. destruct H as [Hb Hd]. now rewrite Hb, decos_ok.
  - apply andb_true_iff in H. destruct H as [H Hr]. apply andb_true_iff in H. destruct H as [Hd Ha].
    now rewrite decos_ok, visit_parameters_ok, Hr.
  - apply andb_true_iff in H. destruct H as [Hp Hr]. unfold ann_src_ok in Hr. rewrite Hr, andb_true_r.
    apply forallb_forall. intros p Hin. apply in_map_iff in Hin. destruct Hin as [x [<- Hx]]. apply inspect_parameter_ok.
    rewrite forallb_forall in Hp. auto.
  - exact H.
  - exact H.
Qed.

(* ---------- whole trees ---------- *)

Section SrcInd.
  Variable P : src -> Prop.
  Hypothesis Ha : forall name target path lineno endlineno, P (SAlias name target path lineno endlineno).
  Hypothesis Ho : forall spec name path fp lineno endlineno doc labels members,
    Forall (fun nm => P (snd nm)) members -> P (SObj spec name path fp lineno endlineno doc labels members).

  Fixpoint src_ind' (t : src) : P t :=
    match t with
    | SAlias name target path lineno endlineno => Ha name target path lineno endlineno
    | SObj spec name path fp lineno endlineno doc labels members =>
        Ho spec name path fp lineno endlineno doc labels members
           ((fix go (l : list (string * src)) : Forall (fun nm => P (snd nm)) l :=
               match l with
               | [] => Forall_nil _
               | x :: r => Forall_cons x (src_ind' (snd x)) (go r)
               end) members)
    end.
End SrcInd.

(* `loadable`, derived: every tree the construction sites build from sources that are fine (expressions conform to their
   classes; sections are instances of section classes) is in the domain *)
Theorem built_is_loadable : forall s, src_ok s = true -> ploadable (build s) = true.
Proof.
  induction s as [name target path lineno endlineno|spec name path fp lineno endlineno doc labels members IH] using src_ind';
    intros H; [reflexivity|].
  cbn [src_ok] in H. apply andb_true_iff in H. destruct H as [H Hm]. apply andb_true_iff in H. destruct H as [Hs Hd].
  cbn [build ploadable]. rewrite (build_spec_ok _ Hs), (build_doc_ok _ Hd). simpl.
  apply forallb_forall. intros nm Hin. apply in_map_iff in Hin. destruct Hin as [[n m] [<- Hx]]. cbn [fst snd].
  rewrite Forall_forall in IH. rewrite forallb_forall in Hm. exact (IH (n, m) Hx (Hm (n, m) Hx)).
Qed.

(* the finder never yields a builtin module *)
Theorem built_no_builtin : forall s, no_builtin (build s) = true.
Proof.
  induction s as [name target path lineno endlineno|spec name path fp lineno endlineno doc labels members IH] using src_ind';
    [reflexivity|].
  cbn [build no_builtin]. replace (match build_fp fp with PBuiltin => false | _ => true end) with true by now destruct fp.
  simpl. apply forallb_forall. intros nm Hin. apply in_map_iff in Hin. destruct Hin as [[n m] [<- Hx]]. cbn [fst snd].
  rewrite Forall_forall in IH. exact (IH (n, m) Hx).
Qed.

(* the property for what the loaders build, from any working directory, modulo the known finding F7 (a decidable
   predicate of the built tree) *)
Theorem loaded_dump_modulo_known : forall cwd s,
  src_ok s = true -> f7_gap (build s) = false ->
  exists j, dump cwd (build s) = Done j /\ exists fuel, validates_doc fuel j = Some true.
Proof.
  intros cwd s Hs H7. apply dump_total_modulo_known; auto using built_is_loadable, built_no_builtin.
Qed.

(* non-vacuity: a static function with every parameter kind and a decorator, an inspected function, a parsed docstring *)
Definition src_sample : src :=
  SObj SModule "m" "m" (SFile ["w"; "m.py"]) None None
       (Some (mkSDoc "d" (Some 1%Z) (Some 3%Z) [mkSSection "DocstringSectionText" (SVText "d") None;
                                                mkSSection "DocstringSectionRaises" (SVItems [IPlain (AStr "E") "bad"]) (Some "Raises:")])) []
    [("f", SObj (SFunction [(AStr "deco", mkPos 3 (Some 3%Z))]
                           (mkArgs [mkArg "a" ANone ANone] [mkArg "b" (AStr "int") (AStr "1")] (Some (mkArg "args" ANone ANone))
                                   [mkArg "k" ANone (AExpr "ExprName" [FStr "x"])] (Some (mkArg "kw" ANone ANone))) ANone)
                "f" "m.f" SNotModule (Some 3%Z) (Some 5%Z) None [] []);
     ("g", SObj (SInspected [mkSig "x" "POSITIONAL_OR_KEYWORD" (AnnText "int" (Some (AExpr "ExprName" [FStr "int"]))) (DNamed "len");
                             mkSig "rest" "VAR_KEYWORD" AnnEmpty DEmpty] (AnnText "<m.K object at 0x1>" None))
                "g" "m.g" SNotModule None None None [] []);
     ("DC", SObj (SClass [] [(AExpr "ExprAttribute" [FList [FExpr "ExprName" [FStr "dataclasses"]; FExpr "ExprName" [FStr "dataclass"]]], mkPos 7 (Some 7%Z))])
                 "DC" "m.DC" SNotModule (Some 7%Z) (Some 10%Z) None ["dataclass"]
                 [("__init__", SObj (SDataclassInit [mkSynth "fa" (AStr "int") false (AStr "0") None; mkSynth "fb" (AStr "int") true ANone None])
                                    "__init__" "m.DC.__init__" SNotModule (Some 0%Z) (Some 0%Z) None [] [])]);
     ("os", SAlias "os" "os" "m.os" (Some 1%Z) (Some 1%Z))].

Example src_sample_ok : src_ok src_sample = true /\ match dump ["w"] (build src_sample) with Done j => validates_doc 64 j = Some true | Raised _ => False end.
Proof. split; vm_compute; reflexivity. Qed.
