(* C10 proofs, part 2: completeness of the parameter rules against CPython's binder, for all well-formed
   signatures and all calls, modulo the five known-gap predicates F2 F4 F5 F6 F7. *)
From Coq Require Import List Arith Bool Lia.
From Verif Require Import Lib.Sexp Model.C10_kinds Gen.C10_tables Model.C10_diff Proofs.C10_diff.
Import ListNotations.
Open Scope list_scope. Open Scope nat_scope.

(* ---- generic facts ---- *)
Lemma has_kind_iff k s : has_kind k s = true <-> exists p, In p s /\ pkind p = k.
Proof.
  unfold has_kind. rewrite existsb_exists. split; intros [p [Hp Hk]]; exists p; split; auto.
  - apply kind_eqb_eq. exact Hk.
  - apply kind_eqb_eq. exact Hk.
Qed.

Lemma find_nth n s p : find n s = Some p -> nth_error s (index_of n s) = Some p.
Proof.
  induction s as [|q s IH]; simpl; [discriminate|].
  destruct (Nat.eqb (pname q) n); [intros H; inversion H; reflexivity|exact IH].
Qed.

Lemma nodup_in_find s p : nodup_names s = true -> In p s -> find (pname p) s = Some p.
Proof. intros Hnd. apply (proj1 (nodup_find_index s Hnd)). Qed.

Lemma nodup_nth_index s k p : nodup_names s = true -> nth_error s k = Some p -> index_of (pname p) s = k.
Proof. intros Hnd. apply (proj2 (nodup_find_index s Hnd)). Qed.

Lemma sorted_head_le q r : sorted_kinds (q :: r) = true ->
  (forall p, In p r -> krank (pkind q) <= krank (pkind p)) /\ sorted_kinds r = true.
Proof.
  revert q. induction r as [|x r IH]; intros q H.
  - split; [intros p []|reflexivity].
  - simpl in H. apply andb_prop in H. destruct H as [H1 H2]. apply Nat.leb_le in H1.
    destruct (IH x H2) as [IH1 IH2]. split; [|exact H2].
    intros p [Hp|Hp]; [subst; exact H1|]. specialize (IH1 p Hp). lia.
Qed.

Lemma pos_rank k : pos_kind k = true <-> krank k <= 1.
Proof. destruct k; simpl; split; intros H; try reflexivity; try discriminate; try lia. Qed.

Lemma npos_zero r : (forall p, In p r -> 2 <= krank (pkind p)) -> npos r = 0.
Proof.
  unfold npos. induction r as [|x r IH]; intros H; simpl; [reflexivity|].
  destruct (pos_kind (pkind x)) eqn:E.
  - apply pos_rank in E. specialize (H x (or_introl eq_refl)). lia.
  - apply IH. intros p Hp. apply H. right. exact Hp.
Qed.

Lemma npos_cons q r : npos (q :: r) = (if pos_kind (pkind q) then 1 else 0) + npos r.
Proof. unfold npos. simpl. destruct (pos_kind (pkind q)); reflexivity. Qed.

(* positional parameters are exactly the prefix of length npos *)
Lemma pos_prefix_lt s : sorted_kinds s = true -> forall i p,
  nth_error s i = Some p -> pos_kind (pkind p) = true -> i < npos s.
Proof.
  induction s as [|q r IH]; intros Hs i p Hn Hp; [destruct i; discriminate|].
  destruct (sorted_head_le q r Hs) as [Hle Hr]. rewrite npos_cons.
  destruct i as [|j]; simpl in Hn.
  - inversion Hn; subst. rewrite Hp. lia.
  - assert (Hin : In p r) by (eapply nth_error_In; eauto).
    assert (Hq : pos_kind (pkind q) = true).
    { apply pos_rank. apply pos_rank in Hp. specialize (Hle p Hin). lia. }
    rewrite Hq. specialize (IH Hr j p Hn Hp). lia.
Qed.

Lemma pos_prefix_nth s : sorted_kinds s = true -> forall i,
  i < npos s -> exists p, nth_error s i = Some p /\ pos_kind (pkind p) = true.
Proof.
  induction s as [|q r IH]; intros Hs i Hi; [unfold npos in Hi; simpl in Hi; lia|].
  destruct (sorted_head_le q r Hs) as [Hle Hr]. rewrite npos_cons in Hi.
  destruct (pos_kind (pkind q)) eqn:Hq.
  - destruct i as [|j]; [exists q; auto|]. simpl. apply IH; [exact Hr|lia].
  - assert (npos r = 0).
    { apply npos_zero. intros p Hp. specialize (Hle p Hp).
      destruct (pkind q); simpl in *; try discriminate; lia. }
    lia.
Qed.

(* ---- what silence of the diff says ---- *)
Record wfp (s : sig) : Prop := {
  wf_sorted : sorted_kinds s = true;
  wf_nodup : nodup_names s = true;
  wf_var_default : forall p, In p s -> var_kind (pkind p) = true -> required p = false }.

Lemma wf_wfp s : wf s = true -> wfp s.
Proof.
  unfold wf. intros H. repeat (apply andb_prop in H; destruct H as [H ?]).
  constructor; auto.
  intros p Hp Hv. rewrite forallb_forall in H0. specialize (H0 p Hp). rewrite Hv in H0.
  unfold required. destruct (pdef p); [reflexivity|discriminate].
Qed.

Lemma olds_nil new : forall s i, olds new i s = [] -> forall k p, nth_error s k = Some p -> per_old new (i + k) p = [].
Proof.
  induction s as [|q s IH]; intros i H k p Hk; [destruct k; discriminate|].
  simpl in H. apply app_eq_nil in H. destruct H as [H1 H2].
  destruct k as [|k]; simpl in Hk.
  - inversion Hk; subst. replace (i + 0) with i by lia. exact H1.
  - replace (i + S k) with (S i + k) by lia. apply IH; assumption.
Qed.

Definition silent_pair (new : sig) (oi : nat) (op np : param) : Prop :=
  (required np = true -> required op = true) /\
  (pos_kind (pkind op) = true -> pos_kind (pkind np) = true -> index_of (pname op) new = oi) /\
  (pkind op = pkind np \/ incompatible_doc (pkind op) (pkind np) (has_kind VP new) (has_kind VK new) = false).

Lemma if_nil {A} (c : bool) (x : A) : (if c then [x] else []) = [] -> c = false.
Proof. destruct c; [discriminate|reflexivity]. Qed.

Lemma per_old_nil_some new oi op np : per_old new oi op = [] -> find (pname op) new = Some np -> silent_pair new oi op np.
Proof.
  unfold per_old. intros H Hf. rewrite Hf in H.
  apply app_eq_nil in H. destruct H as [H1 H]. apply app_eq_nil in H. destruct H as [H2 H].
  apply app_eq_nil in H. destruct H as [H3 _].
  apply if_nil in H1. apply if_nil in H2. apply if_nil in H3.
  repeat split.
  - intros Hr. rewrite Hr in H1. simpl in H1. apply negb_false_iff in H1. exact H1.
  - intros Ho Hn. rewrite !is_pos_spec, Ho, Hn in H2. simpl in H2. apply negb_false_iff, Nat.eqb_eq in H2. exact H2.
  - destruct (kind_eqb (pkind op) (pkind np)) eqn:E.
    + left. apply kind_eqb_eq. exact E.
    + right. simpl in H3. apply kind_eqb_neq in E. rewrite <- (incompatible_spec _ _ _ _ E). exact H3.
Qed.

Lemma per_old_nil_none new oi op : per_old new oi op = [] -> find (pname op) new = None ->
  swallowed_doc (pkind op) (has_kind VP new) (has_kind VK new) = true.
Proof.
  unfold per_old. intros H Hf. rewrite Hf in H. rewrite <- swallowed_spec.
  destruct (swallowed (pkind op) (has_kind VP new) (has_kind VK new)); [reflexivity|discriminate].
Qed.

Section Complete.
Variables old new : sig.
Hypothesis Hwo : wfp old.
Hypothesis Hwn : wfp new.
Hypothesis Hsilent : fdiff old new = [].

Let hva := has_kind VP new.
Let hvk := has_kind VK new.

Lemma silent_olds : forall oi op, nth_error old oi = Some op -> per_old new oi op = [].
Proof.
  unfold fdiff in Hsilent. apply app_eq_nil in Hsilent. destruct Hsilent as [H _].
  intros oi op Hn. apply (olds_nil new old 0 H oi op Hn).
Qed.

Lemma silent_added : forall np, In np new -> find (pname np) old = None -> required np = false.
Proof.
  unfold fdiff in Hsilent. apply app_eq_nil in Hsilent. destruct Hsilent as [_ H].
  intros np Hin Hf. unfold added in H.
  destruct (required np) eqn:Hr; [|reflexivity]. exfalso.
  assert (Hx : In (AddedReq (pname np)) (flat_map (fun np => match find (pname np) old with None => if required np then [AddedReq (pname np)] else [] | _ => [] end) new)).
  { apply in_flat_map. exists np. split; [exact Hin|]. rewrite Hf, Hr. left. reflexivity. }
  rewrite H in Hx. destruct Hx.
Qed.

Lemma in_old_index op : In op old -> exists oi, nth_error old oi = Some op.
Proof. apply In_nth_error. Qed.

(* a removed old parameter is swallowed; a kept one is a silent pair *)
Lemma old_cases op : In op old ->
  (find (pname op) new = None /\ swallowed_doc (pkind op) hva hvk = true) \/
  (exists np oi, find (pname op) new = Some np /\ In np new /\ pname np = pname op /\ nth_error old oi = Some op /\ silent_pair new oi op np).
Proof.
  intros Hin. destruct (in_old_index op Hin) as [oi Hoi]. pose proof (silent_olds oi op Hoi) as Hs.
  destruct (find (pname op) new) as [np|] eqn:Hf.
  - right. exists np, oi. destruct (find_some_in _ _ _ Hf) as [Hnp Hname].
    split; [reflexivity|]. split; [exact Hnp|]. split; [exact Hname|]. split; [exact Hoi|].
    apply per_old_nil_some; assumption.
  - left. split; [reflexivity|]. apply per_old_nil_none with (oi := oi); assumption.
Qed.

(* a variadic of either sort survives silently *)
Lemma keep_vp : has_kind VP old = true -> hva = true.
Proof.
  intros H. apply has_kind_iff in H. destruct H as [op [Hin Hk]].
  destruct (old_cases op Hin) as [[_ Hs]|[np [oi [Hf [Hnp [_ [_ [_ [_ Hc]]]]]]]]].
  - rewrite Hk in Hs. discriminate.
  - destruct hva eqn:E; [reflexivity|]. exfalso. rewrite Hk in Hc. destruct Hc as [Hc|Hc].
    + assert (has_kind VP new = true) by (apply has_kind_iff; exists np; auto). unfold hva in E. congruence.
    + fold hva in Hc. rewrite E in Hc. destruct (pkind np) eqn:Ek; simpl in Hc; try discriminate.
      assert (has_kind VP new = true) by (apply has_kind_iff; exists np; auto). unfold hva in E. congruence.
Qed.

Lemma keep_vk : has_kind VK old = true -> hvk = true.
Proof.
  intros H. apply has_kind_iff in H. destruct H as [op [Hin Hk]].
  destruct (old_cases op Hin) as [[_ Hs]|[np [oi [Hf [Hnp [_ [_ [_ [_ Hc]]]]]]]]].
  - rewrite Hk in Hs. discriminate.
  - destruct hvk eqn:E; [reflexivity|]. exfalso. rewrite Hk in Hc. destruct Hc as [Hc|Hc].
    + assert (has_kind VK new = true) by (apply has_kind_iff; exists np; auto). unfold hvk in E. congruence.
    + fold hvk in Hc. rewrite E in Hc. destruct (pkind np) eqn:Ek; simpl in Hc; try discriminate.
      assert (has_kind VK new = true) by (apply has_kind_iff; exists np; auto). unfold hvk in E. congruence.
Qed.

(* every old positional parameter is still positional, at the same index, unless a var-positional exists in new *)
Lemma old_positional_kept i op : hva = false -> nth_error old i = Some op -> pos_kind (pkind op) = true ->
  exists np, nth_error new i = Some np /\ pos_kind (pkind np) = true.
Proof.
  intros Hva Hn Hp. assert (Hin : In op old) by (eapply nth_error_In; eauto).
  destruct (old_cases op Hin) as [[_ Hs]|[np [oi [Hf [Hnp [Hname [Hoi [_ [Hidx Hc]]]]]]]]].
  - rewrite Hva in Hs. destruct (pkind op); simpl in *; discriminate.
  - assert (oi = i).
    { rewrite <- (nodup_nth_index old oi op (wf_nodup old Hwo) Hoi). apply nodup_nth_index; [apply Hwo|exact Hn]. }
    subst oi.
    assert (Hpn : pos_kind (pkind np) = true).
    { destruct Hc as [Hc|Hc]; [rewrite <- Hc; exact Hp|].
      fold hva in Hc. rewrite Hva in Hc.
      destruct (pkind op) eqn:Eo; simpl in Hp; try discriminate; destruct (pkind np) eqn:En; simpl in *; try reflexivity; try discriminate.
      - exfalso. assert (has_kind VP new = true) by (apply has_kind_iff; exists np; auto). unfold hva in Hva. congruence.
      - exfalso. assert (has_kind VP new = true) by (apply has_kind_iff; exists np; auto). unfold hva in Hva. congruence. }
    exists np. split; [|exact Hpn].
    specialize (Hidx Hp Hpn). rewrite <- Hidx. apply find_nth. exact Hf.
Qed.

Lemma part_A n : (Nat.leb n (npos old) || has_kind VP old) = true -> (Nat.leb n (npos new) || hva) = true.
Proof.
  intros H. destruct hva eqn:Hva; [apply orb_true_r|]. rewrite orb_false_r.
  apply orb_prop in H. destruct H as [H|H]; [|rewrite (keep_vp H) in Hva; discriminate].
  apply Nat.leb_le in H. apply Nat.leb_le.
  destruct (npos old) as [|m] eqn:Em; [lia|].
  destruct (pos_prefix_nth old (wf_sorted old Hwo) m) as [op [Hn Hp]]; [lia|].
  destruct (old_positional_kept m op Hva Hn Hp) as [np [Hnn Hpn]].
  pose proof (pos_prefix_lt new (wf_sorted new Hwn) m np Hnn Hpn). lia.
Qed.

Lemma accepts_from_binds n i : (Nat.leb n (npos old) || has_kind VP old) = true -> i < n -> accepts_more_than old i = true.
Proof.
  intros H Hi. unfold accepts_more_than. apply orb_prop in H. destruct H as [H|H].
  - apply Nat.leb_le in H. apply orb_true_intro. left. apply Nat.ltb_lt. lia.
  - rewrite H. apply orb_true_r.
Qed.

Hypothesis Hgap : known_gap old new = false.

Lemma gaps_false : F2 old new = false /\ F4 old new = false /\ F5 old new = false /\ F6 old new = false /\ F7 old new = false.
Proof.
  pose proof Hgap as H. unfold known_gap in H.
  apply orb_false_elim in H. destruct H as [H H7]. apply orb_false_elim in H. destruct H as [H H6].
  apply orb_false_elim in H. destruct H as [H H5]. apply orb_false_elim in H. destruct H as [H2 H4]. auto.
Qed.

Lemma part_B n k : (Nat.leb n (npos old) || has_kind VP old) = true -> kw_ok old n k = true -> kw_ok new n k = true.
Proof.
  intros HA Hold. destruct gaps_false as [G2 [G4 [G5 [G6 G7]]]].
  unfold kw_ok in *. destruct (find k new) as [nq|] eqn:Hfn.
  - (* a parameter named k exists in new *)
    destruct (find_some_in _ _ _ Hfn) as [Hnq Hnqn].
    destruct (pkind nq) eqn:Ekn; try reflexivity.
    + (* PO: falls into the var-keyword *)
      destruct (find k old) as [op|] eqn:Hfo; [|apply keep_vk; exact Hold].
      destruct (find_some_in _ _ _ Hfo) as [Hop Hopn].
      destruct (old_cases op Hop) as [[Hx _]|[np [oi [Hf [_ [_ [_ [_ [_ Hc]]]]]]]]]; [rewrite Hopn in Hx; congruence|].
      rewrite Hopn, Hfn in Hf. inversion Hf; subst np. rewrite Ekn in Hc.
      destruct (pkind op) eqn:Eo; try (apply keep_vk; exact Hold);
        destruct Hc as [Hc|Hc]; try discriminate.
    + (* PK: must not also be filled positionally *)
      apply negb_true_iff. apply Nat.ltb_ge.
      destruct (le_lt_dec n (index_of k new)) as [Hle|Hlt]; [exact Hle|exfalso].
      pose proof (accepts_from_binds n (index_of k new) HA Hlt) as Hacc.
      destruct (find k old) as [op|] eqn:Hfo.
      * destruct (find_some_in _ _ _ Hfo) as [Hop Hopn].
        destruct (old_cases op Hop) as [[Hx _]|[np [oi [Hf [_ [_ [Hoi [_ [Hidx Hc]]]]]]]]]; [rewrite Hopn in Hx; congruence|].
        rewrite Hopn, Hfn in Hf. inversion Hf; subst np. rewrite Ekn in Hc, Hidx.
        destruct (pkind op) eqn:Eo.
        -- (* PO -> PK with old var-keyword: F4 *)
           assert (F4 old new = true); [|congruence].
           unfold F4. rewrite Hold. simpl. apply existsb_exists. exists op. split; [exact Hop|].
           rewrite Eo, Hopn, Hfn, Ekn. reflexivity.
        -- (* PK -> PK: not moved, so the old index is the same and was >= n *)
           specialize (Hidx eq_refl eq_refl). rewrite Hopn in Hidx.
           apply negb_true_iff, Nat.ltb_ge in Hold.
           assert (index_of k old = oi).
           { rewrite <- Hopn. apply nodup_nth_index; [apply Hwo|exact Hoi]. }
           lia.
        -- (* VP -> PK *)
           destruct Hc as [Hc|Hc]; [discriminate|]. simpl in Hc. apply negb_false_iff in Hc.
           assert (F7 old new = true); [|congruence].
           unfold F7. rewrite Hc, Hold. simpl. apply existsb_exists. exists op. split; [exact Hop|].
           rewrite Eo, Hopn, Hfn, Ekn, Hacc. reflexivity.
        -- (* KO -> PK: F5 *)
           assert (F5 old new = true); [|congruence].
           unfold F5. apply existsb_exists. exists op. split; [exact Hop|].
           rewrite Eo, Hopn, Hfn, Ekn, Hacc. reflexivity.
        -- (* VK -> PK *)
           destruct Hc as [Hc|Hc]; [discriminate|]. simpl in Hc. apply negb_false_iff in Hc.
           assert (F6 old new = true); [|congruence].
           unfold F6. rewrite Hc. simpl. apply existsb_exists. exists op. split; [exact Hop|].
           rewrite Eo, Hopn, Hfn, Ekn, Hacc. reflexivity.
      * (* new optional PK parameter absent from old: F2 *)
        assert (F2 old new = true); [|congruence].
        unfold F2. rewrite Hold. simpl. apply existsb_exists. exists nq. split; [exact Hnq|].
        rewrite Ekn, Hnqn, Hfo, Hacc. rewrite (silent_added nq Hnq) by (rewrite Hnqn; exact Hfo). reflexivity.
    + (* VP *)
      destruct (find k old) as [op|] eqn:Hfo; [|apply keep_vk; exact Hold].
      destruct (find_some_in _ _ _ Hfo) as [Hop Hopn].
      destruct (old_cases op Hop) as [[Hx _]|[np [oi [Hf [_ [_ [_ [_ [_ Hc]]]]]]]]]; [rewrite Hopn in Hx; congruence|].
      rewrite Hopn, Hfn in Hf. inversion Hf; subst np. rewrite Ekn in Hc.
      destruct (pkind op) eqn:Eo; try (apply keep_vk; exact Hold);
        destruct Hc as [Hc|Hc]; try discriminate; simpl in Hc; apply negb_false_iff in Hc; exact Hc.
    + (* VK: new has a var-keyword *)
      apply has_kind_iff. exists nq. auto.
  - (* no parameter named k in new: needs a var-keyword *)
    destruct (find k old) as [op|] eqn:Hfo; [|apply keep_vk; exact Hold].
    destruct (find_some_in _ _ _ Hfo) as [Hop Hopn].
    destruct (old_cases op Hop) as [[_ Hs]|[np [oi [Hf _]]]]; [|rewrite Hopn in Hf; congruence].
    fold hvk. destruct (pkind op) eqn:Eo; simpl in Hs; try discriminate.
    + apply keep_vk. exact Hold.
    + apply andb_prop in Hs. destruct Hs as [_ Hs]. exact Hs.
    + exact Hs.
Qed.

Lemma part_C n K q : In q new -> forallb (param_ok old n K) old = true -> param_ok new n K q = true.
Proof.
  intros Hq Hold. unfold param_ok.
  destruct (required q) eqn:Hr; [|destruct (pkind q); rewrite ?orb_true_r; reflexivity].
  destruct (find (pname q) old) as [op|] eqn:Hfo; [|rewrite (silent_added q Hq Hfo) in Hr; discriminate].
  destruct (find_some_in _ _ _ Hfo) as [Hop Hopn].
  pose proof (nodup_in_find new q (wf_nodup new Hwn) Hq) as Hfq.
  destruct (old_cases op Hop) as [[Hx _]|[np [oi [Hf [_ [_ [Hoi [Hreq [Hidx Hc]]]]]]]]]; [rewrite Hopn in Hx; congruence|].
  rewrite Hopn, Hfq in Hf. inversion Hf; subst np.
  specialize (Hreq Hr).
  assert (Hnv : var_kind (pkind op) = false).
  { destruct (var_kind (pkind op)) eqn:E; [|reflexivity]. rewrite (wf_var_default old Hwo op Hop E) in Hreq. discriminate. }
  rewrite forallb_forall in Hold. specialize (Hold op Hop). unfold param_ok in Hold. rewrite Hreq in Hold. simpl in Hold.
  rewrite !orb_false_r in Hold.
  assert (Hio : index_of (pname op) old = oi) by (apply nodup_nth_index; [apply Hwo|exact Hoi]).
  rewrite Hopn in *.
  destruct (pkind q) eqn:Eq; try reflexivity; simpl; rewrite ?orb_false_r;
    destruct (pkind op) eqn:Eo; simpl in Hnv; try discriminate;
    try (destruct Hc as [Hc|Hc]; discriminate);
    try (specialize (Hidx eq_refl eq_refl)).
  - (* PO <- PO *) rewrite Hidx, <- Hio. exact Hold.
  - (* PK <- PO *) rewrite Hidx, <- Hio, Hold. reflexivity.
  - (* PK <- PK *) rewrite Hidx, <- Hio. exact Hold.
  - (* PK <- KO *) rewrite Hold. apply orb_true_r.
  - (* KO <- KO *) exact Hold.
Qed.

Theorem complete_under_silence n K : binds old n K = true -> binds new n K = true.
Proof.
  unfold binds. intros H. apply andb_prop in H. destruct H as [H HC]. apply andb_prop in H. destruct H as [H HB].
  apply andb_prop in H. destruct H as [HD HA].
  apply andb_true_intro. split; [apply andb_true_intro; split; [apply andb_true_intro; split|]|].
  - exact HD.
  - apply part_A. exact HA.
  - rewrite forallb_forall in *. intros k Hk. apply part_B; [exact HA|apply HB; exact Hk].
  - rewrite forallb_forall. intros q Hq. apply part_C; assumption.
Qed.
End Complete.

Theorem complete_modulo_known old new n K :
  wf old = true -> wf new = true -> binds old n K = true -> binds new n K = false ->
  fdiff old new <> [] \/ known_gap old new = true.
Proof.
  intros Ho Hn Hb Hnb.
  destruct (fdiff old new) as [|b l] eqn:Hd; [|left; discriminate].
  destruct (known_gap old new) eqn:Hg; [right; reflexivity|].
  exfalso. pose proof (complete_under_silence old new (wf_wfp old Ho) (wf_wfp new Hn) Hd Hg n K Hb). congruence.
Qed.

(* non-vacuity: a pair meeting every hypothesis of the completeness theorem, on which the diff indeed reports *)
Example complete_premises_satisfiable :
  let old := [mk 0 PK None; mk 1 PK (Some 1)] in let new := [mk 0 PK None; mk 1 KO (Some 1)] in
  wf old = true /\ wf new = true /\ binds old 2 [] = true /\ binds new 2 [] = false /\
  fdiff old new = [ChKind 1] /\ known_gap old new = false.
Proof. repeat split; reflexivity. Qed.
