(* C08 proofs: the expressions that a reload gives back unchanged are exactly those with canonical links. *)
From Coq Require Import List ZArith String Ascii Bool Arith Lia.
From Verif Require Import Lib.Sexp Gen.C08_tables Model.C08_json Model.C08_links Proofs.C08_json.
Import ListNotations.
Open Scope string_scope.
Open Scope list_scope.
Open Scope nat_scope.

Definition lists_eqb (x y : list ev) : bool :=
  (fix go (x : list ev) (y : list ev) : bool :=
     match x, y with [], [] => true | a' :: x', b' :: y' => ev_eqb a' b' && go x' y' | _, _ => false end) x y.
Definition fields_eqb (x y : list (string * ev)) : bool :=
  (fix go (x : list (string * ev)) (y : list (string * ev)) : bool :=
     match x, y with
     | [], [] => true
     | (k, a') :: x', (k', b') :: y' => String.eqb k k' && ev_eqb a' b' && go x' y'
     | _, _ => false end) x y.

Lemma ev_eqb_list x y : ev_eqb (VList x) (VList y) = lists_eqb x y.
Proof. reflexivity. Qed.
Lemma ev_eqb_node c d x y : ev_eqb (VNode c x) (VNode d y) = String.eqb c d && fields_eqb x y.
Proof. reflexivity. Qed.
Lemma lists_eqb_cons a x b y : lists_eqb (a :: x) (b :: y) = ev_eqb a b && lists_eqb x y.
Proof. reflexivity. Qed.
Lemma fields_eqb_cons k a x k' b y : fields_eqb ((k, a) :: x) ((k', b) :: y) = String.eqb k k' && ev_eqb a b && fields_eqb x y.
Proof. reflexivity. Qed.

Lemma lists_eqb_map (f : ev -> ev) l : lists_eqb (map f l) l = forallb (fun x => ev_eqb (f x) x) l.
Proof. induction l as [|x r IH]; [reflexivity|]. cbn [map forallb]. rewrite lists_eqb_cons, IH. reflexivity. Qed.

Lemma fields_eqb_map (g : string * ev -> ev) fs :
  fields_eqb (map (fun kv => (fst kv, g kv)) fs) fs = forallb (fun kv => ev_eqb (g kv) (snd kv)) fs.
Proof.
  induction fs as [|[k v] r IH]; [reflexivity|]. cbn [map forallb fst snd]. rewrite fields_eqb_cons, IH, String.eqb_refl. reflexivity.
Qed.

Lemma forallb_ext_in {A} (f g : A -> bool) l : (forall x, In x l -> f x = g x) -> forallb f l = forallb g l.
Proof. induction l as [|x r IH]; intro H; [reflexivity|]. cbn [forallb]. rewrite (H x (or_introl eq_refl)), IH; [reflexivity|]. intros; apply H; right; assumption. Qed.

(* the names of a chain: what the loader makes of them against what they were *)
Lemma chain_names : forall r p,
  forallb is_name r = true ->
  lists_eqb (map (fun x => if is_name x then x else attach_ev x) (relink_chain_t p (map reload_ev r))) r = canon_chain p r.
Proof.
  induction r as [|v r IH]; intros p H; [reflexivity|].
  cbn [forallb] in H. apply andb_true_iff in H as [Hv Hr]. destruct v as [| | | | |n lk| |]; simpl in Hv; try discriminate.
  cbn [map reload_ev relink_chain_t next_prev is_name canon_chain].
  assert (E : (match link_of p with Some l => VName n l | None => VName n LNone end) = VName n (chain_link p)).
  { unfold chain_link. destruct (link_of p); reflexivity. }
  replace (match link_of p, VName n LNone with Some l, VName n0 _ => VName n0 l | _, _ => VName n LNone end) with (VName n (chain_link p))
    by (unfold chain_link; destruct (link_of p); reflexivity).
  cbn [is_name]. rewrite lists_eqb_cons, (IH PvName Hr).
  f_equal. cbn [ev_eqb]. rewrite String.eqb_refl. destruct (chain_link p), lk; reflexivity.
Qed.

Lemma next_prev_reload v : (forall s, v <> VEnum s) -> next_prev PvNone (reload_ev v) = next_prev PvNone v.
Proof.
  intro H. destruct v as [| | |s| | |c fs|]; try reflexivity; [exfalso; exact (H s eq_refl)|].
  cbn [reload_ev]. destruct (String.eqb c "ExprAttribute"); [reflexivity|]. destruct (String.eqb c "ExprParameter"); reflexivity.
Qed.

(* the statement, strengthened so that the elements of a list held in a field are covered by the induction *)
Definition restored_is_canon (e : ev) : Prop := wf_ev e = true -> ev_eqb (attach_ev (reload_ev e)) e = canon e.
Definition deep (e : ev) : Prop := restored_is_canon e /\ match e with VList l => Forall restored_is_canon l | _ => True end.

Lemma deep_all : forall e, deep e.
Proof.
  induction e using ev_ind'; (split; [unfold restored_is_canon; intro Hwf|try exact I]).
  - reflexivity.
  - destruct b; reflexivity.
  - cbn [reload_ev attach_ev ev_eqb canon]. apply String.eqb_refl.
  - reflexivity.
  - (* list *)
    cbn [reload_ev attach_ev canon]. rewrite map_map, ev_eqb_list, lists_eqb_map.
    apply forallb_ext_in. intros x Hx. rewrite Forall_forall in H. apply (proj1 (H x Hx)).
    simpl in Hwf. rewrite forallb_forall in Hwf. auto.
  - apply Forall_forall. intros x Hx. rewrite Forall_forall in H. exact (proj1 (H x Hx)).
  - (* name *)
    cbn [reload_ev attach_ev canon ev_eqb]. rewrite String.eqb_refl. destruct p; reflexivity.
  - (* node *)
    destruct (wf_ev_node _ _ Hwf) as (Hname & (spec & Hspec & Hkeys) & Hcls & Hattr & Hparam & Hch).
    rewrite Forall_forall in H, Hch.
    assert (IH : forall kv, In kv fs -> ev_eqb (attach_ev (reload_ev (snd kv))) (snd kv) = canon (snd kv)).
    { intros kv Hin. apply (proj1 (H kv Hin)). auto. }
    cbn [reload_ev canon].
    change (map (fun kv : string * ev => let (k, v) := kv in (k, reload_ev v)) fs) with (map relf fs).
    destruct (String.eqb c "ExprAttribute") eqn:Eattr.
    + (* a dotted chain *)
      destruct (attr_values_ok_inv _ (Hattr eq_refl)) as (first & r & -> & Hr).
      pose proof (H _ (or_introl eq_refl)) as [_ Hel]. cbn [snd] in Hel. rewrite Forall_forall in Hel.
      pose proof (Hch _ (or_introl eq_refl)) as Hw. cbn [snd wf_ev forallb] in Hw. apply andb_true_iff in Hw as [Hw0 _].
      pose proof (Hel first (or_introl eq_refl) Hw0) as Hfirst.
      cbn [map relf reload_ev String.eqb Ascii.eqb Bool.eqb attach_ev]. rewrite Eattr.
      cbn [map String.eqb Ascii.eqb Bool.eqb relink_chain_t link_of].
      rewrite ev_eqb_node, String.eqb_refl, fields_eqb_cons, String.eqb_refl. cbn [andb].
      change (fields_eqb [] []) with true. rewrite andb_true_r, ev_eqb_list, lists_eqb_cons, Hfirst.
      destruct first as [| | |s| | |c' fs'|]; try (rewrite (chain_names r _ Hr); reflexivity).
      rewrite next_prev_reload by (intros s E; discriminate E). rewrite (chain_names r _ Hr). reflexivity.
    + assert (Hdist : distinct (keys_of fs) = true).
      { rewrite Hkeys. apply filter_distinct.
        pose proof table_fields_distinct as HT. rewrite forallb_forall in HT. exact (HT _ (class_fields_in _ _ Hspec)). }
      destruct (String.eqb c "ExprParameter") eqn:Eparam.
      * (* a lambda parameter: the kind comes back as the ParameterKind member *)
        cbn [attach_ev]. rewrite Eattr.
        assert (Hmap : map (fun kv : string * ev => let (k, v) := kv in (k, attach_ev v)) (fix_kind_t (map relf fs))
                       = map (fun kv => (fst kv, attach_ev (if String.eqb (fst kv) "kind"
                                                             then match reload_ev (snd kv) with
                                                                  | VStr s => if mem_str s parameter_kind_values then VEnum s else VStr s
                                                                  | v => v end
                                                             else reload_ev (snd kv)))) fs).
        { unfold fix_kind_t. rewrite !map_map. apply map_ext. intros [k v]. cbn [relf fst snd].
          destruct (String.eqb k "kind"); [|reflexivity]. destruct (reload_ev v); reflexivity. }
        rewrite Hmap, ev_eqb_node, String.eqb_refl, fields_eqb_map. cbn [andb].
        apply forallb_ext_in. intros [k v] Hin. cbn [fst snd andb].
        destruct (String.eqb_spec k "kind") as [->|Hk].
        -- pose proof (distinct_lookup_in _ _ _ Hdist Hin) as Hl. specialize (Hparam eq_refl). unfold param_kind_ok in Hparam. rewrite Hl in Hparam.
           destruct v as [| |s|s| | | |]; try discriminate Hparam; cbn [reload_ev]; rewrite Hparam; cbn [attach_ev ev_eqb].
           ++ reflexivity.
           ++ apply String.eqb_refl.
        -- exact (IH (k, v) Hin).
      * cbn [attach_ev]. rewrite Eattr.
        assert (Hmap : map (fun kv : string * ev => let (k, v) := kv in (k, attach_ev v)) (map relf fs)
                       = map (fun kv => (fst kv, attach_ev (reload_ev (snd kv)))) fs).
        { rewrite map_map. apply map_ext. intros [k v]. reflexivity. }
        rewrite Hmap, ev_eqb_node, String.eqb_refl, fields_eqb_map. cbn [andb].
        apply forallb_ext_in. intros [k v] Hin. cbn [fst snd andb]. exact (IH (k, v) Hin).
  - (* int *)
    cbn [reload_ev attach_ev ev_eqb canon]. apply Z.eqb_refl.
Qed.

Theorem slot_restored_canon : forall e, wf_ev e = true -> slot_restored e = canon e.
Proof. intros e H. exact (proj1 (deep_all e) H). Qed.

Lemma slot_canon e : wf_slot e = true -> slot_restored e = canon e.
Proof. intro H. apply slot_restored_canon, wf_slot_ev, H. Qed.

Lemma forallb_ext_wf {A} (w f g : A -> bool) l : forallb w l = true -> (forall x, w x = true -> f x = g x) -> forallb f l = forallb g l.
Proof. intros Hw H. apply forallb_ext_in. intros x Hx. rewrite forallb_forall in Hw. auto. Qed.

Lemma extra_restored_canon x : wf_extra x = true -> extra_restored x = canon_extra x.
Proof.
  destruct x as [fp|bases decos|decos params ret|v a]; cbn [wf_extra extra_restored canon_extra]; intro H.
  - reflexivity.
  - apply andb_true_iff in H as [Hb Hd].
    rewrite (forallb_ext_wf wf_slot slot_restored canon bases Hb slot_canon).
    rewrite (forallb_ext_wf wf_deco deco_restored canon_deco decos Hd); [reflexivity|]. intros d Hw. apply slot_canon, Hw.
  - apply andb_true_iff in H as [H Hr]. apply andb_true_iff in H as [Hd Hp].
    rewrite (forallb_ext_wf wf_deco deco_restored canon_deco decos Hd) by (intros d Hw; apply slot_canon, Hw).
    rewrite (forallb_ext_wf wf_param param_restored canon_param params Hp), (slot_canon _ Hr); [reflexivity|].
    intros p Hw. unfold wf_param in Hw. apply andb_true_iff in Hw as [Hw _]. apply andb_true_iff in Hw as [Ha Hdf].
    unfold param_restored, canon_param. rewrite (slot_canon _ Ha), (slot_canon _ Hdf). reflexivity.
  - apply andb_true_iff in H as [Hv Ha]. rewrite (slot_canon _ Hv), (slot_canon _ Ha). reflexivity.
Qed.

Lemma existsb_negb_forallb {A} (f g : A -> bool) l : (forall x, In x l -> f x = negb (g x)) -> existsb f l = negb (forallb g l).
Proof.
  induction l as [|x r IH]; intro H; [reflexivity|]. cbn [existsb forallb]. rewrite negb_andb, (H x (or_introl eq_refl)), IH; [reflexivity|].
  intros; apply H; right; assumption.
Qed.

(* the link gap of a tree, without reference to the loader *)
Theorem gap_expr_exact : forall t, rep t = true -> gap_expr t = negb (canon_tree t).
Proof.
  induction t using tree_ind'; intro Hrep; [reflexivity|].
  pose proof (rep_obj _ _ _ _ _ _ _ Hrep) as NF.
  cbn [gap_expr canon_tree]. rewrite (extra_restored_canon x) by apply NF.
  rewrite negb_andb. f_equal.
  pose proof (nf_children _ _ _ _ _ _ _ NF) as Hc. rewrite Forall_forall in H, Hc.
  apply existsb_negb_forallb. intros [k m] Hin. apply (H (k, m) Hin). exact (Hc (k, m) Hin).
Qed.

(* every name with its canonical link, no docstring gap: the reloaded module is the original *)
Theorem names_resolve_canonical :
  forall n ln eln doc ls ms fp,
  let t := TObj n ln eln doc ls ms (XModule fp) in
  rep t = true -> gap_doc t = false -> canon_tree t = true -> from_json (enc_min t) = Ok t.
Proof.
  intros n ln eln doc ls ms fp t Hd Hg Hc. unfold t in *.
  rewrite from_json_enc_min by assumption. f_equal. apply reload_identity; try assumption.
  rewrite gap_expr_exact by assumption. rewrite Hc. reflexivity.
Qed.

Example example_canon : canon_tree ex_tree = true /\ canon (VName "p" LOther) = false
  /\ canon (ex_sub (nm "Optional") (ex_sub (nm "List") (nm "Foo"))) = true /\ canon (ex_dotted "osp" "join") = true.
Proof. vm_compute. repeat split. Qed.

(* F14: a name bound by the expression itself (comprehension target, lambda parameter) has no parent; it is not canonical,
   and a reload attaches it to the scope *)
Lemma refuted_links_local :
  let e := VNode "ExprListComp"
             [("element", VName "i" LNone);
              ("generators", VList [VNode "ExprComprehension"
                                      [("conditions", VList []); ("is_async", VBool false); ("iterable", nm "xs"); ("target", VName "i" LNone)]])] in
  wf_slot e = true /\ canon e = false /\ slot_restored e = false /\
  attach_top (reload_ev e)
  = VNode "ExprListComp"
      [("element", VName "i" LScope);
       ("generators", VList [VNode "ExprComprehension"
                               [("conditions", VList []); ("is_async", VBool false); ("iterable", nm "xs"); ("target", VName "i" LScope)]])].
Proof. vm_compute. repeat split; reflexivity. Qed.
