(* C06 proofs, part 2: the outcome of Alias.resolve_target is a function of the static import graph (direct heaps),
   a failed resolution stays failed whatever gets resolved later, and resolve_aliases() returns on a fixpoint:
   a further pass over the collection changes nothing, a further call returns the same set. *)
From Coq Require Import List String Bool Arith Lia.
From Verif Require Import Lib.Sexp Model.C06_alias Proofs.C06_alias.
Import ListNotations.
Open Scope string_scope.
Open Scope list_scope.
Open Scope nat_scope.

(* ------------------------------------------------------------------------------------------------------------ *)
(* the static walk: what resolve_target computes, as a pure function of target paths, flags and resolved-ness     *)
(* ------------------------------------------------------------------------------------------------------------ *)
Lemma mem_nat_In : forall x l, mem_nat x l = true <-> In x l.
Proof.
  induction l; simpl. split; [discriminate | tauto].
  rewrite orb_true_iff, IHl, Nat.eqb_eq. split; intros [H|H]; auto.
Qed.

Lemma walk_vis_ext : forall coll n h i vis vis',
  (forall x, mem_nat x vis = mem_nat x vis') -> walk coll n h i vis = walk coll n h i vis'.
Proof.
  induction n; intros h i vis vis' E; simpl; auto.
  destruct (nth_error h i) as [[| p tp [t|] pa w]|]; auto.
  rewrite (E i). destruct (pa || mem_nat i vis'); auto.
  destruct (static_get coll h tp) as [[j|]|]; auto.
  destruct (Nat.eqb j i); auto.
  destruct (nth_error h j) as [[| pj tpj [tj|] paj wj]|]; auto.
  apply IHn. intros x. simpl. rewrite (E x). auto.
Qed.

(* static lookups do not see links or flags *)
Lemma static_from_R : forall h h', R h h' -> forall parts i, static_from h' i parts = static_from h i parts.
Proof.
  intros h h' HR. induction parts as [|name rest]; intros i; simpl; auto.
  destruct (nth_error h i) as [[p c ms | p tp t pa w]|] eqn:E.
  - rewrite (R_nth_obj _ _ _ _ _ _ HR E). destruct (lookup name ms); auto.
  - destruct (R_nth_alias _ _ _ _ _ _ _ _ HR E) as (t' & E' & _). rewrite E'. auto.
  - rewrite (R_nth_none _ _ HR _ E). auto.
Qed.

Lemma static_get_R : forall coll h h' parts, R h h' -> static_get coll h' parts = static_get coll h parts.
Proof.
  intros. destruct parts; simpl; auto. destruct (lookup s coll); auto. apply static_from_R; auto.
Qed.

(* setting the flag of an unresolved alias = putting it in [vis] *)
Lemma walk_flag : forall coll n h i p tp w j vis vis',
  nth_error h i = Some (NAlias p tp None false w) ->
  (forall x, mem_nat x vis' = Nat.eqb x i || mem_nat x vis) ->
  walk coll n (update h i (NAlias p tp None true w)) j vis = walk coll n h j vis'.
Proof.
  induction n; intros h i p tp w j vis vis' Hn E; simpl; auto.
  set (hh := update h i (NAlias p tp None true w)).
  assert (Hi : i < List.length h) by (eapply nth_error_lt; eauto).
  assert (Hst : forall parts, static_get coll hh parts = static_get coll h parts).
  { intros. unfold hh. eapply static_get_update; eauto. }
  assert (Hunres : forall k, k <> i -> nth_error hh k = nth_error h k).
  { intros. unfold hh. apply nth_update_other; auto. }
  destruct (Nat.eq_dec j i) as [-> | Hji].
  - unfold hh. rewrite nth_update_same; auto. rewrite Hn. simpl. rewrite (E i). rewrite Nat.eqb_refl. simpl.
    destruct (false || (true || mem_nat i vis)); auto.
  - rewrite (Hunres j Hji). destruct (nth_error h j) as [[| pj tpj [tj|] paj wj]|] eqn:Hj; auto.
    rewrite (E j). assert (Nat.eqb j i = false) by (apply Nat.eqb_neq; auto). rewrite H. simpl.
    destruct (paj || mem_nat j vis); auto.
    rewrite Hst. destruct (static_get coll h tpj) as [[k|]|]; auto.
    destruct (Nat.eqb k j) eqn:Ekj; auto. apply Nat.eqb_neq in Ekj.
    destruct (Nat.eq_dec k i) as [-> | Hki].
    + unfold hh. rewrite nth_update_same; auto. rewrite Hn.
      apply (IHn h i p tp w i (j :: vis) (j :: vis')); auto.
      intros x. simpl. rewrite (E x). destruct (Nat.eqb x j), (Nat.eqb x i); auto.
    + rewrite (Hunres k Hki). destruct (nth_error h k) as [[| pk tpk [tk|] pak wk]|]; auto.
      apply (IHn h i p tp w k (j :: vis) (j :: vis')); auto.
      intros x. simpl. rewrite (E x). destruct (Nat.eqb x j), (Nat.eqb x i); auto.
Qed.

(* ------------------------------------------------------------------------------------------------------------ *)
(* resolve_target on direct heaps, unfolded                                                                      *)
(* ------------------------------------------------------------------------------------------------------------ *)
Lemma resolve_body_unfold : forall coll L rt h i p tp w x,
  nth_error h i = Some (NAlias p tp None false w) ->
  static_get coll (update h i (NAlias p tp None true w)) tp = Some x ->
  resolve_body coll L rt h i =
    let hh := update h i (NAlias p tp None true w) in
    let '(h1, r) :=
      match x with
      | None => (hh, Err (EARE p))
      | Some j =>
          if Nat.eqb j i then (hh, Err ECyc)
          else let '(h2, u) := match nth_error hh j with
                               | Some (NAlias _ _ None _ _) => rt hh j
                               | _ => (hh, Ok tt)
                               end in
               match u with Err e => (h2, Err e) | Ok _ => tail L rt i j h2 end
      end in
    (set_passed h1 i false, r).
Proof.
  intros coll L rt h i p tp w x Hn Hx. unfold resolve_body. rewrite Hn.
  assert (E : set_passed h i true = update h i (NAlias p tp None true w)) by (unfold set_passed; rewrite Hn; auto).
  rewrite E. cbv zeta. unfold resolve_inner. rewrite (get_member_static coll L rt _ tp x Hx).
  destruct x as [j|]; auto.
Qed.

Lemma tail_ok : forall coll L rt h2 i j p tp pa w,
  Inv coll L h2 -> nth_error h2 i = Some (NAlias p tp None pa w) ->
  ((exists pj c ms, nth_error h2 j = Some (NObj pj c ms)) \/ resolved_in h2 j) ->
  tail L rt i j h2 = (set_target h2 i (RReal j), Ok tt).
Proof.
  intros coll L rt h2 i j p tp pa w (Hw & Hd & Hc & Hu & Hl) Hn Hj. unfold tail. simpl ref_is_alias.
  destruct Hj as [(pj & c & ms & Hnj) | (pj & tpj & tj & paj & wj & Hnj)]; rewrite Hnj; simpl is_alias_node; cbv iota; auto.
  pose proof (forallb_nth _ _ _ _ _ Hc Hnj) as Cj. simpl in Cj.
  destruct (chain_end L h2 tj [pj]) as [o|] eqn:Ej; try discriminate.
  assert (E0 : chain_end L h2 (RReal j) [] = Some o).
  { apply (chain_end_fuel (S L)). simpl. rewrite Hnj. simpl. auto.
    rewrite cnt_unseen_nil. simpl. lia. }
  rewrite (final_target_pure rt L h2 (RReal j) [] o E0). auto.
Qed.

Section Direct.
  Variable coll : list (string * nat).
  Variable L : nat.
  (* the aliases whose link the resolution itself may store (in the theorems: those unresolved to begin with) *)
  Variable U : nat -> Prop.

  Definition is_obj (h : heap) (k : nat) : Prop := exists pk c ms, nth_error h k = Some (NObj pk c ms).

  (* links stored by resolve_target point at the node the target path statically denotes, and that node is an object
     or a resolved alias *)
  Definition Cl (h : heap) : Prop :=
    forall j p tp t pa w, U j -> nth_error h j = Some (NAlias p tp (Some t) pa w) ->
      exists k, static_get coll h tp = Some (Some k) /\ t = RReal k /\ k <> j /\ (is_obj h k \/ resolved_in h k).

  Lemma Cl_update : forall h i p tp pa w t' pa',
    Cl h -> nth_error h i = Some (NAlias p tp None pa w) ->
    (forall t, t' = Some t -> exists k, static_get coll h tp = Some (Some k) /\ t = RReal k /\ k <> i /\ (is_obj h k \/ resolved_in h k)) ->
    Cl (update h i (NAlias p tp t' pa' w)).
  Proof.
    intros h i p tp pa w t' pa' HC Hn Hnew. set (n' := NAlias p tp t' pa' w).
    assert (Hi : i < List.length h) by (eapply nth_error_lt; eauto).
    assert (Hst : forall parts, static_get coll (update h i n') parts = static_get coll h parts).
    { intros. eapply static_get_update; eauto. }
    assert (Keep : forall k, is_obj h k \/ resolved_in h k -> is_obj (update h i n') k \/ resolved_in (update h i n') k).
    { intros k [(pk & c & ms & Hk) | (pk & tpk & tk & pak & wk & Hk)].
      - left. exists pk, c, ms. rewrite nth_update_other; auto. intro; subst; congruence.
      - right. red. rewrite nth_update_other; eauto 10. intro; subst; congruence. }
    intros j pj tpj tj paj wj HU Hj. destruct (Nat.eq_dec i j) as [<- | Hij].
    - unfold n' in Hj. rewrite nth_update_same in Hj; auto. inversion Hj; subst.
      destruct (Hnew tj eq_refl) as (k & A & B & C & D). exists k. rewrite Hst. auto.
    - rewrite nth_update_other in Hj; auto. destruct (HC j pj tpj tj paj wj HU Hj) as (k & A & B & C & D).
      exists k. rewrite Hst. auto.
  Qed.

  Definition d_spec (n : nat) (rt : heap -> nat -> heap * res unit) : Prop :=
    forall h i p tp pa w, Inv coll L h -> nth_error h i = Some (NAlias p tp None pa w) ->
      snd (rt h i) = walk coll n h i [] /\ (Cl h -> snd (rt h i) = Ok tt -> Cl (fst (rt h i))).

  Lemma resolve_body_d : forall n rt, aon_spec coll L rt -> d_spec n rt -> d_spec (S n) (resolve_body coll L rt).
  Proof.
    intros n rt Haon Hd h i p tp pa w HI Hn.
    destruct pa.
    { unfold resolve_body. rewrite Hn. simpl. rewrite Hn. simpl. split; auto; intros _ X; discriminate. }
    set (hh := update h i (NAlias p tp None true w)).
    assert (Hi : i < List.length h) by (eapply nth_error_lt; eauto).
    assert (Hnh : nth_error hh i = Some (NAlias p tp None true w)) by (apply nth_update_same; auto).
    assert (HIh : Inv coll L hh) by (eapply Inv_flag; eauto).
    pose proof HIh as (Hwh & Hdh & Hch & Huh & Hlh).
    destruct (direct_nth _ _ _ _ _ _ _ _ Hdh Hnh) as [[x Hx] _].
    assert (Hxh : static_get coll h tp = Some x).
    { rewrite <- Hx. symmetry. unfold hh. eapply static_get_update; eauto. }
    rewrite (resolve_body_unfold coll L rt h i p tp w x Hn Hx). fold hh. cbv zeta.
    simpl walk. rewrite Hn. simpl. rewrite Hxh.
    destruct x as [j|].
    2:{ simpl. split; auto; intros _ X; discriminate. }
    destruct (Nat.eqb j i) eqn:Eji.
    { simpl. split; auto; intros _ X; discriminate. }
    apply Nat.eqb_neq in Eji.
    assert (Hjh : nth_error hh j = nth_error h j) by (unfold hh; apply nth_update_other; auto).
    pose proof (static_get_range _ _ _ _ Hwh Hx) as Hjlen.
    (* the success exit *)
    assert (Fin : forall h2, Inv coll L h2 -> R hh h2 -> (is_obj h2 j \/ resolved_in h2 j) ->
              let X := (let '(h1, r) := tail L rt i j h2 in (set_passed h1 i false, r)) in
              snd X = Ok tt /\ (Cl h2 -> Cl (fst X))).
    { intros h2 HI2 HR2 Hj2.
      destruct (R_nth_alias _ _ _ _ _ _ _ _ HR2 Hnh) as (t2 & Hn2 & Ht2).
      assert (t2 = None) by (destruct Ht2 as [?|[_ ?]]; [auto | discriminate]). subst t2.
      rewrite (tail_ok coll L rt h2 i j p tp true w HI2 Hn2 Hj2). cbv zeta. simpl. split; auto.
      intros HC2. unfold set_target. rewrite Hn2.
      assert (Hi2 : i < List.length h2) by (eapply nth_error_lt; eauto).
      unfold set_passed. rewrite nth_update_same; auto. rewrite update_update.
      eapply Cl_update; eauto. intros t Et. inversion Et; subst. exists j.
      rewrite (static_get_R coll hh h2 tp HR2). auto. }
    destruct (nth_error h j) as [[pj c ms | pj tpj [tj|] paj wj]|] eqn:Hnj; rewrite Hjh.
    - destruct (Fin hh HIh (R_refl hh)) as [A B]. { left. red. rewrite Hjh. eauto. }
      split; auto. intros HC _. apply B. unfold hh. eapply Cl_update; eauto. intros; discriminate.
    - destruct (Fin hh HIh (R_refl hh)) as [A B]. { right. red. rewrite Hjh. eauto 10. }
      split; auto. intros HC _. apply B. unfold hh. eapply Cl_update; eauto. intros; discriminate.
    - assert (Hnjh : nth_error hh j = Some (NAlias pj tpj None paj wj)) by (rewrite Hjh; auto).
      destruct (Hd hh j pj tpj paj wj HIh Hnjh) as [Hw1 Hc1].
      assert (Hwf : walk coll n hh j [] = walk coll n h j [i]).
      { unfold hh. apply (walk_flag coll n h i p tp w j [] [i]); auto; intros y; simpl; auto. }
      destruct (Haon hh j pj tpj paj wj HIh Hnjh) as [(A & B & C & D) | (e & He & Hh2)];
        destruct (rt hh j) as [h2 u]; simpl in *.
      + rewrite A in *. destruct (Fin h2 B C (or_intror D)) as [F1 F2]. rewrite <- Hwf, <- Hw1. split; auto.
        intros HC _. apply F2. apply Hc1; auto. unfold hh. eapply Cl_update; eauto. intros; discriminate.
      + rewrite He in *. rewrite <- Hwf, <- Hw1. simpl. split; auto; intros _ X; discriminate.
    - apply nth_error_None in Hnj. unfold hh in Hjlen. rewrite update_length in Hjlen. lia.
  Qed.

  Theorem resolve_target_d : forall n, d_spec n (resolve_target coll L n).
  Proof.
    induction n.
    - intros h i p tp pa w _ _. simpl. split; auto; intros _ X; discriminate.
    - simpl. apply resolve_body_d; auto. apply resolve_target_aon.
  Qed.
End Direct.

(* ------------------------------------------------------------------------------------------------------------ *)
(* a failed resolution stays failed                                                                              *)
(* ------------------------------------------------------------------------------------------------------------ *)
Lemma Cl_weaken : forall coll (U U' : nat -> Prop) h, (forall j, U' j -> U j) -> Cl coll U h -> Cl coll U' h.
Proof. unfold Cl. intros. eauto. Qed.

(* a set of resolved aliases closed under the stored link never reaches an object *)
Lemma chain_end_closed : forall (S : nat -> Prop) g,
  (forall x, S x -> exists p tp k pa w, nth_error g x = Some (NAlias p tp (Some (RReal k)) pa w) /\ S k) ->
  forall l x seen, S x -> chain_end l g (RReal x) seen = None.
Proof.
  intros S g Hcl. induction l; intros x seen Hx; simpl; auto.
  destruct (Hcl x Hx) as (p & tp & k & pa & w & Hn & Hk). rewrite Hn.
  destruct (mem_str p seen); auto.
Qed.

Inductive reach (g : heap) : nat -> nat -> Prop :=
| reach_refl : forall x, reach g x x
| reach_step : forall x k y, link_of g x = Some (RReal k) -> reach g k y -> reach g x y.

Lemma no_stored_cycle : forall Lc g i j,
  chains_complete_L Lc g = true -> link_of g i = Some (RReal j) -> j <> i -> reach g j i -> False.
Proof.
  intros Lc g i j Hc Hl Hji Hr.
  set (S := fun x => exists k, link_of g x = Some (RReal k) /\ reach g k i).
  assert (Hcl : forall x, S x -> exists p tp k pa w, nth_error g x = Some (NAlias p tp (Some (RReal k)) pa w) /\ S k).
  { intros x (k & Hk & Hki). unfold link_of in Hk.
    destruct (nth_error g x) as [[| p tp t pa w]|] eqn:E; try discriminate. subst t.
    exists p, tp, k, pa, w. split; auto.
    inversion Hki; subst.
    - exists j. auto.
    - exists k0. auto. }
  assert (Sj : S j). { inversion Hr; subst. congruence. exists k. auto. }
  unfold link_of in Hl. destruct (nth_error g i) as [[| p tp t pa w]|] eqn:E; try discriminate. subst t.
  pose proof (forallb_nth _ _ _ _ _ Hc E) as X. simpl in X.
  rewrite (chain_end_closed S g Hcl Lc j [p] Sj) in X. discriminate.
Qed.

Lemma link_none_unres : forall h i p tp t pa w, nth_error h i = Some (NAlias p tp t pa w) -> link_of h i = None -> t = None.
Proof. unfold link_of. intros. rewrite H in H0. auto. Qed.

Lemma resolved_link : forall h i, resolved_in h i -> link_of h i <> None.
Proof. intros h i (p & tp & t & pa & w & E). unfold link_of. rewrite E. discriminate. Qed.

Section Stable.
  Variable coll : list (string * nat).
  Variable Lc : nat.

  (* an alias whose walk fails on [h] and that is nevertheless resolved on a later heap [g]: its stored chain in [g]
     leads back to one of the aliases the walk had gone through *)
  Lemma failed_never_resolved : forall n h g i vis e,
    R h g -> Cl coll (fun j => link_of h j = None) g -> chains_complete_L Lc g = true ->
    walk coll n h i vis = Err e -> e <> EFuel -> e <> EBad -> resolved_in g i ->
    exists v, In v vis /\ reach g i v /\ resolved_in g v.
  Proof.
    induction n; intros h g i vis e HR HC Hcc Hw Hf Hb Hres; simpl in Hw. inversion Hw; congruence.
    destruct (nth_error h i) as [[| p tp [t|] pa w]|] eqn:Hn; try (inversion Hw; congruence).
    assert (Hli : link_of h i = None) by (unfold link_of; rewrite Hn; auto).
    destruct (R_nth_alias _ _ _ _ _ _ _ _ HR Hn) as (t' & Hg & Ht').
    destruct Hres as (p0 & tp0 & t0 & pa0 & w0 & Hg0). rewrite Hg in Hg0. inversion Hg0; subst p0 tp0 t' pa0 w0. clear Hg0.
    assert (Hres : resolved_in g i) by (red; eauto 10).
    destruct pa.
    { destruct Ht' as [X | [_ X]]; discriminate. }
    simpl in Hw. destruct (mem_nat i vis) eqn:Hm.
    { exists i. split. apply mem_nat_In; auto. split; auto. constructor. }
    destruct (HC i p tp t0 false w Hli Hg) as (k & Hk & Etk & Hki & Hkres).
    rewrite (static_get_R coll h g tp HR) in Hk. rewrite Hk in Hw.
    destruct (Nat.eqb k i) eqn:Eki. { apply Nat.eqb_eq in Eki. congruence. }
    destruct (nth_error h k) as [[| pk tpk [tk|] pak wk]|] eqn:Hnk; try (inversion Hw; congruence).
    assert (Hlk : link_of g i = Some (RReal k)) by (unfold link_of; rewrite Hg; congruence).
    assert (Hresk : resolved_in g k).
    { destruct Hkres as [(pk' & c & ms & Hok) | X]; auto.
      destruct (R_nth_alias _ _ _ _ _ _ _ _ HR Hnk) as (tk' & Hgk & _). congruence. }
    destruct (IHn h g k (i :: vis) e HR HC Hcc Hw Hf Hb Hresk) as (v & Hv & Hrv & Hresv).
    destruct Hv as [<- | Hv].
    - exfalso. eapply (no_stored_cycle Lc g i k); eauto.
    - exists v. split; auto. split; auto. econstructor; eauto.
  Qed.

  (* ... hence the walk fails in the same way on every later heap on which the alias is still unresolved *)
  Lemma walk_stable : forall n h g i vis e,
    R h g -> Cl coll (fun j => link_of h j = None) g -> chains_complete_L Lc g = true ->
    walk coll n h i vis = Err e -> e <> EFuel -> e <> EBad ->
    link_of g i = None -> (forall v, In v vis -> link_of g v = None) ->
    walk coll n g i vis = Err e.
  Proof.
    induction n; intros h g i vis e HR HC Hcc Hw Hf Hb Hli Hvis; simpl in Hw |- *. inversion Hw; congruence.
    destruct (nth_error h i) as [[| p tp [t|] pa w]|] eqn:Hn; try (inversion Hw; congruence).
    destruct (R_nth_alias _ _ _ _ _ _ _ _ HR Hn) as (t' & Hg & _). rewrite Hg.
    rewrite (link_none_unres _ _ _ _ _ _ _ Hg Hli).
    destruct (pa || mem_nat i vis); auto.
    rewrite (static_get_R coll h g tp HR).
    destruct (static_get coll h tp) as [[j|]|]; auto.
    destruct (Nat.eqb j i); auto.
    destruct (nth_error h j) as [[| pj tpj [tj|] paj wj]|] eqn:Hnj; try (inversion Hw; congruence).
    destruct (R_nth_alias _ _ _ _ _ _ _ _ HR Hnj) as (tj' & Hgj & _). rewrite Hgj.
    destruct tj' as [tj'|].
    - exfalso.
      assert (Hresj : resolved_in g j) by (red; eauto 10).
      destruct (failed_never_resolved n h g j (i :: vis) e HR HC Hcc Hw Hf Hb Hresj) as (v & Hv & _ & Hresv).
      apply (resolved_link _ _ Hresv). destruct Hv as [<- | Hv]; auto.
    - apply (IHn h g j (i :: vis) e); auto.
      + unfold link_of. rewrite Hgj. auto.
      + intros v [<- | Hv]; auto.
  Qed.
End Stable.

(* ------------------------------------------------------------------------------------------------------------ *)
(* one pass over the collection, then another one on any later heap: the second is quiet                         *)
(* ------------------------------------------------------------------------------------------------------------ *)
Arguments walk : simpl never.

Lemma acc_eta : forall a, a = mkAcc (a_heap a) (a_seen a) (a_resolved a) (a_unresolved a).
Proof. destruct a; auto. Qed.

Section Pass.
  Variable coll : list (string * nat).
  Variable h0 : heap.

  Definition U0 (j : nat) : Prop := link_of h0 j = None.
  Definition PInv (h : heap) : Prop := Inv coll (fuelL h0) h /\ R h0 h /\ Cl coll U0 h.

  Lemma PInv_fuel : forall h, PInv h -> fuelL h = fuelL h0 /\ fuelN h = fuelN h0.
  Proof. intros h (_ & HR & _). unfold fuelL, fuelN. rewrite (R_count_aliases _ _ HR). auto. Qed.

  Lemma PInv_U : forall h g, PInv h -> Cl coll U0 g -> Cl coll (fun j => link_of h j = None) g.
  Proof.
    intros h g (_ & HR & _) HC. eapply Cl_weaken; [|exact HC]. intros j Hj. unfold U0.
    destruct (link_of h0 j) eqn:E; auto. rewrite (R_link _ _ _ _ HR E) in Hj. discriminate.
  Qed.

  Definition real_err (e : err) : Prop := e = ECyc \/ exists q, e = EARE q.

  Lemma visit_facts : forall a m p p' tp pa w,
    PInv (a_heap a) -> nth_error (a_heap a) m = Some (NAlias p' tp None pa w) ->
    let X := visit_alias coll a m p in
    snd X = Ok tt /\ a_seen (fst X) = a_seen a /\ PInv (a_heap (fst X)) /\ R (a_heap a) (a_heap (fst X)) /\
    ((walk coll (fuelN h0) (a_heap a) m [] = Ok tt /\ resolved_in (a_heap (fst X)) m /\
      a_unresolved (fst X) = a_unresolved a /\ a_resolved (fst X) = p :: a_resolved a) \/
     (exists e, walk coll (fuelN h0) (a_heap a) m [] = Err e /\ real_err e /\ a_heap (fst X) = a_heap a /\
        a_resolved (fst X) = a_resolved a /\
        a_unresolved (fst X) = match e with EARE _ => p :: a_unresolved a | _ => a_unresolved a end)).
  Proof.
    intros a m p p' tp pa w HP Hn. pose proof HP as (HI & HR & HC). pose proof HI as (Hw & _).
    destruct (PInv_fuel _ HP) as [FL FN].
    pose proof (resolve_top_total coll (a_heap a) m p' tp pa w Hw Hn) as Tot. cbv zeta in Tot.
    destruct Tot as (Hout & _).
    unfold visit_alias. unfold resolve_top in *. rewrite FL, FN in *.
    pose proof (resolve_target_aon coll (fuelL h0) (fuelN h0) (a_heap a) m p' tp pa w HI Hn) as Haon.
    destruct (resolve_target_d coll (fuelL h0) U0 (fuelN h0) (a_heap a) m p' tp pa w HI Hn) as [Hwk Hcl].
    destruct (resolve_target coll (fuelL h0) (fuelN h0) (a_heap a) m) as [h1 r]. cbn [fst snd] in *.
    destruct Haon as [(A & B & C & D) | (e & He & Hh)]; cbn [fst snd] in *.
    - rewrite A in *. symmetry in Hwk. assert (HP1 : PInv h1) by (split; auto; split; [eapply R_trans; eauto | auto]).
      destruct D as (pm & tpm & tm & pam & wm & Hm).
      assert (Hcc : chains_complete h1 = true).
      { unfold chains_complete. destruct (PInv_fuel _ HP1) as [F1 _]. rewrite F1. apply B. }
      destruct (complete_deref coll h1 m pm tpm tm pam wm Hcc Hm) as (o & Ed & _).
      rewrite Ed. simpl.
      split; auto. split; auto. split; auto. split; auto. left. split; auto. split; [red; eauto 10 | auto].
    - rewrite He in *. subst h1. symmetry in Hwk.
      destruct Hout as [[X _] | [[q X] | X]]; try discriminate; inversion X; subst e; simpl.
      + split; auto. split; auto. split; auto. split. apply R_refl. right. exists (EARE q).
        split; auto. split; auto. right. eauto.
      + split; auto. split; auto. split; auto. split. apply R_refl. right. exists ECyc.
        split; auto. split; auto. left. auto.
  Qed.

  Lemma visit_quiet : forall b m p p' tp pa w e,
    PInv (a_heap b) -> nth_error (a_heap b) m = Some (NAlias p' tp None pa w) ->
    walk coll (fuelN h0) (a_heap b) m [] = Err e ->
    visit_alias coll b m p =
      (mkAcc (a_heap b) (a_seen b) (a_resolved b) (match e with EARE _ => p :: a_unresolved b | _ => a_unresolved b end), Ok tt).
  Proof.
    intros b m p p' tp pa w e HP Hn Hw.
    destruct (visit_facts b m p p' tp pa w HP Hn) as (A & B & _ & _ & D).
    destruct (visit_alias coll b m p) as [b1 r]. simpl in *. subst r. f_equal.
    destruct D as [(X & _) | (e' & X & _ & D1 & D2 & D3)]. congruence.
    assert (e' = e) by congruence. subst e'. rewrite (acc_eta b1). congruence.
  Qed.

  Definition mono_unres (a a' : acc) : Prop := forall x, In x (a_unresolved a) -> In x (a_unresolved a').

  (* the resolved list only grows, and the heap only changes when it does *)
  Definition prog (a a' : acc) : Prop :=
    List.length (a_resolved a) <= List.length (a_resolved a') /\
    (List.length (a_resolved a') = List.length (a_resolved a) -> a_heap a' = a_heap a).

  Lemma prog_refl : forall a, prog a a. Proof. split; auto. Qed.
  Lemma prog_trans : forall a b c, prog a b -> prog b c -> prog a c.
  Proof. intros a b c [A1 A2] [B1 B2]. split. lia. intros E. rewrite B2 by lia. apply A2. lia. Qed.

  Definition quiet_run (run : acc -> acc * res unit) (a a' : acc) : Prop :=
    forall g b, R (a_heap a') g -> PInv g -> a_heap b = g -> a_seen b = a_seen a ->
      exists us, run b = (mkAcc g (a_seen a') (a_resolved b) us, Ok tt) /\
                 (forall x, In x us -> In x (a_unresolved b) \/ In x (a_unresolved a')).

  Definition ls_result (run : acc -> acc * res unit) (a : acc) : Prop :=
    forall a' r, run a = (a', r) ->
      (forall e, r = Err e -> e = EFuel \/ e = EBad) /\
      (r = Ok tt -> PInv (a_heap a') /\ R (a_heap a) (a_heap a') /\ mono_unres a a' /\ prog a a' /\ quiet_run run a a').

  Definition ls_spec (recur : acc -> nat -> acc * res unit) : Prop :=
    forall a o, PInv (a_heap a) -> ls_result (fun x => recur x o) a.

  Lemma members_loop_ls : forall recur, ls_spec recur ->
    forall ms a, PInv (a_heap a) -> ls_result (fun x => members_loop coll recur x ms) a.
  Proof.
    intros recur Hrec. induction ms as [|[nm m] rest]; intros a HP a' r Hrun; simpl in Hrun.
    - inversion Hrun; subst. split. intros; discriminate. intros _.
      split; auto. split. apply R_refl. split. red; auto. split. apply prog_refl.
      intros g b HR HPg Hb Hs. subst g. exists (a_unresolved b). simpl. split; auto.
      rewrite (acc_eta b) at 1. rewrite Hs. auto.
    - destruct (nth_error (a_heap a) m) as [[mp c mms | p tpm tgt pam wild]|] eqn:Hn.
      + (* an object member *)
        destruct (c && negb (mem_str mp (a_seen a))) eqn:Hcond.
        * destruct (recur a m) as [a1 r1] eqn:Er.
          destruct (Hrec a m HP a1 r1 Er) as [He1 Hok1].
          destruct r1 as [u1 | e1].
          2:{ inversion Hrun; subst. split. intros e X. inversion X; subst. auto. intros X; discriminate. }
          destruct u1. destruct (Hok1 eq_refl) as (HP1 & HR1 & Hm1 & Hp1 & Hq1).
          destruct (IHrest a1 HP1 a' r Hrun) as [He2 Hok2]. split; auto.
          intros Er2. destruct (Hok2 Er2) as (HP2 & HR2 & Hm2 & Hp2 & Hq2).
          split; auto. split. eapply R_trans; eauto. split. red; auto. split. eapply prog_trans; eauto.
          intros g b HRg HPg Hb Hs. subst g. simpl.
          assert (HRag : R (a_heap a) (a_heap b)) by (eapply R_trans; [eapply R_trans; eauto | auto]).
          rewrite (R_nth_obj _ _ _ _ _ _ HRag Hn). rewrite Hs, Hcond.
          destruct (Hq1 (a_heap b) b (R_trans _ _ _ HR2 HRg) HPg eq_refl Hs) as (us1 & Eb1 & Hin1). rewrite Eb1.
          destruct (Hq2 (a_heap b) (mkAcc (a_heap b) (a_seen a1) (a_resolved b) us1) HRg HPg eq_refl eq_refl) as (us & Eb2 & Hin2).
          exists us. split; [exact Eb2|]. intros x Hx. destruct (Hin2 x Hx) as [X | X]; auto.
          simpl in X. destruct (Hin1 x X); auto.
        * destruct (IHrest a HP a' r Hrun) as [He2 Hok2]. split; auto.
          intros Er2. destruct (Hok2 Er2) as (HP2 & HR2 & Hm2 & Hp2 & Hq2). split; auto. split; auto. split; auto. split; auto.
          intros g b HRg HPg Hb Hs. subst g. simpl.
          assert (HRag : R (a_heap a) (a_heap b)) by (eapply R_trans; eauto).
          rewrite (R_nth_obj _ _ _ _ _ _ HRag Hn). rewrite Hs, Hcond.
          apply Hq2; auto.
      + (* an alias member *)
        destruct (wild || match tgt with Some _ => true | None => false end) eqn:Hcond.
        * destruct (IHrest a HP a' r Hrun) as [He2 Hok2]. split; auto.
          intros Er2. destruct (Hok2 Er2) as (HP2 & HR2 & Hm2 & Hp2 & Hq2). split; auto. split; auto. split; auto. split; auto.
          intros g b HRg HPg Hb Hs. subst g. simpl.
          assert (HRag : R (a_heap a) (a_heap b)) by (eapply R_trans; eauto).
          destruct (R_nth_alias _ _ _ _ _ _ _ _ HRag Hn) as (t' & Hg & Ht').
          rewrite Hg.
          assert (Hc' : wild || match t' with Some _ => true | None => false end = true).
          { destruct wild; auto. simpl in *. destruct tgt; try discriminate.
            destruct Ht' as [-> | [X _]]; auto. discriminate. }
          rewrite Hc'. apply Hq2; auto.
        * apply orb_false_iff in Hcond. destruct Hcond as [Hwild Htgt]. subst wild.
          destruct tgt; try discriminate.
          destruct (visit_facts a m p p tpm pam false HP Hn) as (V1 & V2 & V3 & V4 & V5).
          destruct (visit_alias coll a m p) as [a1 r1] eqn:Ev. simpl in V1, V2, V3, V4, V5. subst r1.
          destruct (IHrest a1 V3 a' r Hrun) as [He2 Hok2]. split; auto.
          intros Er2. destruct (Hok2 Er2) as (HP2 & HR2 & Hm2 & Hp2 & Hq2).
          assert (Hm1 : mono_unres a a1).
          { red. intros x Hx. destruct V5 as [(_ & _ & E & _) | (e & _ & _ & _ & _ & E)]; rewrite E; auto.
            destruct e; simpl; auto. }
          assert (Hp1 : prog a a1).
          { destruct V5 as [(_ & _ & _ & E) | (e & _ & _ & E1 & E2 & _)]; split; try rewrite E; try rewrite E2; simpl; auto; intros; lia. }
          split; auto. split. eapply R_trans; eauto. split. red; auto. split. eapply prog_trans; eauto.
          intros g b HRg HPg Hb Hs. subst g. simpl.
          assert (HR1g : R (a_heap a1) (a_heap b)) by (eapply R_trans; eauto).
          assert (HRag : R (a_heap a) (a_heap b)) by (eapply R_trans; eauto).
          destruct (R_nth_alias _ _ _ _ _ _ _ _ HRag Hn) as (t' & Hg & _).
          rewrite Hg. simpl. destruct t' as [t'|].
          -- apply Hq2; auto. congruence.
          -- destruct V5 as [(_ & Hres & _) | (e & Hwk & Hreal & Hh1 & Hr1 & Hu1)].
             { exfalso. destruct Hres as (p1 & tp1 & t1 & pa1 & w1 & Hm1').
               destruct (R_nth_alias _ _ _ _ _ _ _ _ HR1g Hm1') as (t2 & Hg2 & Ht2). rewrite Hg in Hg2.
               inversion Hg2; subst. destruct Ht2 as [X | [X _]]; discriminate. }
             assert (Hwg : walk coll (fuelN h0) (a_heap b) m [] = Err e).
             { apply (walk_stable coll (fuelL h0) (fuelN h0) (a_heap a) (a_heap b) m [] e); auto.
               - apply (PInv_U _ _ HP). apply HPg.
               - apply HPg.
               - destruct Hreal as [-> | [q ->]]; discriminate.
               - destruct Hreal as [-> | [q ->]]; discriminate.
               - unfold link_of. rewrite Hg. auto.
               - intros v []. }
             rewrite (visit_quiet b m p p tpm pam false e HPg Hg Hwg).
             set (b1 := mkAcc (a_heap b) (a_seen b) (a_resolved b) (match e with EARE _ => p :: a_unresolved b | _ => a_unresolved b end)).
             assert (Hs1 : a_seen b1 = a_seen a1) by (simpl; congruence).
             destruct (Hq2 (a_heap b) b1 HRg HPg eq_refl Hs1) as (us & Eb2 & Hin2).
             exists us. split; [exact Eb2|]. intros x Hx. destruct (Hin2 x Hx) as [X | X]; auto.
             simpl in X. destruct e; auto. destruct X as [<- | X]; auto.
             right. apply Hm2. rewrite Hu1. left; auto.
      + inversion Hrun; subst. split. intros e X. inversion X; subst. auto. intros X; discriminate.
  Qed.
  Lemma rma_ls : forall d, ls_spec (rma coll d).
  Proof.
    induction d; intros a o HP a' r Hrun.
    - simpl in Hrun. inversion Hrun; subst. split. intros e X. inversion X; auto. intros X; discriminate.
    - simpl in Hrun. destruct (nth_error (a_heap a) o) as [[path c ms | ]|] eqn:Hn.
      2,3: inversion Hrun; subst; split; [intros e X; inversion X; auto | intros X; discriminate].
      set (a0 := mkAcc (a_heap a) (path :: a_seen a) (a_resolved a) (a_unresolved a)) in *.
      destruct (members_loop_ls (rma coll d) IHd ms a0 HP a' r Hrun) as [He Hok]. split; auto.
      intros Er. destruct (Hok Er) as (HP2 & HR2 & Hm2 & Hp2 & Hq2).
      split; auto. split; auto. split; auto. split; auto.
      intros g b HRg HPg Hb Hs. subst g. simpl.
      rewrite (R_nth_obj _ _ _ _ _ _ (R_trans _ _ _ HR2 HRg) Hn).
      destruct (Hq2 (a_heap b) (mkAcc (a_heap b) (path :: a_seen b) (a_resolved b) (a_unresolved b)) HRg HPg eq_refl)
        as (us & Eb & Hin). simpl. congruence.
      exists us. split; auto.
  Qed.

  Opaque rma.
  Lemma pass_modules_ls : forall mods h unres rsv h' r,
    PInv h -> pass_modules coll h mods unres rsv = (h', r) ->
    (forall e, r = Err e -> e = EFuel \/ e = EBad) /\
    (forall u rs, r = Ok (u, rs) ->
       PInv h' /\ R h h' /\ (forall x, In x unres -> In x u) /\
       List.length rsv <= List.length rs /\ (List.length rs = List.length rsv -> h' = h) /\
       forall g unres2 rsv2, R h' g -> PInv g ->
         exists u2, pass_modules coll g mods unres2 rsv2 = (g, Ok (u2, rsv2)) /\
                    (forall x, In x u2 -> In x unres2 \/ In x u)).
  Proof.
    induction mods as [|[nm m] mods]; intros h unres rsv h' r HP Hrun; simpl in Hrun.
    - inversion Hrun; subst. split. intros; discriminate. intros u rs X. inversion X; subst.
      split; auto. split. apply R_refl. split; auto. split; auto. split; auto.
      intros g unres2 rsv2 _ _. exists unres2. simpl. auto.
    - set (a0 := mkAcc h [] rsv unres) in *.
      destruct (rma coll (S (List.length h)) a0 m) as [a r1] eqn:Er.
      destruct (rma_ls (S (List.length h)) a0 m HP a r1 Er) as [He1 Hok1].
      destruct r1 as [u1 | e1].
      2:{ inversion Hrun; subst. split. intros e X. inversion X; subst. apply (He1 _ eq_refl). intros u rs X; discriminate. }
      destruct u1. destruct (Hok1 eq_refl) as (HP1 & HR1 & Hm1 & [Hp1 Hp1'] & Hq1). simpl in HR1, Hp1, Hp1'.
      destruct (IHmods (a_heap a) (a_unresolved a) (a_resolved a) h' r HP1 Hrun) as [He2 Hok2]. split; auto.
      intros u rs Eu. destruct (Hok2 u rs Eu) as (HP2 & HR2 & Hm2 & Hl2 & Hh2 & Hq2).
      split; auto. split. eapply R_trans; eauto. split. intros x Hx. apply Hm2. apply Hm1. auto.
      split. lia. split. intros El. rewrite Hh2 by lia. apply Hp1'. lia.
      intros g unres2 rsv2 HRg HPg. simpl.
      assert (HRhg : R h g) by (eapply R_trans; [eapply R_trans; eauto | auto]).
      rewrite (R_length _ _ HRhg).
      destruct (Hq1 g (mkAcc g [] rsv2 unres2) (R_trans _ _ _ HR2 HRg) HPg eq_refl eq_refl) as (us & Eb & Hin).
      rewrite Eb. simpl.
      destruct (Hq2 g us rsv2 HRg HPg) as (u2 & Eb2 & Hin2). exists u2. split; auto.
      intros x Hx. destruct (Hin2 x Hx) as [X | X]; auto. destruct (Hin x X) as [Y | Y]; auto.
  Qed.

  Transparent rma.

  (* the loop of resolve_aliases: whatever pass ends it, a further pass over the collection changes nothing and
     reports the same unresolved aliases *)
  Lemma ra_loop_fix : forall k h prev it h' r,
    PInv h -> unres_count h + 2 <= k -> ra_loop coll k h prev it = (h', r) ->
    exists u it', r = Ok (u, it') /\ PInv h' /\ one_pass coll h' = (h', Ok (u, [])).
  Proof.
    induction k; intros h prev it h' r HP Hk Hrun. lia.
    simpl in Hrun. pose proof HP as ((Hw & _) & _).
    destruct (one_pass_spec coll h Hw) as (HPo & Hg & _ & Hac).
    destruct (one_pass coll h) as [h1 r1] eqn:E1. simpl in HPo, Hg, Hac. unfold one_pass in E1.
    destruct (pass_modules_ls coll h [] [] h1 r1 HP E1) as [He1 Hok1].
    destruct r1 as [[unres rsv] | e].
    2:{ exfalso. destruct Hg as [G1 G2]. destruct (He1 e eq_refl); subst; congruence. }
    destruct (Hok1 unres rsv eq_refl) as (HP1 & HR1 & _ & _ & Hsame & Hq).
    specialize (Hac unres rsv eq_refl).
    destruct unres as [|u0 us].
    { inversion Hrun; subst. exists [], (S it). split; auto. split; auto.
      destruct (Hq h' [] [] (R_refl _) HP1) as (u2 & Eu2 & Hin2). unfold one_pass. rewrite Eu2.
      destruct u2 as [|x u2]; auto. destruct (Hin2 x (or_introl eq_refl)) as [[] | []]. }
    destruct (is_nil rsv && set_eq (u0 :: us) prev) eqn:Ecase.
    { inversion Hrun; subst. apply andb_true_iff in Ecase. destruct Ecase as [En _].
      destruct rsv; try discriminate. rewrite (Hsame eq_refl) in *.
      exists (u0 :: us), (S it). split; auto. }
    destruct (R_unres _ _ HR1) as [Hle Heq].
    destruct (Nat.eq_dec (unres_count h1) (unres_count h)) as [Hsm | Hless].
    - (* nothing changed: the next pass repeats this one and ends the loop *)
      specialize (Heq Hsm). subst h1.
      assert (rsv = []) by (destruct rsv; simpl in Hac; [auto | lia]). subst rsv.
      destruct k as [|k']. lia.
      simpl in Hrun. unfold one_pass in Hrun. rewrite E1 in Hrun. rewrite set_eq_refl in Hrun. simpl in Hrun.
      inversion Hrun; subst. exists (u0 :: us), (S (S it)). split; auto.
    - apply (IHk h1 (u0 :: us) (S it) h' r); auto. lia.
  Qed.
End Pass.

(* ------------------------------------------------------------------------------------------------------------ *)
(* the fixpoint theorem                                                                                          *)
(* ------------------------------------------------------------------------------------------------------------ *)
Theorem resolve_aliases_fixpoint : forall coll h,
  wf coll h = true -> direct coll h = true -> chains_complete h = true -> unique_paths h = true ->
  let h' := fst (resolve_aliases coll h) in
  exists u it,
    resolve_aliases coll h = (h', Ok (u, it)) /\
    one_pass coll h' = (h', Ok (u, [])) /\
    exists it', resolve_aliases coll h' = (h', Ok (u, it')) /\ it' <= 2.
Proof.
  intros coll h Hw Hd Hc Hu. cbv zeta.
  assert (HP : PInv coll h h).
  { split; [|split].
    - split; auto. split; auto. split; auto. split; auto. unfold fuelL. lia.
    - apply R_refl.
    - intros j p tp t pa w Uj Hn. unfold U0, link_of in Uj. rewrite Hn in Uj. discriminate. }
  destruct (resolve_aliases coll h) as [h' r] eqn:E. unfold resolve_aliases in E.
  assert (Hk : unres_count h + 2 <= count_aliases h + 2) by (pose proof (unres_le_count h); lia).
  destruct (ra_loop_fix coll h _ h [] 0 h' r HP Hk E) as (u & it & -> & HP' & Hq).
  simpl. exists u, it. split; auto. split; auto.
  pose proof HP' as ((Hw' & _) & _).
  exact (fixpoint_after_quiet_pass coll h' u [] Hw' Hq).
Qed.

(* and no exception leaves resolve_aliases on such heaps; the outcome of every single resolve_target is the static walk *)
Theorem resolve_outcome_static : forall coll h i p tp pa w,
  wf coll h = true -> direct coll h = true -> chains_complete h = true -> unique_paths h = true ->
  nth_error h i = Some (NAlias p tp None pa w) ->
  snd (resolve_top coll h i) = walk coll (fuelN h) h i [].
Proof.
  intros coll h i p tp pa w Hw Hd Hc Hu Hn. unfold resolve_top.
  assert (HI : Inv coll (fuelL h) h).
  { split; auto. split; auto. split; auto. split; auto. unfold fuelL. lia. }
  destruct (resolve_target_d coll (fuelL h) (fun _ => True) (fuelN h) h i p tp pa w HI Hn) as [A _]. exact A.
Qed.

(* a failed resolve_target fails in the same way, and changes nothing, on the heap resolve_aliases() leaves behind
   (whatever was resolved in between) *)
Theorem failure_is_stable : forall coll h i p tp pa w e,
  wf coll h = true -> direct coll h = true -> chains_complete h = true -> unique_paths h = true ->
  nth_error h i = Some (NAlias p tp None pa w) ->
  snd (resolve_top coll h i) = Err e ->
  let g := fst (resolve_aliases coll h) in
  resolve_top coll g i = (g, Err e).
Proof.
  intros coll h i p tp pa w e Hw Hd Hc Hu Hn He. cbv zeta.
  assert (HP : PInv coll h h).
  { split; [|split].
    - split; auto. split; auto. split; auto. split; auto. unfold fuelL. lia.
    - apply R_refl.
    - intros j pj tpj t paj wj Uj Hj. unfold U0, link_of in Uj. rewrite Hj in Uj. discriminate. }
  destruct (resolve_aliases coll h) as [g r] eqn:E. unfold resolve_aliases in E.
  assert (Hk : unres_count h + 2 <= count_aliases h + 2) by (pose proof (unres_le_count h); lia).
  destruct (ra_loop_fix coll h _ h [] 0 g r HP Hk E) as (u & it & -> & HPg & _). simpl.
  pose proof HPg as (HIg & HRg & HCg). destruct (PInv_fuel _ _ _ HPg) as [FL FN].
  assert (Hreal : e <> EFuel /\ e <> EBad).
  { pose proof (resolve_top_total coll h i p tp pa w Hw Hn) as Tot. cbv zeta in Tot. destruct Tot as (Hout & _).
    rewrite He in Hout. destruct Hout as [[X _] | [[q X] | X]]; inversion X; subst; split; discriminate. }
  rewrite (resolve_outcome_static coll h i p tp pa w Hw Hd Hc Hu Hn) in He.
  destruct (R_nth_alias _ _ _ _ _ _ _ _ HRg Hn) as (t' & Hg & _).
  assert (HCg' : Cl coll (fun j => link_of h j = None) g) by (apply (PInv_U coll h h g HP HCg)).
  assert (Hcc : chains_complete_L (fuelL h) g = true) by apply HIg.
  destruct t' as [t'|].
  { exfalso. assert (Hres : resolved_in g i) by (red; eauto 10).
    destruct (failed_never_resolved coll (fuelL h) (fuelN h) h g i [] e HRg HCg' Hcc He (proj1 Hreal) (proj2 Hreal) Hres)
      as (v & [] & _). }
  assert (Hwg : walk coll (fuelN h) g i [] = Err e).
  { apply (walk_stable coll (fuelL h) (fuelN h) h g i [] e); auto; try tauto.
    unfold link_of. rewrite Hg. auto. intros v []. }
  unfold resolve_top. rewrite FL, FN.
  destruct (resolve_target_d coll (fuelL h) (fun _ => True) (fuelN h) g i p tp pa w HIg Hg) as [A _].
  destruct (resolve_target_aon coll (fuelL h) (fuelN h) g i p tp pa w HIg Hg) as [(B & _) | (e' & B & C)];
    destruct (resolve_target coll (fuelL h) (fuelN h) g i) as [g1 r1]; simpl in *; congruence.
Qed.

Example fixpoint_nonvacuous :
  wf w_plain_coll w_plain_heap = true /\ direct w_plain_coll w_plain_heap = true /\
  chains_complete w_plain_heap = true /\ unique_paths w_plain_heap = true /\
  resolve_aliases w_plain_coll w_plain_heap = (fst (resolve_aliases w_plain_coll w_plain_heap), Ok (["p.z"], 2)) /\
  fst (resolve_aliases w_plain_coll w_plain_heap) <> w_plain_heap /\
  walk w_plain_coll (fuelN w_plain_heap) w_plain_heap 5 [] = Err ECyc /\
  walk w_plain_coll (fuelN w_plain_heap) w_plain_heap 1 [] = Ok tt.
Proof. vm_compute. repeat split; auto. discriminate. Qed.


(* ------------------------------------------------------------------------------------------------------------ *)
(* unique_paths is a real hypothesis, and its failure is reachable                                               *)
(* ------------------------------------------------------------------------------------------------------------ *)
(* {"p": "from p.a import x\nfrom p.b import *", "p.a": "def x(): ...", "p.b": "from p.c import *", "p.c": "from p import *"}
   as loaded (wildcards expanded): the wildcard import in p re-binds x and replaces the alias p.x (node 12, detached,
   still the stored target of p.c.x) by a new alias p.x (node 1).  Every stored link leads to the function p.a.x,
   node by node; but the chain of the new p.x passes through the old one, which has the same path. *)
Definition w_dup_coll : list (string * nat) := [("p", 0)].
Definition w_dup_heap : heap :=
  [ NObj "p" true [("x", 1); ("a", 2); ("c", 4); ("b", 7); ("p/b/*", 9)];
    NAlias "p.x" ["p"; "b"; "x"] (Some (RReal 8)) false false;
    NObj "p.a" true [("x", 3)];
    NObj "p.a.x" false [];
    NObj "p.c" true [("x", 5); ("p/b/*", 6)];
    NAlias "p.c.x" ["p"; "x"] (Some (RReal 12)) false false;
    NAlias "p.c.p/b/*" ["p"; "p/b/*"] (Some (RReal 11)) false true;
    NObj "p.b" true [("x", 8)];
    NAlias "p.b.x" ["p"; "c"; "x"] (Some (RReal 5)) false false;
    NAlias "p.p/b/*" ["p"; "b"; "p/b/*"] (Some (RReal 10)) false true;
    NAlias "p.b.p/b/*" ["p"; "c"; "p/b/*"] (Some (RReal 6)) false true;
    NAlias "p.p/b/*" ["p"; "b"] (Some (RReal 7)) false true;
    NAlias "p.x" ["p"; "a"; "x"] (Some (RReal 3)) false false ].

(* without unique_paths, "every stored link leads to an object" (targets_complete) does not make a resolved alias
   dereferenceable: final_target reports a cycle that is not there (finding C06-F9); link_verdict names the gap *)
Lemma unique_paths_needed :
  wf w_dup_coll w_dup_heap = true /\ direct w_dup_coll w_dup_heap = true /\ no_passed w_dup_heap = true /\
  targets_complete w_dup_heap = true /\ unique_paths w_dup_heap = false /\ chains_complete w_dup_heap = false /\
  fst (ident_walk 28 w_dup_heap (RReal 1) []) = Some 3 /\
  snd (deref_top w_dup_coll w_dup_heap 1) = Err ECyc /\
  snd (deref_top w_dup_coll w_dup_heap 8) = Ok 3 /\
  link_verdict w_dup_heap w_dup_heap 1 = "false-cycle" /\
  link_verdict w_pre_heap (fst (resolve_aliases w_pre_coll w_pre_heap)) 7 = "preresolved".
Proof. vm_compute. repeat split; auto. Qed.

(* the invariant itself breaks: a successful resolve_target on a direct heap with complete chains but a duplicated path
   leaves a heap whose chains are not complete any more (the new link of p.x leads through the detached p.x) *)
Definition w_dup2_heap : heap :=
  [ NObj "p" true [("x", 1); ("b", 2); ("f", 5)];
    NAlias "p.x" ["p"; "b"; "x"] None false false;
    NObj "p.b" true [("x", 3)];
    NAlias "p.b.x" ["p"; "x"] (Some (RReal 4)) false false;
    NAlias "p.x" ["p"; "f"] (Some (RReal 5)) false false;
    NObj "p.f" false [] ].

Lemma unique_paths_needed_for_invariance :
  wf w_dup_coll w_dup2_heap = true /\ direct w_dup_coll w_dup2_heap = true /\ chains_complete w_dup2_heap = true /\
  unique_paths w_dup2_heap = false /\
  snd (resolve_top w_dup_coll w_dup2_heap 1) = Ok tt /\
  chains_complete (fst (resolve_top w_dup_coll w_dup2_heap 1)) = false /\
  snd (deref_top w_dup_coll (fst (resolve_top w_dup_coll w_dup2_heap 1)) 1) = Err ECyc.
Proof. vm_compute. repeat split; auto. Qed.
