(* C06 proofs, part 2: the outcome of Alias.resolve_target is a function of the static import graph (direct heaps),
   a failed resolution stays failed whatever gets resolved later, and resolve_aliases() returns on a fixpoint:
   a further pass over the collection changes nothing, a further call returns the same set. *)
From Coq Require Import List String Bool Arith Lia.
From Verif Require Import Lib.Sexp Model.C06_alias Proofs.C06_alias.
Import ListNotations.
Open Scope string_scope.
Open Scope list_scope.
Open Scope nat_scope.

(* ------------------------------------------------------------------------------------------------------------ *)
(* the static walk: what resolve_target computes, as a pure function of target paths, flags and resolved-ness     *)
(* ------------------------------------------------------------------------------------------------------------ *)
Fixpoint mem_nat (x : nat) (l : list nat) : bool :=
  match l with [] => false | y :: r => Nat.eqb x y || mem_nat x r end.

Lemma mem_nat_In : forall x l, mem_nat x l = true <-> In x l.
Proof.
  induction l; simpl. split; [discriminate | tauto].
  rewrite orb_true_iff, IHl, Nat.eqb_eq. split; intros [H|H]; auto.
Qed.

(* [vis]: the aliases this walk already went through (the real code marks them with the passed-through flag) *)
Fixpoint walk (coll : list (string * nat)) (n : nat) (h : heap) (i : nat) (vis : list nat) : res unit :=
  match n with
  | 0 => Err EFuel
  | S n' =>
      match nth_error h i with
      | Some (NAlias p tp None pa _) =>
          if pa || mem_nat i vis then Err ECyc
          else match static_get coll h tp with
               | None => Err EBad
               | Some None => Err (EARE p)
               | Some (Some j) =>
                   if Nat.eqb j i then Err ECyc
                   else match nth_error h j with
                        | None => Err EBad
                        | Some (NAlias _ _ None _ _) => walk coll n' h j (i :: vis)
                        | Some _ => Ok tt
                        end
               end
      | _ => Err EBad
      end
  end.

Lemma walk_vis_ext : forall coll n h i vis vis',
  (forall x, mem_nat x vis = mem_nat x vis') -> walk coll n h i vis = walk coll n h i vis'.
Proof.
  induction n; intros h i vis vis' E; simpl; auto.
  destruct (nth_error h i) as [[| p tp [t|] pa w]|]; auto.
  rewrite (E i). destruct (pa || mem_nat i vis'); auto.
  destruct (static_get coll h tp) as [[j|]|]; auto.
  destruct (Nat.eqb j i); auto.
  destruct (nth_error h j) as [[| pj tpj [tj|] paj wj]|]; auto.
  apply IHn. intros x. simpl. rewrite (E x). auto.
Qed.

(* static lookups do not see links or flags *)
Lemma static_from_R : forall h h', R h h' -> forall parts i, static_from h' i parts = static_from h i parts.
Proof.
  intros h h' HR. induction parts as [|name rest]; intros i; simpl; auto.
  destruct (nth_error h i) as [[p c ms | p tp t pa w]|] eqn:E.
  - rewrite (R_nth_obj _ _ _ _ _ _ HR E). destruct (lookup name ms); auto.
  - destruct (R_nth_alias _ _ _ _ _ _ _ _ HR E) as (t' & E' & _). rewrite E'. auto.
  - rewrite (R_nth_none _ _ HR _ E). auto.
Qed.

Lemma static_get_R : forall coll h h' parts, R h h' -> static_get coll h' parts = static_get coll h parts.
Proof.
  intros. destruct parts; simpl; auto. destruct (lookup s coll); auto. apply static_from_R; auto.
Qed.

(* setting the flag of an unresolved alias = putting it in [vis] *)
Lemma walk_flag : forall coll n h i p tp w j vis vis',
  nth_error h i = Some (NAlias p tp None false w) ->
  (forall x, mem_nat x vis' = Nat.eqb x i || mem_nat x vis) ->
  walk coll n (update h i (NAlias p tp None true w)) j vis = walk coll n h j vis'.
Proof.
  induction n; intros h i p tp w j vis vis' Hn E; simpl; auto.
  set (hh := update h i (NAlias p tp None true w)).
  assert (Hi : i < List.length h) by (eapply nth_error_lt; eauto).
  assert (Hst : forall parts, static_get coll hh parts = static_get coll h parts).
  { intros. unfold hh. eapply static_get_update; eauto. }
  assert (Hunres : forall k, k <> i -> nth_error hh k = nth_error h k).
  { intros. unfold hh. apply nth_update_other; auto. }
  destruct (Nat.eq_dec j i) as [-> | Hji].
  - unfold hh. rewrite nth_update_same; auto. rewrite Hn. simpl. rewrite (E i). rewrite Nat.eqb_refl. simpl.
    destruct (false || (true || mem_nat i vis)); auto.
  - rewrite (Hunres j Hji). destruct (nth_error h j) as [[| pj tpj [tj|] paj wj]|] eqn:Hj; auto.
    rewrite (E j). assert (Nat.eqb j i = false) by (apply Nat.eqb_neq; auto). rewrite H. simpl.
    destruct (paj || mem_nat j vis); auto.
    rewrite Hst. destruct (static_get coll h tpj) as [[k|]|]; auto.
    destruct (Nat.eqb k j) eqn:Ekj; auto. apply Nat.eqb_neq in Ekj.
    destruct (Nat.eq_dec k i) as [-> | Hki].
    + unfold hh. rewrite nth_update_same; auto. rewrite Hn.
      apply (IHn h i p tp w i (j :: vis) (j :: vis')); auto.
      intros x. simpl. rewrite (E x). destruct (Nat.eqb x j), (Nat.eqb x i); auto.
    + rewrite (Hunres k Hki). destruct (nth_error h k) as [[| pk tpk [tk|] pak wk]|]; auto.
      apply (IHn h i p tp w k (j :: vis) (j :: vis')); auto.
      intros x. simpl. rewrite (E x). destruct (Nat.eqb x j), (Nat.eqb x i); auto.
Qed.

(* ------------------------------------------------------------------------------------------------------------ *)
(* resolve_target on direct heaps, unfolded                                                                      *)
(* ------------------------------------------------------------------------------------------------------------ *)
Lemma resolve_body_unfold : forall coll L rt h i p tp w x,
  nth_error h i = Some (NAlias p tp None false w) ->
  static_get coll (update h i (NAlias p tp None true w)) tp = Some x ->
  resolve_body coll L rt h i =
    let hh := update h i (NAlias p tp None true w) in
    let '(h1, r) :=
      match x with
      | None => (hh, Err (EARE p))
      | Some j =>
          if Nat.eqb j i then (hh, Err ECyc)
          else let '(h2, u) := match nth_error hh j with
                               | Some (NAlias _ _ None _ _) => rt hh j
                               | _ => (hh, Ok tt)
                               end in
               match u with Err e => (h2, Err e) | Ok _ => tail L rt i j h2 end
      end in
    (set_passed h1 i false, r).
Proof.
  intros coll L rt h i p tp w x Hn Hx. unfold resolve_body. rewrite Hn.
  assert (E : set_passed h i true = update h i (NAlias p tp None true w)) by (unfold set_passed; rewrite Hn; auto).
  rewrite E. cbv zeta. unfold resolve_inner. rewrite (get_member_static coll L rt _ tp x Hx).
  destruct x as [j|]; auto.
Qed.

Lemma tail_ok : forall coll L rt h2 i j p tp pa w,
  Inv coll L h2 -> nth_error h2 i = Some (NAlias p tp None pa w) ->
  ((exists pj c ms, nth_error h2 j = Some (NObj pj c ms)) \/ resolved_in h2 j) ->
  tail L rt i j h2 = (set_target h2 i (RReal j), Ok tt).
Proof.
  intros coll L rt h2 i j p tp pa w (Hw & Hd & Hc & Hu & Hl) Hn Hj. unfold tail. simpl ref_is_alias.
  destruct Hj as [(pj & c & ms & Hnj) | (pj & tpj & tj & paj & wj & Hnj)]; rewrite Hnj; simpl is_alias_node; cbv iota; auto.
  pose proof (forallb_nth _ _ _ _ _ Hc Hnj) as Cj. simpl in Cj.
  destruct (chain_end L h2 tj [pj]) as [o|] eqn:Ej; try discriminate.
  assert (E0 : chain_end L h2 (RReal j) [] = Some o).
  { apply (chain_end_fuel (S L)). simpl. rewrite Hnj. simpl. auto.
    rewrite cnt_unseen_nil. simpl. lia. }
  rewrite (final_target_pure rt L h2 (RReal j) [] o E0). auto.
Qed.

Section Direct.
  Variable coll : list (string * nat).
  Variable L : nat.
  (* the aliases whose link the resolution itself may store (in the theorems: those unresolved to begin with) *)
  Variable U : nat -> Prop.

  Definition is_obj (h : heap) (k : nat) : Prop := exists pk c ms, nth_error h k = Some (NObj pk c ms).

  (* links stored by resolve_target point at the node the target path statically denotes, and that node is an object
     or a resolved alias *)
  Definition Cl (h : heap) : Prop :=
    forall j p tp t pa w, U j -> nth_error h j = Some (NAlias p tp (Some t) pa w) ->
      exists k, static_get coll h tp = Some (Some k) /\ t = RReal k /\ k <> j /\ (is_obj h k \/ resolved_in h k).

  Lemma Cl_update : forall h i p tp pa w t' pa',
    Cl h -> nth_error h i = Some (NAlias p tp None pa w) ->
    (forall t, t' = Some t -> exists k, static_get coll h tp = Some (Some k) /\ t = RReal k /\ k <> i /\ (is_obj h k \/ resolved_in h k)) ->
    Cl (update h i (NAlias p tp t' pa' w)).
  Proof.
    intros h i p tp pa w t' pa' HC Hn Hnew. set (n' := NAlias p tp t' pa' w).
    assert (Hi : i < List.length h) by (eapply nth_error_lt; eauto).
    assert (Hst : forall parts, static_get coll (update h i n') parts = static_get coll h parts).
    { intros. eapply static_get_update; eauto. }
    assert (Keep : forall k, is_obj h k \/ resolved_in h k -> is_obj (update h i n') k \/ resolved_in (update h i n') k).
    { intros k [(pk & c & ms & Hk) | (pk & tpk & tk & pak & wk & Hk)].
      - left. exists pk, c, ms. rewrite nth_update_other; auto. intro; subst; congruence.
      - right. red. rewrite nth_update_other; eauto 10. intro; subst; congruence. }
    intros j pj tpj tj paj wj HU Hj. destruct (Nat.eq_dec i j) as [<- | Hij].
    - unfold n' in Hj. rewrite nth_update_same in Hj; auto. inversion Hj; subst.
      destruct (Hnew tj eq_refl) as (k & A & B & C & D). exists k. rewrite Hst. auto.
    - rewrite nth_update_other in Hj; auto. destruct (HC j pj tpj tj paj wj HU Hj) as (k & A & B & C & D).
      exists k. rewrite Hst. auto.
  Qed.

  Definition d_spec (n : nat) (rt : heap -> nat -> heap * res unit) : Prop :=
    forall h i p tp pa w, Inv coll L h -> nth_error h i = Some (NAlias p tp None pa w) ->
      snd (rt h i) = walk coll n h i [] /\ (Cl h -> snd (rt h i) = Ok tt -> Cl (fst (rt h i))).

  Lemma resolve_body_d : forall n rt, aon_spec coll L rt -> d_spec n rt -> d_spec (S n) (resolve_body coll L rt).
  Proof.
    intros n rt Haon Hd h i p tp pa w HI Hn.
    destruct pa.
    { unfold resolve_body. rewrite Hn. simpl. rewrite Hn. simpl. split; auto; intros _ X; discriminate. }
    set (hh := update h i (NAlias p tp None true w)).
    assert (Hi : i < List.length h) by (eapply nth_error_lt; eauto).
    assert (Hnh : nth_error hh i = Some (NAlias p tp None true w)) by (apply nth_update_same; auto).
    assert (HIh : Inv coll L hh) by (eapply Inv_flag; eauto).
    pose proof HIh as (Hwh & Hdh & Hch & Huh & Hlh).
    destruct (direct_nth _ _ _ _ _ _ _ _ Hdh Hnh) as [[x Hx] _].
    assert (Hxh : static_get coll h tp = Some x).
    { rewrite <- Hx. symmetry. unfold hh. eapply static_get_update; eauto. }
    rewrite (resolve_body_unfold coll L rt h i p tp w x Hn Hx). fold hh. cbv zeta.
    simpl walk. rewrite Hn. simpl. rewrite Hxh.
    destruct x as [j|].
    2:{ simpl. split; auto; intros _ X; discriminate. }
    destruct (Nat.eqb j i) eqn:Eji.
    { simpl. split; auto; intros _ X; discriminate. }
    apply Nat.eqb_neq in Eji.
    assert (Hjh : nth_error hh j = nth_error h j) by (unfold hh; apply nth_update_other; auto).
    pose proof (static_get_range _ _ _ _ Hwh Hx) as Hjlen.
    (* the success exit *)
    assert (Fin : forall h2, Inv coll L h2 -> R hh h2 -> (is_obj h2 j \/ resolved_in h2 j) ->
              let X := (let '(h1, r) := tail L rt i j h2 in (set_passed h1 i false, r)) in
              snd X = Ok tt /\ (Cl h2 -> Cl (fst X))).
    { intros h2 HI2 HR2 Hj2.
      destruct (R_nth_alias _ _ _ _ _ _ _ _ HR2 Hnh) as (t2 & Hn2 & Ht2).
      assert (t2 = None) by (destruct Ht2 as [?|[_ ?]]; [auto | discriminate]). subst t2.
      rewrite (tail_ok coll L rt h2 i j p tp true w HI2 Hn2 Hj2). cbv zeta. simpl. split; auto.
      intros HC2. unfold set_target. rewrite Hn2.
      assert (Hi2 : i < List.length h2) by (eapply nth_error_lt; eauto).
      unfold set_passed. rewrite nth_update_same; auto. rewrite update_update.
      eapply Cl_update; eauto. intros t Et. inversion Et; subst. exists j.
      rewrite (static_get_R coll hh h2 tp HR2). auto. }
    destruct (nth_error h j) as [[pj c ms | pj tpj [tj|] paj wj]|] eqn:Hnj; rewrite Hjh.
    - destruct (Fin hh HIh (R_refl hh)) as [A B]. { left. red. rewrite Hjh. eauto. }
      split; auto. intros HC _. apply B. unfold hh. eapply Cl_update; eauto. intros; discriminate.
    - destruct (Fin hh HIh (R_refl hh)) as [A B]. { right. red. rewrite Hjh. eauto 10. }
      split; auto. intros HC _. apply B. unfold hh. eapply Cl_update; eauto. intros; discriminate.
    - assert (Hnjh : nth_error hh j = Some (NAlias pj tpj None paj wj)) by (rewrite Hjh; auto).
      destruct (Hd hh j pj tpj paj wj HIh Hnjh) as [Hw1 Hc1].
      assert (Hwf : walk coll n hh j [] = walk coll n h j [i]).
      { unfold hh. apply (walk_flag coll n h i p tp w j [] [i]); auto; intros y; simpl; auto. }
      destruct (Haon hh j pj tpj paj wj HIh Hnjh) as [(A & B & C & D) | (e & He & Hh2)];
        destruct (rt hh j) as [h2 u]; simpl in *.
      + subst u. destruct (Fin h2 B C (or_intror D)) as [F1 F2]. rewrite <- Hwf, <- Hw1. split; auto.
        intros HC _. apply F2. apply Hc1; auto. unfold hh. eapply Cl_update; eauto. intros; discriminate.
      + subst u. rewrite <- Hwf, <- Hw1. simpl. split; auto; intros _ X; discriminate.
    - apply nth_error_None in Hnj. rewrite (update_length _ h i (NAlias p tp None true w)) in Hjlen. lia.
  Qed.

  Theorem resolve_target_d : forall n, d_spec n (resolve_target coll L n).
  Proof.
    induction n.
    - intros h i p tp pa w _ _. simpl. split; auto; intros _ X; discriminate.
    - simpl. apply resolve_body_d; auto. apply resolve_target_aon.
  Qed.
End Direct.
