(* C12: parse has no hidden state.  For every history of parses, attribute assignments and reads on one docstring:
   the result of a parse is the result a fresh docstring carrying the current value, parser and options gives. *)
From Coq Require Import List NArith String Bool Arith.
From Verif Require Import Lib.Sexp Model.C12_regex Model.C12_docstrings Model.C12_chars Model.C12_history.
Import ListNotations.
Open Scope list_scope.

Definition fresh (cl : list text) (s : option pstyle) (o : gopts) : dstate := mkD cl s o None.
Definition fields (st : dstate) := (d_lines st, d_parser st, d_opts st).

(* two docstrings that agree on the three public attributes parse alike, whatever happened to them before *)
Lemma parse_no_hidden_state :
  forall p pa st1 st2 s o, fields st1 = fields st2 ->
    snd (step p pa st1 (OParse s o)) = snd (step p pa st2 (OParse s o)).
Proof.
  intros p pa st1 st2 s o H. unfold fields in H. inversion H as [[H1 H2 H3]].
  simpl. unfold parse_now. rewrite H1, H2, H3. reflexivity.
Qed.

(* one operation changes the public attributes exactly as its assignment says; parses and reads change none *)
Lemma step_fields :
  forall p pa st x, fields (fst (step p pa st x)) = fields_after (d_lines st) (d_parser st) (d_opts st) [x].
Proof.
  intros p pa st x. destruct x; simpl; try reflexivity. destruct (d_parsed st); reflexivity.
Qed.

Lemma fields_after_cons :
  forall cl s o x r,
    fields_after cl s o (x :: r) = let '(a, b, c) := fields_after cl s o [x] in fields_after a b c r.
Proof. intros cl s o x r. destruct x; reflexivity. Qed.

Lemma exec_fields :
  forall p pa ops st, fields (fst (exec p pa st ops)) = fields_after (d_lines st) (d_parser st) (d_opts st) ops.
Proof.
  intros p pa. induction ops as [|x r IH]; intros st; [reflexivity|].
  cbn [exec]. destruct (step p pa st x) as [st1 o1] eqn:E1. destruct (exec p pa st1 r) as [st2 os] eqn:E2.
  cbn [fst]. assert (H := IH st1). rewrite E2 in H. cbn [fst] in H. rewrite H.
  assert (F := step_fields p pa st x). rewrite E1 in F. cbn [fst] in F. unfold fields in F.
  rewrite fields_after_cons. rewrite <- F. reflexivity.
Qed.

(* after ANY history, parse(s, **o) returns what a fresh docstring with the current attributes returns *)
Theorem history_parse_equals_fresh :
  forall p pa st ops s o,
    let '(cl, s0, o0) := fields_after (d_lines st) (d_parser st) (d_opts st) ops in
    snd (step p pa (fst (exec p pa st ops)) (OParse s o)) = snd (step p pa (fresh cl s0 o0) (OParse s o)).
Proof.
  intros p pa st ops s o. assert (H := exec_fields p pa ops st).
  destruct (fields_after (d_lines st) (d_parser st) (d_opts st) ops) as [[cl s0] o0] eqn:E.
  apply parse_no_hidden_state. rewrite H. reflexivity.
Qed.

(* and it is the pure function of the current text, the effective style and the effective options *)
Theorem history_parse_is_parse_pure :
  forall p pa st ops s o,
    let '(cl, s0, o0) := fields_after (d_lines st) (d_parser st) (d_opts st) ops in
    snd (step p pa (fst (exec p pa st ops)) (OParse s o)) = ObsParse (parse_pure p pa cl (pick_style s s0) (pick o o0)).
Proof.
  intros p pa st ops s o. assert (H := history_parse_equals_fresh p pa st ops s o).
  destruct (fields_after (d_lines st) (d_parser st) (d_opts st) ops) as [[cl s0] o0]. rewrite H. reflexivity.
Qed.

(* reading `lines` gives the lines of the current value *)
Theorem history_lines_current :
  forall p pa st ops,
    let '(cl, _, _) := fields_after (d_lines st) (d_parser st) (d_opts st) ops in
    snd (step p pa (fst (exec p pa st ops)) OReadLines) = ObsLines cl.
Proof.
  intros p pa st ops. assert (H := exec_fields p pa ops st).
  destruct (fields_after (d_lines st) (d_parser st) (d_opts st) ops) as [[cl s0] o0].
  unfold fields in H. inversion H as [[H1 H2 H3]]. simpl. rewrite H1. reflexivity.
Qed.

(* `parsed` is computed once: a second read gives the first result whatever was assigned in between *)
Lemma exec_parsed_kept :
  forall p pa ops st r, d_parsed st = Some r -> d_parsed (fst (exec p pa st ops)) = Some r.
Proof.
  intros p pa. induction ops as [|x rest IH]; intros st r H; [exact H|].
  cbn [exec]. destruct (step p pa st x) as [st1 o1] eqn:E1. destruct (exec p pa st1 rest) as [st2 os] eqn:E2.
  cbn [fst]. assert (H1 : d_parsed st1 = Some r).
  { destruct x; simpl in E1; try (inversion E1; subst; simpl; exact H). rewrite H in E1. inversion E1; subst. exact H. }
  assert (G := IH st1 r H1). rewrite E2 in G. exact G.
Qed.

Theorem history_parsed_cached :
  forall p pa st ops,
    let st1 := fst (step p pa st OReadParsed) in
    snd (step p pa (fst (exec p pa st1 ops)) OReadParsed) = snd (step p pa st1 OReadParsed).
Proof.
  intros p pa st ops. cbv zeta.
  assert (C : exists r, d_parsed (fst (step p pa st OReadParsed)) = Some r).
  { simpl. destruct (d_parsed st) eqn:E; simpl; eauto. }
  destruct C as [r C]. assert (K := exec_parsed_kept p pa ops _ r C).
  set (st1 := fst (step p pa st OReadParsed)) in *. set (st2 := fst (exec p pa st1 ops)) in *.
  unfold step. rewrite K, C. reflexivity.
Qed.

(* non-vacuity: a history in which the text changes between two parses *)
Definition st_text (s : string) : text := map (fun a => ascii_ch (Ascii.N_of_ascii a)) (list_ascii_of_string s).
Example history_example :
  let p := mkParent false false in
  let pa := mkParentAnn [] [] false in
  let st := fresh [st_text "Args:"; st_text "    x: d"] (Some PGoogle) (mkGopts false true true true false true true true) in
  match snd (exec p pa st [OParse None None; OSetValue [st_text "plain"]; OParse None None]) with
  | [ObsParse (PGoogleR (Ok ([SSec KParams 0 1], _))); ObsNone; ObsParse (PGoogleR (Ok ([SText [(0, false)] false false], _)))] => True
  | _ => False
  end.
Proof. vm_compute. exact I. Qed.
