(* C18 proofs, part 7: in the Accumulated shape the NAMES, ORDER and KINDS of the synthesised parameters are CPython's for
   every hierarchy, inside finding F2 as well (F2 only changes required-ness): no hypothesis on field lists, kw_only /
   KW_ONLY / InitVar / field(init=False) / ClassVar placement or on the inheritance graph; only the two findings that add
   or remove names (F4: instance attributes of a hand-written __init__, F7: annotated name re-bound by a property). *)
From Coq Require Import List Arith Bool Lia.
From Verif Require Import Lib.Sexp Model.C18_dataclass Model.C18_modes Proofs.C18_dataclass Proofs.C18_modes.
Import ListNotations.
Open Scope list_scope. Open Scope nat_scope.

(* ------------------------------------------------------------------ any relation entry ~ field that implies equal keys *)
Section Rel.
  Variable Q : gfld -> fld -> Prop.
  Hypothesis Qkey : forall g f, Q g f -> gkey g = f_name f.

  Lemma upd_Q : forall m m' x x', Forall2 Q m m' -> Q x x' -> Forall2 Q (upd gkey m x) (upd f_name m' x').
  Proof.
    intros m m' x x' H. revert x x'. induction H as [|y y' l l' Hy Hl IH]; intros x x' Hx; simpl.
    - constructor; auto.
    - rewrite (Qkey _ _ Hy), (Qkey _ _ Hx). destruct (Nat.eqb (f_name y') (f_name x')); constructor; auto.
  Qed.
  Lemma merge_Q : forall l l', Forall2 Q l l' -> forall m m', Forall2 Q m m' -> Forall2 Q (merge gkey m l) (merge f_name m' l').
  Proof.
    unfold merge. intros l l' H. induction H as [|x x' l l' Hx Hl IH]; intros m m' Hm; simpl; auto.
    apply IH. apply upd_Q; auto.
  Qed.
  Lemma dedup_Q : forall l l', Forall2 Q l l' -> Forall2 Q (dedup gkey l) (dedup f_name l').
  Proof. intros. unfold dedup. apply merge_Q; auto. Qed.
  Lemma fold_Q : forall (A : nat -> list gfld) (B : nat -> list fld) l, (forall k, In k l -> Forall2 Q (A k) (B k)) ->
    forall acc acc', Forall2 Q acc acc' ->
    Forall2 Q (fold_left (fun a k => merge gkey a (A k)) l acc) (fold_left (fun a k => merge f_name a (B k)) l acc').
  Proof.
    intros A B. induction l as [|x r IH]; simpl; intros H acc acc' Ha; auto.
    apply IH; [intros; apply H; auto|]. apply merge_Q; auto.
  Qed.

  Variable ownok : table -> cls -> Prop.
  Hypothesis own_Q : forall t b own, decorated b = true -> py_own t b = Some own -> ownok t b -> Forall2 Q (g_own_all b) own.

  Lemma accum_Q : forall t e, py_eval_table t = Some e -> wf_mro t = true ->
    forall fuel j b, nth_error t j = Some b -> j < fuel ->
    (forall k bk, In k (j :: c_mro b) -> nth_error t k = Some bk -> decorated bk = true -> ownok t bk) ->
    Forall2 Q (accum t (own_static t) fuel j) (Gj t e j).
  Proof.
    intros t e Hev Hwf. induction fuel as [|f IH]; intros j b Hj Hlt Hclean; [lia|].
    simpl. rewrite Hj. unfold accum_body. destruct (decorated b) eqn:Hd.
    - destruct (entry_spec t e Hev j b Hj) as [_ Hdec]. destruct (Hdec Hd) as [own [Hown He]].
      rewrite (Gj_decorated t e j b _ Hj He), (inherited_prefix t e Hwf j b Hj), inherited_as_Gj.
      apply merge_Q.
      + unfold own_static. rewrite Hj. apply (own_Q t b own Hd Hown). apply (Hclean j b); auto. left; auto.
      + apply fold_Q; [|constructor]. intros k Hk. apply in_rev in Hk.
        destruct (wf_spec t Hwf j b Hj k Hk) as [Hkj [bk [Hbk Hsub]]].
        apply (IH k bk Hbk); [lia|].
        intros x bx [Hx|Hx] Hbx Hdx; [subst x; apply (Hclean k bx); auto; right; auto|].
        apply (Hclean x bx); auto. right. apply Hsub. auto.
    - rewrite (Gj_undecorated t e Hev Hwf j b Hj Hd).
      destruct (find (decorated_at t) (c_mro b)) as [k|] eqn:Ef; [|constructor].
      apply List.find_some in Ef. destruct Ef as [Hk _].
      destruct (wf_spec t Hwf j b Hj k Hk) as [Hkj [bk [Hbk Hsub]]].
      apply (IH k bk Hbk); [lia|].
      intros x bx [Hx|Hx] Hbx Hdx; [subst x; apply (Hclean k bx); auto; right; auto|].
      apply (Hclean x bx); auto. right. apply Hsub. auto.
  Qed.
End Rel.

(* ------------------------------------------------------------------ the relation that forgets required-ness *)
Definition erase_def (p : param) : param := mkp (p_name p) (p_kind p) false.
Definition shape_member (m : init_member) : init_member :=
  match m with Synth ps => Synth (map erase_def ps) | x => x end.

Definition Sh (g : gfld) (f : fld) : Prop :=
  gkey g = f_name f /\ g_in g = in_init f /\ (in_init f = true -> erase_def (g_par g) = erase_def (to_param f)).

Lemma scan_all_S : forall inhf body kw seen own,
  py_scan inhf kw seen body = Some own -> g7_scan body = false ->
  Forall2 Sh (g_scan_all kw body) own.
Proof.
  intros inhf. induction body as [|s r IH]; intros kw seen own Hpy H7.
  - simpl in Hpy. inversion Hpy. constructor.
  - destruct s as [n a v | n p | n].
    + destruct a.
      * simpl in Hpy. simpl.
        assert (Hr : py_scan inhf kw seen r = Some own) by (destruct v; congruence).
        apply (IH kw seen own Hr). simpl in H7; auto.
      * simpl in H7. destruct v as [| | fa]; simpl in Hpy.
        -- destruct (py_scan inhf kw seen r) as [o|] eqn:Er; simpl in Hpy; [|discriminate]. inversion Hpy; subst own.
           simpl. constructor; [|eapply IH; eauto]. unfold Sh, gkey, in_init, to_param, erase_def. simpl. repeat split; auto. destruct kw; reflexivity.
        -- destruct (py_scan inhf kw seen r) as [o|] eqn:Er; simpl in Hpy; [|discriminate]. inversion Hpy; subst own.
           simpl. constructor; [|eapply IH; eauto]. unfold Sh, gkey, in_init, to_param, erase_def. simpl. repeat split; auto. destruct kw; reflexivity.
        -- destruct (fa_default fa && fa_factory fa) eqn:Eb; [discriminate|].
           destruct (py_scan inhf kw seen r) as [o|] eqn:Er; simpl in Hpy; [|discriminate]. inversion Hpy; subst own.
           simpl. constructor; [|eapply IH; eauto]. unfold Sh, gkey, in_init, to_param, erase_def, opt_is. simpl.
           destruct (fa_init fa) as [[|]|]; simpl; repeat split; auto; try discriminate;
             intros _; destruct (fa_kw fa) as [[|]|]; destruct kw; simpl; reflexivity.
      * simpl in H7.
        assert (Hr : exists f o, py_scan inhf kw seen r = Some o /\ own = f :: o /\ f_type f = FClassVar /\ f_name f = n).
        { simpl in Hpy. destruct v as [| | fa].
          - destruct (py_scan inhf kw seen r) as [o|]; simpl in Hpy; [|discriminate]. inversion Hpy. eexists; eexists; repeat split; eauto.
          - destruct (py_scan inhf kw seen r) as [o|]; simpl in Hpy; [|discriminate]. inversion Hpy. eexists; eexists; repeat split; eauto.
          - destruct ((fa_factory fa || match fa_kw fa with Some _ => true | None => false end) || fa_default fa && fa_factory fa); [discriminate|].
            destruct (py_scan inhf kw seen r) as [o|]; simpl in Hpy; [|discriminate]. inversion Hpy. eexists; eexists; repeat split; eauto. }
        destruct Hr as [f [o [Er [Ho [Hf Hn]]]]]. subst own.
        simpl. constructor.
        -- unfold Sh, gkey, in_init. simpl. rewrite Hf, Hn. repeat split; auto. discriminate.
        -- apply (IH kw seen o Er); auto.
      * simpl in H7. destruct v as [| | fa]; simpl in Hpy.
        -- destruct (py_scan inhf kw seen r) as [o|] eqn:Er; simpl in Hpy; [|discriminate]. inversion Hpy; subst own.
           simpl. constructor; [|eapply IH; eauto]. unfold Sh, gkey, in_init, to_param, erase_def. simpl. repeat split; auto. destruct kw; reflexivity.
        -- destruct (py_scan inhf kw seen r) as [o|] eqn:Er; simpl in Hpy; [|discriminate]. inversion Hpy; subst own.
           simpl. constructor; [|eapply IH; eauto]. unfold Sh, gkey, in_init, to_param, erase_def. simpl. repeat split; auto. destruct kw; reflexivity.
        -- destruct (fa_factory fa || fa_default fa && fa_factory fa) eqn:Eb; [discriminate|].
           destruct (py_scan inhf kw seen r) as [o|] eqn:Er; simpl in Hpy; [|discriminate]. inversion Hpy; subst own.
           simpl. constructor; [|eapply IH; eauto]. unfold Sh, gkey, in_init, to_param, erase_def, opt_is. simpl.
           destruct (fa_init fa) as [[|]|]; simpl; repeat split; auto; try discriminate;
             intros _; destruct (fa_kw fa) as [[|]|]; destruct kw; simpl; reflexivity.
      * simpl in Hpy, H7. destruct seen; [discriminate|].
        simpl. apply (IH true true own Hpy); auto.
    + simpl in *. apply (IH kw seen own Hpy); auto.
    + simpl in H7. discriminate.
Qed.

Definition clean47 (t : table) (b : cls) : Prop := hw_assigns b = false /\ g7_scan (c_body b) = false.

Lemma own_all_S : forall t b own, decorated b = true -> py_own t b = Some own -> clean47 t b -> Forall2 Sh (g_own_all b) own.
Proof.
  intros t b own Hd Hown [H4 H7]. unfold g_own_all, py_own, decorated in *.
  destruct (c_dec b) as [d|]; [|discriminate].
  assert (Hb : g_body b = c_body b).
  { unfold g_body, hw_assigns in *. destruct (c_hw b) as [[|n l]|]; simpl; try discriminate; apply app_nil_r. }
  rewrite Hb. eapply scan_all_S; eauto.
Qed.

Lemma S_key : forall g f, Sh g f -> gkey g = f_name f.
Proof. intros g f [H _]. exact H. Qed.

Lemma final_S : forall l l', Forall2 Sh l l' -> map erase_def (map g_par (filter g_in l)) = map erase_def (map to_param (filter in_init l')).
Proof.
  intros l l' H. induction H as [|x x' l l' [Hk [Hi Hp]] Hl IH]; simpl; auto.
  rewrite Hi. destruct (in_init x') eqn:E; simpl; auto. rewrite IH, (Hp eq_refl). reflexivity.
Qed.

Lemma erase_partition : forall l l', map erase_def l = map erase_def l' ->
  map erase_def (partition_params l) = map erase_def (partition_params l').
Proof.
  intros l l' H. unfold partition_params. rewrite !map_app.
  assert (Hf : forall P : param -> bool, (forall p, P (erase_def p) = P p) -> forall l0, map erase_def (filter P l0) = filter P (map erase_def l0)).
  { intros P HP l0. rewrite filter_map_comm. f_equal. apply filter_ext. intros p. symmetry. apply HP. }
  rewrite !(Hf is_pk), !(Hf is_ko), H by (intros p; reflexivity). reflexivity.
Qed.

(* THE ORDERING THEOREM *)
Theorem order_eq_Acc : forall t e i c,
  py_eval_table t = Some e -> wf_mro t = true -> nth_error t i = Some c ->
  decorated c = true -> c_hw c = None ->
  G4 t c = false -> G7 t c = false ->
  shape_member (gm_init_member Accumulated t i c) = shape_member (py_init_member e i c).
Proof.
  intros t e i c Hev Hwf Hnth Hdec Hhw H4 H7.
  destruct (entry_spec t e Hev i c Hnth) as [_ Hd]. destruct (Hd Hdec) as [own [Hown He]].
  unfold gm_init_member, py_init_member. rewrite Hhw, Hdec, He.
  unfold init_false. unfold decorated in Hdec. destruct (c_dec c) as [d|] eqn:Ed; [|discriminate].
  destruct (opt_is (d_init d) false); [reflexivity|].
  simpl. f_equal. unfold gm_params. rewrite <- partition_py. apply erase_partition.
  set (fl := merge f_name (inherited t (firstn i e) c) own) in *.
  assert (Hnd : NoDup (map f_name fl)) by (apply merge_nodup; apply inherited_nodup).
  rewrite <- (dedup_id f_name fl Hnd). apply final_S. apply (dedup_Q Sh S_key).
  assert (Hdc : decorated c = true) by (unfold decorated; rewrite Ed; reflexivity).
  rewrite <- (Gj_decorated t e i c fl Hnth He).
  apply (accum_Q Sh S_key clean47 own_all_S t e Hev Hwf (S (List.length t)) i c Hnth).
  - assert (i < List.length t) by (apply nth_error_Some; congruence). lia.
  - intros k bk Hk Hbk Hdk.
    assert (Hin : In bk (chain t c)).
    { unfold chain. apply filter_In. split; auto. apply in_or_app. destruct Hk as [Hk|Hk].
      - subst k. rewrite Hnth in Hbk. inversion Hbk. right. left. auto.
      - left. apply -> in_rev. unfold mro_classes. apply in_flat_map. exists k. split; auto. rewrite Hbk. left. auto. }
    split; [apply (existsb_false_forall _ _ H4 bk Hin) | apply (existsb_false_forall _ _ H7 bk Hin)].
Qed.

(* non-vacuity: the F2 witness (required-ness differs) has CPython's names, order and kinds; dia2 as well *)
Example order_F2 : wf_mro w2 = true /\ G4 w2 (cls_at w2 1) = false /\ G7 w2 (cls_at w2 1) = false /\
  gm_init_member Accumulated w2 1 (cls_at w2 1) <> py_init_member (env_of w2) 1 (cls_at w2 1) /\
  shape_member (gm_init_member Accumulated w2 1 (cls_at w2 1)) = Synth [mkp 0 PK false; mkp 1 PK false].
Proof. vm_compute. repeat split; try reflexivity. discriminate. Qed.
