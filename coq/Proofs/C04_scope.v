(* C04 proofs: Griffe's scope walk vs CPython scoping; relative import arithmetic; import bindings; attribute chains. *)
From Coq Require Import List ZArith String Ascii Bool Arith Lia.
From Verif Require Import Lib.Sexp Model.C04_scope.
Import ListNotations.
Open Scope string_scope.
Open Scope list_scope.
Open Scope nat_scope.

(* ---------------------------------------------------------------- strings *)
Lemma sapp_assoc : forall a b c : string, (a +++ b) +++ c = a +++ (b +++ c).
Proof. induction a as [|ch a IH]; intros; simpl; [reflexivity | now rewrite IH]. Qed.
Lemma sapp_nil_l : forall a : string, "" +++ a = a.
Proof. reflexivity. Qed.

(* ---------------------------------------------------------------- small facts *)
Lemma disjoint_mem : forall ps ms n, disjoint ps ms = true -> lookup n ms <> None -> mem n ps = false.
Proof.
  induction ps as [|p r IH]; intros ms n Hd Hl; simpl in *; [reflexivity|].
  apply andb_true_iff in Hd as [Hp Hr].
  destruct (String.eqb_spec p n) as [->|Hne]; simpl.
  - destruct (lookup n ms); [discriminate | congruence].
  - eapply IH; eauto.
Qed.

Lemma g_bind_nonfunction : forall f rest n, is_function f = false ->
  g_bind f rest n = match lookup n (fmembers f) with Some m => Some (member_path (f :: rest) n m) | None => None end.
Proof. intros f rest n H. unfold g_bind. now rewrite H. Qed.

Lemma py_bind_nonfunction : forall f rest n, is_function f = false ->
  py_bind f rest n = match lookup n (fmembers f) with Some m => Some (member_path (f :: rest) n m) | None => None end.
Proof. intros f rest n H. unfold py_bind. now rewrite H. Qed.

(* on the frames the visitor builds, Function.resolve's parameter rule is CPython's "parameters are locals" *)
Lemma g_bind_py_bind : forall f rest n, frame_ok f rest = true -> g_bind f rest n = py_bind f rest n.
Proof.
  intros f rest n Hok. unfold g_bind, py_bind, frame_ok, is_function in *.
  destruct (fkind f); try reflexivity.
  repeat (apply andb_true_iff in Hok as [Hok ?]).
  rewrite Hok. destruct rest; [discriminate|]. reflexivity.
Qed.

Lemma resolve_untagged : forall c n inner,
  resolve c n = option_map fst (resolve_tagged inner c n).
Proof.
  induction c as [|f rest IH]; intros n inner; simpl; [reflexivity|].
  destruct (g_bind f rest n); [reflexivity|].
  destruct (is_module f); [reflexivity|].
  destruct rest as [|g r]; [reflexivity|].
  destruct (String.eqb n (fname g) && negb (is_module g)); [reflexivity|].
  apply IH.
Qed.

Lemma path_of_cons : forall f g r, path_of (f :: g :: r) = path_of (g :: r) +++ "." +++ fname f.
Proof. reflexivity. Qed.

(* ---------------------------------------------------------------- the walk agrees with CPython where it stops at a
   scope CPython consults, and finds nothing only if CPython finds nothing *)
Definition agrees (inner : bool) (c : chain) (n : string) : Prop :=
  match resolve_tagged inner c n with
  | Some (p, TOk) => py_scan inner c n = Some p
  | Some (_, _) => True
  | None => py_scan inner c n = None
  end.

Lemma own_name_python : forall g h r' n,
  wf_chain (g :: h :: r') = true -> is_module g = false -> is_class h = false -> n = fname g ->
  py_scan false (g :: h :: r') n = Some (path_of (g :: h :: r')).
Proof.
  intros g h r' n Hwf Hgm Hhc ->.
  simpl in Hwf. apply andb_true_iff in Hwf as [Hg Hrest]. apply andb_true_iff in Hrest as [Hh _].
  unfold frame_ok in Hg. unfold is_module in Hgm. unfold is_class in Hhc.
  destruct (fkind g) eqn:Kg; [discriminate| |].
  - (* g is a class: skipped; its parent h is a module or a function and has g registered *)
    unfold registered in Hg.
    destruct (lookup (fname g) (fmembers h)) as [[|t]|] eqn:L; try discriminate.
    change (py_scan false (g :: h :: r') (fname g)) with
      (match fkind g with KModule => py_bind g (h :: r') (fname g)
       | KClass => py_scan false (h :: r') (fname g)
       | KFunction => match py_bind g (h :: r') (fname g) with Some p => Some p | None => py_scan false (h :: r') (fname g) end end).
    rewrite Kg. rewrite path_of_cons.
    assert (Hb : py_bind h r' (fname g) = Some (path_of (h :: r') +++ "." +++ fname g)).
    { unfold py_bind. destruct (is_function h) eqn:Fh.
      - unfold frame_ok in Hh. unfold is_function in Fh. destruct (fkind h); try discriminate.
        repeat (apply andb_true_iff in Hh as [Hh ?]).
        match goal with D : disjoint _ _ = true |- _ => rewrite (disjoint_mem _ _ (fname g) D) by (rewrite L; discriminate) end.
        simpl. now rewrite L.
      - simpl. now rewrite L. }
    simpl. destruct (fkind h) eqn:Kh; [exact Hb | discriminate | now rewrite Hb].
  - (* g is a function: its parent must be a class *)
    repeat (apply andb_true_iff in Hg as [Hg ?]).
    match goal with X : (is_class h && registered g h) = true |- _ => apply andb_true_iff in X as [X _]; unfold is_class in X; rewrite X in Hhc end.
    destruct (fkind h); discriminate.
Qed.

Lemma walk_agrees : forall c n inner, wf_chain c = true -> agrees inner c n.
Proof.
  induction c as [|f rest IH]; intros n inner Hwf; unfold agrees; [reflexivity|].
  pose proof Hwf as Hwf0.
  simpl in Hwf. apply andb_true_iff in Hwf as [Hf Hrest].
  pose proof (g_bind_py_bind f rest n Hf) as GB.
  simpl resolve_tagged.
  destruct (g_bind f rest n) as [p|] eqn:G.
  - (* answered by f itself *)
    simpl. unfold is_class. destruct (fkind f) eqn:Kf; simpl.
    + now rewrite <- GB.
    + destruct inner; simpl; [now rewrite <- GB | exact I].
    + now rewrite <- GB.
  - symmetry in GB.
    destruct (is_module f) eqn:Mf.
    + (* the nearest module ends the walk, as it ends CPython's static scopes *)
      unfold is_module in Mf. simpl. simpl in GB. destruct (fkind f); try discriminate. exact GB.
    + destruct rest as [|g r].
      * simpl. rewrite GB. destruct (fkind f); destruct inner; reflexivity.
      * destruct (String.eqb n (fname g) && negb (is_module g)) eqn:O.
        -- (* name == self.parent.name and the parent is not a module *)
           apply andb_true_iff in O as [On Og]. apply String.eqb_eq in On. apply negb_true_iff in Og.
           destruct r as [|h r']; [exact I|].
           destruct (is_class h) eqn:Ch; [exact I|].
           assert (Hstep : py_scan inner (f :: g :: h :: r') n = py_scan false (g :: h :: r') n).
           { unfold is_module in Mf. simpl. simpl in GB. rewrite GB.
             destruct (fkind f); [discriminate | destruct inner; reflexivity | reflexivity]. }
           rewrite Hstep. apply own_name_python; auto.
        -- specialize (IH n false Hrest). unfold agrees in IH.
           assert (Hstep : py_scan inner (f :: g :: r) n = py_scan false (g :: r) n).
           { unfold is_module in Mf. simpl. simpl in GB. rewrite GB.
             destruct (fkind f); [discriminate | destruct inner; reflexivity | reflexivity]. }
           rewrite Hstep. exact IH.
Qed.

Theorem resolve_eq_python_modulo_known : forall c n,
  wf_chain c = true -> gap_class c n = false ->
  resolve c n = py_lookup c n.
Proof.
  intros c n Hwf G1.
  pose proof (walk_agrees c n true Hwf) as A. unfold agrees in A.
  rewrite (resolve_untagged c n true). unfold py_lookup.
  unfold gap_class, tag_of in *.
  destruct (resolve_tagged true c n) as [[p t]|]; simpl in *.
  - destruct t; try discriminate. now rewrite A.
  - now rewrite A.
Qed.

Theorem canonical_eq_python_modulo_known : forall local c n,
  wf_chain c = true -> gap_class c n = false -> gap_local local c n = false ->
  canonical c n = py_canonical local c n.
Proof.
  intros local c n Hwf G1 G3.
  unfold canonical, py_canonical, gap_local in *.
  rewrite <- (resolve_eq_python_modulo_known c n Hwf G1).
  destruct local; simpl in *; [|reflexivity].
  destruct (resolve c n); [discriminate | reflexivity].
Qed.

(* ---------------------------------------------------------------- refutations (witnesses replayed on the implementation) *)
Definition w_m  := mkFrame KModule "m" [("x", MObj); ("A", MObj)] [].
Definition w_A  := mkFrame KClass "A" [("x", MObj); ("B", MObj)] [].
Definition w_B  := mkFrame KClass "B" [("y", MObj)] [].
Lemma outer_class_leak_refuted :
  exists c n, wf_chain c = true /\ resolve c n <> py_lookup c n.
Proof. exists [w_B; w_A; w_m], "x". split; [reflexivity|]. vm_compute. discriminate. Qed.

Example outer_class_leak_values :
  resolve [w_B; w_A; w_m] "x" = Some "m.A.x" /\ py_lookup [w_B; w_A; w_m] "x" = Some "m.x" /\ gap_class [w_B; w_A; w_m] "x" = true.
Proof. vm_compute. repeat split. Qed.

Definition w_init := mkFrame KFunction "__init__" [] ["self"; "p"].
Definition w_A2 := mkFrame KClass "A" [("x", MObj); ("__init__", MObj)] [].
Lemma method_body_leak_refuted :
  exists c n, wf_chain c = true /\ resolve c n <> py_lookup c n.
Proof. exists [w_init; w_A2; w_m], "x". split; [reflexivity|]. vm_compute. discriminate. Qed.

Definition w_pkg := mkFrame KModule "pkg" [("X", MObj); ("m", MObj)] [].
Definition w_sub := mkFrame KModule "m" [("y", MObj)] [].
(* a module is the last scope consulted: it answers from its own members or raises (C04-F2 repaired) *)
Theorem module_is_last_scope : forall f rest n, is_module f = true ->
  resolve (f :: rest) n = match lookup n (fmembers f) with Some m => Some (member_path (f :: rest) n m) | None => None end.
Proof.
  intros f rest n H. simpl. rewrite g_bind_nonfunction by (unfold is_module, is_function in *; destruct (fkind f); congruence).
  destruct (lookup n (fmembers f)); [reflexivity|]. now rewrite H.
Qed.

(* the former witness of C04-F2 (repaired): the parent package is no longer consulted *)
Example parent_package_not_in_scope :
  resolve [w_sub; w_pkg] "X" = None /\ py_lookup [w_sub; w_pkg] "X" = None /\ canonical [w_sub; w_pkg] "X" = "X".
Proof. vm_compute. repeat split. Qed.

Lemma local_binder_refuted :
  exists c n, wf_chain c = true /\ gap_class c n = false /\ canonical c n <> py_canonical true c n.
Proof. exists [w_m], "x". repeat split; try reflexivity. vm_compute. discriminate. Qed.

(* the hypotheses of the modulo-known theorem are satisfiable with a non-trivial answer at every kind of frame *)
Example modulo_known_nonvacuous_class :
  wf_chain [w_B; w_A; w_m] = true /\ gap_class [w_B; w_A; w_m] "A" = false
  /\ resolve [w_B; w_A; w_m] "A" = Some "m.A".
Proof. vm_compute. repeat split. Qed.
Example modulo_known_nonvacuous_param :
  wf_chain [w_init; w_A2; w_m] = true /\ gap_class [w_init; w_A2; w_m] "p" = false /\ resolve [w_init; w_A2; w_m] "p" = Some "m.A(p)"
  /\ py_lookup [w_init; w_A2; w_m] "p" = Some "m.A(p)".
Proof. vm_compute. repeat split. Qed.

(* ---------------------------------------------------------------- totality / justification *)
Lemma justified_cons : forall f c n p, justified c n p -> justified (f :: c) n p.
Proof.
  intros f c n p H. inversion H; subst; rewrite app_comm_cons.
  - now apply JMember.
  - now apply JAlias.
  - now apply JParam.
  - now apply JOwnName.
Qed.

Lemma g_bind_justified : forall f rest n p, g_bind f rest n = Some p -> justified (f :: rest) n p.
Proof.
  intros f rest n p H. unfold g_bind in H.
  destruct (is_function f && nonempty rest && String.eqb (fname f) "__init__" && mem n (fparams f)) eqn:E.
  - inversion H; subst. repeat (apply andb_true_iff in E as [E ?]).
    apply (JParam [] f rest n); auto.
    + now apply String.eqb_eq.
    + destruct rest; [discriminate | discriminate].
  - destruct (lookup n (fmembers f)) as [[|t]|] eqn:L.
    + inversion H; subst p. now apply (JMember [] f rest n).
    + inversion H; subst p. now apply (JAlias [] f rest n t).
    + discriminate.
Qed.

Theorem resolve_justified : forall c n p, resolve c n = Some p -> justified c n p.
Proof.
  induction c as [|f rest IH]; intros n p H; simpl in H; [discriminate|].
  destruct (g_bind f rest n) eqn:G.
  - inversion H; subst. now apply g_bind_justified.
  - destruct (is_module f); [discriminate|].
    destruct rest as [|g r]; [discriminate|].
    destruct (String.eqb n (fname g) && negb (is_module g)) eqn:O.
    + inversion H; subst. apply andb_true_iff in O as [On Og].
      apply String.eqb_eq in On. apply negb_true_iff in Og.
      apply (JOwnName [f] g r n); auto.
    + apply justified_cons. now apply IH.
Qed.

Lemma g_bind_none_lookup : forall f rest n, g_bind f rest n = None -> lookup n (fmembers f) = None.
Proof.
  intros f rest n H. unfold g_bind in H.
  destruct (is_function f && nonempty rest && String.eqb (fname f) "__init__" && mem n (fparams f)); [discriminate|].
  destruct (lookup n (fmembers f)); [discriminate | reflexivity].
Qed.

Lemma resolve_none_unbound : forall c n, resolve c n = None -> unbound c n.
Proof.
  unfold unbound.
  induction c as [|f rest IH]; intros n H g Hin; [destruct Hin|].
  simpl in H. destruct (g_bind f rest n) eqn:G; [discriminate|].
  simpl in Hin. destruct (is_module f) eqn:Mf.
  - destruct Hin as [<-|[]]. eapply g_bind_none_lookup; eauto.
  - destruct Hin as [<-|Hin]; [eapply g_bind_none_lookup; eauto|].
    destruct rest as [|g0 r]; [destruct Hin|].
    destruct (String.eqb n (fname g0) && negb (is_module g0)); [discriminate|].
    now apply (IH n H).
Qed.

(* every call ends with a path some definition/import/parameter on the parent chain justifies, or with the (caught)
   NameResolutionError, and the latter only when no scope on the chain binds the name *)
Theorem resolve_total : forall c n,
  (exists p, resolve c n = Some p /\ justified c n p /\ canonical c n = p) \/
  (resolve c n = None /\ unbound c n /\ canonical c n = n).
Proof.
  intros c n. unfold canonical. destruct (resolve c n) as [p|] eqn:R.
  - left. exists p. repeat split; auto. now apply resolve_justified.
  - right. repeat split; auto. now apply resolve_none_unbound.
Qed.

(* names nothing binds (builtins, unknown names) come back unchanged *)
Theorem unknown_unchanged : forall c n,
  (forall f, In f c -> lookup n (fmembers f) = None /\ mem n (fparams f) = false /\ fname f <> n) ->
  resolve c n = None /\ canonical c n = n.
Proof.
  intros c n H. assert (R : resolve c n = None).
  { induction c as [|f rest IH]; [reflexivity|]. simpl.
    destruct (H f (or_introl eq_refl)) as (L & P & _).
    unfold g_bind. rewrite L, P. rewrite andb_false_r.
    destruct (is_module f); [reflexivity|].
    destruct rest as [|g r]; [reflexivity|].
    destruct (H g (or_intror (or_introl eq_refl))) as (_ & _ & Ng).
    destruct (String.eqb_spec n (fname g)); [congruence|]. simpl.
    apply IH. intros f0 Hin. apply H. now right. }
  split; [exact R|]. unfold canonical. now rewrite R.
Qed.

(* ---------------------------------------------------------------- attribute chains *)
Lemma last_snoc : forall {A} (l : list A) (x d : A), List.last (l ++ [x]) d = x.
Proof. induction l as [|a l IH]; intros; simpl; [reflexivity|]. destruct (l ++ [x]) eqn:E; [destruct l; discriminate|]. rewrite <- E. apply IH. Qed.

Lemma dotted_snoc : forall root segs a, dotted_from root (segs ++ [a]) = dotted_from root segs +++ "." +++ a.
Proof. intros. unfold dotted_from. now rewrite fold_left_app. Qed.

Theorem attribute_chain_segmentwise : forall c x,
  attr_canonical c x = dotted_from (canonical c (aroot x)) (asegs x).
Proof.
  intros c x. unfold attr_canonical. induction x as [n|v IH a]; [reflexivity|].
  simpl build_attr. unfold last_e in *. rewrite last_snoc. simpl e_canonical. rewrite IH.
  simpl asegs. now rewrite dotted_snoc.
Qed.

Lemma build_attr_length : forall x, List.length (build_attr x) = S (List.length (asegs x)).
Proof. induction x as [n|v IH a]; simpl; [reflexivity|]. rewrite !app_length, IH. simpl. lia. Qed.

(* each ExprName of the chain (position k) canonicalises to the root's resolution followed by the first k segments *)
Theorem attribute_chain_prefixes : forall c x k e,
  nth_error (build_attr x) k = Some e ->
  e_canonical c e = dotted_from (canonical c (aroot x)) (firstn k (asegs x)).
Proof.
  intros c x. induction x as [n|v IH a]; intros k e H.
  - destruct k as [|k]; simpl in H; [inversion H; reflexivity | destruct k; discriminate].
  - simpl build_attr in H. simpl asegs. simpl aroot.
    destruct (Nat.lt_ge_cases k (List.length (build_attr v))) as [Hlt|Hge].
    + rewrite nth_error_app1 in H by exact Hlt.
      rewrite firstn_app. rewrite build_attr_length in Hlt.
      replace (k - List.length (asegs v)) with 0 by lia. simpl firstn. rewrite app_nil_r.
      now apply IH.
    + rewrite nth_error_app2 in H by exact Hge.
      destruct (k - List.length (build_attr v)) as [|j] eqn:Ek; simpl in H; [|destruct j; discriminate].
      inversion H; subst e. simpl e_canonical.
      pose proof (attribute_chain_segmentwise c v) as HS. unfold attr_canonical in HS. rewrite HS.
      assert (k = S (List.length (asegs v))) by (rewrite build_attr_length in *; lia). subst k.
      rewrite firstn_all2 by (rewrite app_length; simpl; lia).
      rewrite dotted_snoc. reflexivity.
Qed.

(* ---------------------------------------------------------------- relative imports *)
Lemma walk_up_skipn : forall l m, S l <= List.length m -> walk_up l m = skipn l m.
Proof.
  induction l as [|l IH]; intros m H.
  - destruct m; reflexivity.
  - destruct m as [|x [|y r]]; simpl in *; try lia. apply IH. simpl. lia.
Qed.

Lemma rel_base_eq : forall level mrev is_init,
  1 <= level -> level <= List.length (package_rev mrev is_init) ->
  griffe_base level mrev is_init = skipn (pred level) (package_rev mrev is_init).
Proof.
  intros level mrev is_init L1 L2. unfold griffe_base, package_rev in *.
  assert (Hl : (0 <? level) = true) by (apply Nat.ltb_lt; lia). rewrite Hl.
  destruct is_init.
  - destruct mrev as [|x [|y r]]; simpl in *; try lia.
    + apply walk_up_skipn. simpl. lia.
    + apply walk_up_skipn. simpl. lia.
  - destruct mrev as [|x [|y r]]; simpl in *; try lia.
    rewrite walk_up_skipn by (simpl; lia).
    destruct level; [lia|]. reflexivity.
Qed.

Theorem relative_to_absolute_eq_cpython : forall level mrev is_init module name p,
  cpython_from_target level mrev is_init module name = Some p ->
  relative_to_absolute level mrev is_init module name = p.
Proof.
  intros level mrev is_init module name p H.
  unfold cpython_from_target, relative_to_absolute in *.
  destruct (level =? 0) eqn:E0.
  - apply Nat.eqb_eq in E0. subst level. simpl. now inversion H.
  - apply Nat.eqb_neq in E0.
    unfold cpython_base in H. rewrite (proj2 (Nat.eqb_neq _ _) E0) in H. simpl in H.
    destruct (List.length (package_rev mrev is_init) <? level) eqn:E1; [discriminate|].
    apply Nat.ltb_ge in E1. inversion H; subst p.
    assert (Hl : (0 <? level) = true) by (apply Nat.ltb_lt; lia). rewrite Hl.
    rewrite rel_base_eq by lia. now rewrite sapp_assoc.
Qed.

(* the domain of the previous theorem: every level from 1 up to the number of enclosing packages, both module kinds *)
Theorem relative_in_domain : forall level mrev is_init module name,
  1 <= level -> level <= List.length (package_rev mrev is_init) ->
  exists p, cpython_from_target level mrev is_init module name = Some p.
Proof.
  intros level mrev is_init module name L1 L2. unfold cpython_from_target, cpython_base.
  destruct (level =? 0) eqn:E0; [apply Nat.eqb_eq in E0; lia|]. simpl.
  destruct (List.length (package_rev mrev is_init) <? level) eqn:E1; [apply Nat.ltb_lt in E1; lia|].
  eauto.
Qed.

(* beyond the top-level package CPython raises ImportError; Griffe clamps at the top package and returns a path *)
Example relative_beyond_top :
  cpython_from_target 3 ["m"; "pkg"] false None "x" = None /\ relative_to_absolute 3 ["m"; "pkg"] false None "x" = "pkg.x".
Proof. vm_compute. split; reflexivity. Qed.
Example relative_examples :
  relative_to_absolute 1 ["pkg"] true None "x" = "pkg.x" /\
  relative_to_absolute 2 ["sub"; "pkg"] true (Some "m") "y" = "pkg.m.y" /\
  relative_to_absolute 2 ["c"; "sub"; "pkg"] false (Some "m") "y" = "pkg.m.y" /\
  cpython_from_target 2 ["c"; "sub"; "pkg"] false (Some "m") "y" = Some "pkg.m.y".
Proof. vm_compute. repeat split. Qed.

(* ---------------------------------------------------------------- import statements *)
Theorem import_binding_eq_cpython : forall comps asname,
  comps <> [] -> visit_import comps asname = cpython_import comps asname.
Proof.
  intros comps asname H. unfold visit_import, cpython_import.
  destruct asname; [reflexivity|]. destruct comps as [|x r]; [congruence|]. reflexivity.
Qed.

Theorem importfrom_binding_eq_cpython : forall mrev is_init scope level module name asname a p,
  cpython_importfrom mrev is_init level module name asname = Some (a, p) ->
  match visit_importfrom mrev is_init scope level module name asname with
  | FAlias a' p' => a' = a /\ p' = p
  | FImportsOnly a' p' => a' = a /\ p' = p /\ p = scope +++ "." +++ a
  | FSkip => a = name /\ p = join_dots (rev mrev) +++ "." +++ name /\ is_init = true
  end.
Proof.
  intros mrev is_init scope level module name asname a p H.
  unfold cpython_importfrom in H. unfold visit_importfrom.
  set (no_module := match module with None => true | Some s => String.eqb s "" end) in *.
  set (no_asname := match asname with None => true | Some s => String.eqb s "" end) in *.
  set (module' := match module with Some s => if String.eqb s "" then None else Some s | None => None end) in *.
  assert (Hm : (if no_module then None else module) = module').
  { unfold no_module, module'. destruct module as [s|]; [destruct (String.eqb s "")|]; reflexivity. }
  set (alias_name := match asname with Some a0 => if String.eqb a0 "" then name else a0 | None => name end) in *.
  assert (Ha : (if no_asname then name else match asname with Some a0 => a0 | None => name end) = alias_name).
  { unfold no_asname, alias_name. destruct asname as [s|]; [destruct (String.eqb s "")|]; reflexivity. }
  destruct (cpython_from_target level mrev is_init module' name) as [q|] eqn:T; [|discriminate].
  inversion H; subst a p. clear H.
  destruct (no_module && (level =? 1) && no_asname && is_init) eqn:HS.
  - apply andb_true_iff in HS as [HS Hi]. apply andb_true_iff in HS as [HS Hna]. apply andb_true_iff in HS as [Hnm Hl].
    apply Nat.eqb_eq in Hl. subst level.
    assert (Hm' : module' = None) by (rewrite <- Hm; now rewrite Hnm).
    assert (Ha' : alias_name = name) by (rewrite <- Ha; now rewrite Hna).
    subst is_init. repeat split; auto.
    rewrite Hm' in T. unfold cpython_from_target, cpython_base, package_rev in T. simpl in T.
    destruct (List.length mrev <? 1); [discriminate|]. now inversion T.
  - rewrite Hm, Ha. rewrite (relative_to_absolute_eq_cpython _ _ _ _ _ _ T).
    destruct (String.eqb_spec q (scope +++ "." +++ alias_name)); repeat split; auto.
Qed.
