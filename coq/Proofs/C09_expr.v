(* C09 -- every expression the table describes is serialised into a document of the expression grammar
   (one object shape per class: its fields, then "cls"). *)
From Coq Require Import List ZArith String Ascii Bool Arith Lia.
From Verif Require Import Lib.Sexp Model.C09_json Gen.C09_exprs Model.C09_expr Proofs.C09_schema Proofs.C09_mem.
Import ListNotations.
Open Scope string_scope.
Open Scope list_scope.
Open Scope nat_scope.

Lemma lookup_nodup_in : forall A k (v : A) l, nodup_str (map fst l) = true -> In (k, v) l -> lookup k l = Some v.
Proof.
  induction l as [|[k' v'] l IH]; intros Hn Hin; [destruct Hin|]. simpl in *.
  apply andb_true_iff in Hn. destruct Hn as [Hk Hn].
  destruct Hin as [E|Hin].
  - inversion E; subst. now rewrite String.eqb_refl.
  - destruct (String.eqb k k') eqn:Ek.
    + apply String.eqb_eq in Ek. subst k'. apply negb_true_iff in Hk.
      assert (X : str_in k (map fst l) = true) by (apply str_in_In; apply in_map_iff; exists (k, v); auto). congruence.
    + now apply IH.
Qed.

Lemma expr_table_ok_holds : expr_table_ok = true.
Proof. vm_compute. reflexivity. Qed.

Lemma class_fields_nodup : forall cls spec, lookup cls expr_table = Some spec -> nodup_str (map fst spec ++ ["cls"]) = true.
Proof.
  intros cls spec L. pose proof expr_table_ok_holds as T. unfold expr_table_ok in T. apply andb_true_iff in T. destruct T as [T _].
  rewrite forallb_forall in T. exact (T (cls, spec) (lookup_In _ _ _ _ L)).
Qed.

(* ---------- induction principle for the nested type ---------- *)

Section FvalInd.
  Variable P : fval -> Prop.
  Hypothesis Hn : P FNone.
  Hypothesis Hs : forall s, P (FStr s).
  Hypothesis Hb : forall b, P (FBool b).
  Hypothesis Hi : forall z, P (FInt z).
  Hypothesis Hl : forall l, Forall P l -> P (FList l).
  Hypothesis He : forall cls vals, Forall P vals -> P (FExpr cls vals).

  Fixpoint fval_ind' (v : fval) : P v :=
    match v with
    | FNone => Hn
    | FStr s => Hs s
    | FBool b => Hb b
    | FInt z => Hi z
    | FList l => Hl l ((fix go (l : list fval) : Forall P l :=
                          match l with [] => Forall_nil _ | x :: r => Forall_cons x (fval_ind' x) (go r) end) l)
    | FExpr cls vals => He cls vals ((fix go (l : list fval) : Forall P l :=
                                        match l with [] => Forall_nil _ | x :: r => Forall_cons x (fval_ind' x) (go r) end) vals)
    end.
End FvalInd.

(* the field check of fval_ok, named *)
Fixpoint fields_ok (vals : list fval) (spec : list (string * fkind)) : bool :=
  match vals, spec with
  | [], [] => true
  | v :: vals', (_, k) :: spec' => kind_matches k v && fval_ok v && fields_ok vals' spec'
  | _, _ => false
  end.

Lemma fval_ok_expr : forall cls vals,
  fval_ok (FExpr cls vals) = match lookup cls expr_table with Some spec => fields_ok vals spec | None => false end.
Proof.
  intros cls vals. cbn [fval_ok]. destruct (lookup cls expr_table) as [spec|]; reflexivity.
Qed.

Lemma fields_ok_length : forall vals spec, fields_ok vals spec = true -> List.length (map fst spec) = List.length (map enc_fval vals).
Proof.
  induction vals as [|v vals IH]; intros [|[n k] spec] H; simpl in *; try discriminate; [reflexivity|].
  apply andb_true_iff in H. destruct H as [_ H]. f_equal. now apply IH.
Qed.

Section ExprMem.
  Variable G : grammar.
  Hypothesis HG : lookup expr_nt G = Some sh_expression.

  Definition Pf (v : fval) : Prop :=
    fval_ok v = true -> forall k, kind_matches k v = true -> M G (sh_field k) (enc_fval v).

  Lemma fields_entries : forall vals spec, Forall Pf vals -> fields_ok vals spec = true ->
    Forall (fun kv => exists k, In (fst kv, k) spec /\ M G (sh_field k) (snd kv)) (combine (map fst spec) (map enc_fval vals)).
  Proof.
    induction vals as [|v vals IH]; intros [|[n k] spec] HP H; simpl in *; try discriminate; [constructor|].
    apply andb_true_iff in H. destruct H as [H H3]. apply andb_true_iff in H. destruct H as [H1 H2].
    inversion HP as [|x l P1 P2]; subst. constructor.
    - exists k. split; [now left|]. now apply P1.
    - eapply Forall_impl; [|apply IH; eauto]. intros [a b] [k' [Hin Hm]]. exists k'. split; [now right|assumption].
  Qed.

  Theorem M_fval : forall v, Pf v.
  Proof.
    induction v as [| s | b | z | l IH | cls vals IH] using fval_ind'; intros Hok k Hk.
    - destruct k; [|discriminate]. eapply M_union; [left; reflexivity|apply M_null].
    - destruct k; [|discriminate]. eapply M_union; [right; left; reflexivity|apply M_str].
    - destruct k; [|discriminate]. eapply M_union; [right; right; left; reflexivity|]. exists 1. reflexivity.
    - destruct k; [|discriminate]. eapply M_union; [right; right; right; right; left; reflexivity|]. apply M_int.
    - destruct k; [discriminate|]. simpl in Hk, Hok. cbn [sh_field enc_fval].
      apply M_arr. apply Forall_map. rewrite Forall_forall in IH |- *. intros x Hin.
      rewrite forallb_forall in Hk, Hok. apply (IH x Hin (Hok x Hin) FScalar). specialize (Hk x Hin). now destruct x.
    - destruct k; [|discriminate]. rewrite fval_ok_expr in Hok.
      destruct (lookup cls expr_table) as [spec|] eqn:L; [|discriminate].
      cbn [sh_field]. eapply M_union; [right; right; right; left; reflexivity|].
      eapply M_ref; [exact HG|]. unfold sh_expression.
      apply M_union with (a := sh_expr_class (cls, spec)); [apply in_map; eapply lookup_In; eauto|].
      cbn [enc_fval]. unfold field_names. rewrite L. unfold sh_expr_class. cbn [fst snd].
      pose proof (class_fields_nodup cls spec L) as ND.
      set (fs := map (fun f : string * fkind => (fst f, (true, sh_field (snd f)))) spec ++ [("cls", (true, ShLit cls))]).
      assert (NDfs : nodup_str (map fst fs) = true).
      { unfold fs. rewrite map_app, map_map. simpl. exact ND. }
      apply M_obj.
      + apply Forall_app. split.
        * eapply Forall_impl; [|apply fields_entries; eauto].
          intros [a b] [k' [Hin Hm]]. exists true, (sh_field k'). split; [|exact Hm].
          apply lookup_nodup_in; [exact NDfs|]. unfold fs. apply in_or_app. left.
          apply in_map_iff. exists (a, k'). split; [reflexivity|exact Hin].
        * constructor; [|constructor]. exists true, (ShLit cls). split; [|apply M_lit].
          apply lookup_nodup_in; [exact NDfs|]. unfold fs. apply in_or_app. right. now left.
      + apply forallb_forall. intros [n [m sh]] Hin. apply orb_true_iff. right. cbn [fst].
        apply key_in_map_fst. rewrite map_app, map_fst_combine by (now apply fields_ok_length). cbn [map fst].
        assert (X : In n (map fst fs)) by (apply in_map_iff; exists (n, (m, sh)); auto).
        unfold fs in X. rewrite map_app, map_map in X. exact X.
  Qed.

  Corollary expr_in_grammar : forall cls vals, fval_ok (FExpr cls vals) = true -> M G (ShRef expr_nt) (enc_fval (FExpr cls vals)).
  Proof.
    intros cls vals Hok. pose proof (M_fval (FExpr cls vals) Hok FScalar eq_refl) as [h H].
    (* sh_scalar is a union whose only object alternative is the reference *)
    destruct h as [|h]; [discriminate|]. cbn [sh_field sh_scalar mem mem_step] in H.
    cbn [enc_fval] in *. cbn [existsb] in H. rewrite orb_false_r in H.
    destruct h as [|h]; [simpl in H; discriminate|].
    repeat (apply orb_true_iff in H; destruct H as [H|H]); try (simpl in H; discriminate).
    exists (S h). exact H.
  Qed.
End ExprMem.
