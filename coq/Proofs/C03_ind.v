(* C03 proofs, part 0: induction principles for the nested inductive types pyexpr / gexpr (GENERATED text, checked by Coq
   like any other proof), and generic list / string lemmas. *)
From Coq Require Import List ZArith String Ascii Bool Arith Lia.
From Verif Require Import Lib.Sexp Model.C03_ops Gen.C03_tables Model.C03_expr Model.C03_spec.
Import ListNotations.
Open Scope string_scope. Open Scope list_scope. Open Scope nat_scope.

Definition OptP {A} (P : A -> Prop) (o : option A) : Prop := match o with Some x => P x | None => True end.

Section PyInd.
  Variable P : pyexpr -> Prop.
  Hypothesis HPName : forall (id : string) (loc : bool), P (PName id loc).
  Hypothesis HPNum : forall (isint : bool) (r : string), P (PNum isint r).
  Hypothesis HPConst : forall (r : string), P (PConst r).
  Hypothesis HPStr : forall (r : string) (raw : string) (parsed : option pyexpr), OptP P parsed -> P (PStr r raw parsed).
  Hypothesis HPParsed : forall (p : pyexpr), P p -> P (PParsed p).
  Hypothesis HPAttribute : forall (v : pyexpr) (attr : string), P v -> P (PAttribute v attr).
  Hypothesis HPBinOp : forall (l : pyexpr) (op : binop) (r : pyexpr), P l -> P r -> P (PBinOp l op r).
  Hypothesis HPBoolOp : forall (op : boolop) (vs : list pyexpr), Forall P vs -> P (PBoolOp op vs).
  Hypothesis HPUnaryOp : forall (op : unop) (v : pyexpr), P v -> P (PUnaryOp op v).
  Hypothesis HPCompare : forall (l : pyexpr) (ops : list cmpop) (cs : list pyexpr), P l -> Forall P cs -> P (PCompare l ops cs).
  Hypothesis HPCall : forall (f : pyexpr) (args : list pyexpr) (kws : list pyexpr), P f -> Forall P args -> Forall P kws -> P (PCall f args kws).
  Hypothesis HPKeyword : forall (name : option string) (v : pyexpr), P v -> P (PKeyword name v).
  Hypothesis HPSubscript : forall (v : pyexpr) (lit : bool) (sl : pyexpr), P v -> P sl -> P (PSubscript v lit sl).
  Hypothesis HPSlice : forall (lo : option pyexpr) (up : option pyexpr) (st : option pyexpr), OptP P lo -> OptP P up -> OptP P st -> P (PSlice lo up st).
  Hypothesis HPTuple : forall (es : list pyexpr), Forall P es -> P (PTuple es).
  Hypothesis HPList : forall (es : list pyexpr), Forall P es -> P (PList es).
  Hypothesis HPSet : forall (es : list pyexpr), Forall P es -> P (PSet es).
  Hypothesis HPDict : forall (items : list pyexpr), Forall P items -> P (PDict items).
  Hypothesis HPDictItem : forall (k : option pyexpr) (v : pyexpr), OptP P k -> P v -> P (PDictItem k v).
  Hypothesis HPIfExp : forall (b : pyexpr) (t : pyexpr) (o : pyexpr), P b -> P t -> P o -> P (PIfExp b t o).
  Hypothesis HPLambda : forall (po : list pyexpr) (pk : list pyexpr) (vp : option string) (ko : list pyexpr) (vk : option string) (body : pyexpr), Forall P po -> Forall P pk -> Forall P ko -> P body -> P (PLambda po pk vp ko vk body).
  Hypothesis HPParam : forall (name : string) (d : option pyexpr), OptP P d -> P (PParam name d).
  Hypothesis HPNamedExpr : forall (t : pyexpr) (v : pyexpr), P t -> P v -> P (PNamedExpr t v).
  Hypothesis HPStarred : forall (v : pyexpr), P v -> P (PStarred v).
  Hypothesis HPListComp : forall (e : pyexpr) (gens : list pyexpr), P e -> Forall P gens -> P (PListComp e gens).
  Hypothesis HPSetComp : forall (e : pyexpr) (gens : list pyexpr), P e -> Forall P gens -> P (PSetComp e gens).
  Hypothesis HPGeneratorExp : forall (e : pyexpr) (gens : list pyexpr), P e -> Forall P gens -> P (PGeneratorExp e gens).
  Hypothesis HPDictComp : forall (k : pyexpr) (v : pyexpr) (gens : list pyexpr), P k -> P v -> Forall P gens -> P (PDictComp k v gens).
  Hypothesis HPComprehension : forall (t : pyexpr) (it : pyexpr) (ifs : list pyexpr) (a : bool), P t -> P it -> Forall P ifs -> P (PComprehension t it ifs a).
  Hypothesis HPJoinedStr : forall (vs : list pyexpr), Forall P vs -> P (PJoinedStr vs).
  Hypothesis HPFormattedValue : forall (v : pyexpr) (conv : Z) (spec : option pyexpr), P v -> OptP P spec -> P (PFormattedValue v conv spec).
  Hypothesis HPYield : forall (v : option pyexpr), OptP P v -> P (PYield v).
  Hypothesis HPYieldFrom : forall (v : pyexpr), P v -> P (PYieldFrom v).
  Hypothesis HPAwait : forall (v : pyexpr), P v -> P (PAwait v).

  Fixpoint pyexpr_ind' (e : pyexpr) : P e :=
    let fl := fix fl (l : list pyexpr) : Forall P l :=
      match l with [] => Forall_nil P | x :: r => Forall_cons x (pyexpr_ind' x) (fl r) end in
    let fo := fun (o : option pyexpr) => match o return OptP P o with Some x => pyexpr_ind' x | None => I end in
    match e with
    | PName id loc => HPName id loc 
    | PNum isint r => HPNum isint r 
    | PConst r => HPConst r 
    | PStr r raw parsed => HPStr r raw parsed (fo parsed)
    | PParsed p => HPParsed p (pyexpr_ind' p)
    | PAttribute v attr => HPAttribute v attr (pyexpr_ind' v)
    | PBinOp l op r => HPBinOp l op r (pyexpr_ind' l) (pyexpr_ind' r)
    | PBoolOp op vs => HPBoolOp op vs (fl vs)
    | PUnaryOp op v => HPUnaryOp op v (pyexpr_ind' v)
    | PCompare l ops cs => HPCompare l ops cs (pyexpr_ind' l) (fl cs)
    | PCall f args kws => HPCall f args kws (pyexpr_ind' f) (fl args) (fl kws)
    | PKeyword name v => HPKeyword name v (pyexpr_ind' v)
    | PSubscript v lit sl => HPSubscript v lit sl (pyexpr_ind' v) (pyexpr_ind' sl)
    | PSlice lo up st => HPSlice lo up st (fo lo) (fo up) (fo st)
    | PTuple es => HPTuple es (fl es)
    | PList es => HPList es (fl es)
    | PSet es => HPSet es (fl es)
    | PDict items => HPDict items (fl items)
    | PDictItem k v => HPDictItem k v (fo k) (pyexpr_ind' v)
    | PIfExp b t o => HPIfExp b t o (pyexpr_ind' b) (pyexpr_ind' t) (pyexpr_ind' o)
    | PLambda po pk vp ko vk body => HPLambda po pk vp ko vk body (fl po) (fl pk) (fl ko) (pyexpr_ind' body)
    | PParam name d => HPParam name d (fo d)
    | PNamedExpr t v => HPNamedExpr t v (pyexpr_ind' t) (pyexpr_ind' v)
    | PStarred v => HPStarred v (pyexpr_ind' v)
    | PListComp e gens => HPListComp e gens (pyexpr_ind' e) (fl gens)
    | PSetComp e gens => HPSetComp e gens (pyexpr_ind' e) (fl gens)
    | PGeneratorExp e gens => HPGeneratorExp e gens (pyexpr_ind' e) (fl gens)
    | PDictComp k v gens => HPDictComp k v gens (pyexpr_ind' k) (pyexpr_ind' v) (fl gens)
    | PComprehension t it ifs a => HPComprehension t it ifs a (pyexpr_ind' t) (pyexpr_ind' it) (fl ifs)
    | PJoinedStr vs => HPJoinedStr vs (fl vs)
    | PFormattedValue v conv spec => HPFormattedValue v conv spec (pyexpr_ind' v) (fo spec)
    | PYield v => HPYield v (fo v)
    | PYieldFrom v => HPYieldFrom v (pyexpr_ind' v)
    | PAwait v => HPAwait v (pyexpr_ind' v)
    end.
End PyInd.
(* ---------- gexpr ---------- *)
Section GInd.
  Variable P : gexpr -> Prop.
  Definition PairP (kv : option gexpr * gexpr) : Prop := OptP P (fst kv) /\ P (snd kv).
  Definition ParP (p : string * pkind * option gexpr) : Prop := OptP P (snd p).
  Hypothesis HGStr : forall s, P (GStr s).
  Hypothesis HGName : forall n p, P (GName n p).
  Hypothesis HGAttribute : forall vs, Forall P vs -> P (GAttribute vs).
  Hypothesis HGBinOp : forall l op r, P l -> P r -> P (GBinOp l op r).
  Hypothesis HGBoolOp : forall op vs, Forall P vs -> P (GBoolOp op vs).
  Hypothesis HGCall : forall f args, P f -> Forall P args -> P (GCall f args).
  Hypothesis HGCompare : forall l ops cs, P l -> Forall P cs -> P (GCompare l ops cs).
  Hypothesis HGComprehension : forall t it conds a, P t -> P it -> Forall P conds -> P (GComprehension t it conds a).
  Hypothesis HGDict : forall items, Forall PairP items -> P (GDict items).
  Hypothesis HGDictComp : forall k v gens, P k -> P v -> Forall P gens -> P (GDictComp k v gens).
  Hypothesis HGFormatted : forall v conv spec, P v -> OptP P spec -> P (GFormatted v conv spec).
  Hypothesis HGGeneratorExp : forall e gens, P e -> Forall P gens -> P (GGeneratorExp e gens).
  Hypothesis HGIfExp : forall b t o, P b -> P t -> P o -> P (GIfExp b t o).
  Hypothesis HGJoinedStr : forall vs, Forall P vs -> P (GJoinedStr vs).
  Hypothesis HGKeyword : forall n v, P v -> P (GKeyword n v).
  Hypothesis HGVarPositional : forall v, P v -> P (GVarPositional v).
  Hypothesis HGVarKeyword : forall v, P v -> P (GVarKeyword v).
  Hypothesis HGLambda : forall params body, Forall ParP params -> P body -> P (GLambda params body).
  Hypothesis HGList : forall es, Forall P es -> P (GList es).
  Hypothesis HGListComp : forall e gens, P e -> Forall P gens -> P (GListComp e gens).
  Hypothesis HGNamedExpr : forall t v, P t -> P v -> P (GNamedExpr t v).
  Hypothesis HGSet : forall es, Forall P es -> P (GSet es).
  Hypothesis HGSetComp : forall e gens, P e -> Forall P gens -> P (GSetComp e gens).
  Hypothesis HGSlice : forall lo up st, OptP P lo -> OptP P up -> OptP P st -> P (GSlice lo up st).
  Hypothesis HGSubscript : forall l s, P l -> P s -> P (GSubscript l s).
  Hypothesis HGTuple : forall es i, Forall P es -> P (GTuple es i).
  Hypothesis HGUnaryOp : forall op v, P v -> P (GUnaryOp op v).
  Hypothesis HGYield : forall v, OptP P v -> P (GYield v).
  Hypothesis HGYieldFrom : forall v, P v -> P (GYieldFrom v).

  Fixpoint gexpr_ind' (g : gexpr) : P g :=
    let fl := fix fl (l : list gexpr) : Forall P l :=
      match l with [] => Forall_nil P | x :: r => Forall_cons x (gexpr_ind' x) (fl r) end in
    let fo := fun (o : option gexpr) => match o return OptP P o with Some x => gexpr_ind' x | None => I end in
    let fd := fix fd (l : list (option gexpr * gexpr)) : Forall PairP l :=
      match l with
      | [] => Forall_nil PairP
      | kv :: r => Forall_cons kv (match kv return PairP kv with (k, v) => conj (fo k) (gexpr_ind' v) end) (fd r)
      end in
    let fp := fix fp (l : list (string * pkind * option gexpr)) : Forall ParP l :=
      match l with
      | [] => Forall_nil ParP
      | p :: r => Forall_cons p (match p return ParP p with (nk, d) => fo d end) (fp r)
      end in
    match g with
    | GStr s => HGStr s
    | GName n p => HGName n p
    | GAttribute vs => HGAttribute vs (fl vs)
    | GBinOp l op r => HGBinOp l op r (gexpr_ind' l) (gexpr_ind' r)
    | GBoolOp op vs => HGBoolOp op vs (fl vs)
    | GCall f args => HGCall f args (gexpr_ind' f) (fl args)
    | GCompare l ops cs => HGCompare l ops cs (gexpr_ind' l) (fl cs)
    | GComprehension t it conds a => HGComprehension t it conds a (gexpr_ind' t) (gexpr_ind' it) (fl conds)
    | GDict items => HGDict items (fd items)
    | GDictComp k v gens => HGDictComp k v gens (gexpr_ind' k) (gexpr_ind' v) (fl gens)
    | GFormatted v conv spec => HGFormatted v conv spec (gexpr_ind' v) (fo spec)
    | GGeneratorExp e gens => HGGeneratorExp e gens (gexpr_ind' e) (fl gens)
    | GIfExp b t o => HGIfExp b t o (gexpr_ind' b) (gexpr_ind' t) (gexpr_ind' o)
    | GJoinedStr vs => HGJoinedStr vs (fl vs)
    | GKeyword n v => HGKeyword n v (gexpr_ind' v)
    | GVarPositional v => HGVarPositional v (gexpr_ind' v)
    | GVarKeyword v => HGVarKeyword v (gexpr_ind' v)
    | GLambda params body => HGLambda params body (fp params) (gexpr_ind' body)
    | GList es => HGList es (fl es)
    | GListComp e gens => HGListComp e gens (gexpr_ind' e) (fl gens)
    | GNamedExpr t v => HGNamedExpr t v (gexpr_ind' t) (gexpr_ind' v)
    | GSet es => HGSet es (fl es)
    | GSetComp e gens => HGSetComp e gens (gexpr_ind' e) (fl gens)
    | GSlice lo up st => HGSlice lo up st (fo lo) (fo up) (fo st)
    | GSubscript l s => HGSubscript l s (gexpr_ind' l) (gexpr_ind' s)
    | GTuple es i => HGTuple es i (fl es)
    | GUnaryOp op v => HGUnaryOp op v (gexpr_ind' v)
    | GYield v => HGYield v (fo v)
    | GYieldFrom v => HGYieldFrom v (gexpr_ind' v)
    end.
End GInd.

(* ---------- strings ---------- *)
Open Scope string_scope.
Lemma sapp_nil_r (s : string) : s ++ "" = s.
Proof. induction s as [|c s IH]; simpl; [reflexivity|rewrite IH; reflexivity]. Qed.

Lemma sapp_assoc (a b c : string) : (a ++ b) ++ c = a ++ (b ++ c).
Proof. induction a as [|x a IH]; simpl; [reflexivity|rewrite IH; reflexivity]. Qed.

Lemma sconcat_app (l1 l2 : list string) : sconcat (l1 ++ l2)%list = sconcat l1 ++ sconcat l2.
Proof.
  unfold sconcat. induction l1 as [|x l IH]; simpl; [reflexivity|]. rewrite IH, sapp_assoc. reflexivity.
Qed.

Lemma sjoin_cons (sep x : string) (l : list string) : l <> [] -> sjoin sep (x :: l) = x ++ sep ++ sjoin sep l.
Proof. destruct l; [congruence|reflexivity]. Qed.

Lemma sjoin_empty_sep (l : list string) : sjoin "" l = sconcat l.
Proof.
  induction l as [|x l IH]; [reflexivity|]. destruct l as [|y l].
  - simpl. rewrite sapp_nil_r. reflexivity.
  - rewrite sjoin_cons by discriminate. rewrite IH. reflexivity.
Qed.

Lemma sjoin_prefix (sep : string) (l : list string) :
  (if is_nil l then "" else sep ++ sjoin sep l) = sconcat (map (String.append sep) l).
Proof.
  induction l as [|x l IH]; [reflexivity|]. destruct l as [|y l].
  - simpl. rewrite sapp_nil_r. reflexivity.
  - rewrite sjoin_cons by discriminate. simpl is_nil in *. cbn [map sconcat fold_right] in *.
    rewrite <- IH. rewrite sapp_assoc. reflexivity.
Qed.

(* a chunk that already contains the separator is two entries *)
Lemma sjoin_glue (sep a b : string) (xs ys : list string) :
  sjoin sep (xs ++ ((a ++ sep ++ b)%string :: ys))%list = sjoin sep (xs ++ a :: b :: ys)%list.
Proof.
  induction xs as [|x xs IH].
  - simpl app. destruct ys as [|y ys].
    + reflexivity.
    + rewrite !sjoin_cons by discriminate. rewrite !sapp_assoc. reflexivity.
  - simpl app. rewrite !sjoin_cons by (destruct xs; discriminate). rewrite IH. reflexivity.
Qed.

Open Scope list_scope. Open Scope nat_scope.
(* ---------- mapo ---------- *)
Lemma mapo_ext {A B} (f g : A -> option B) (l : list A) :
  Forall (fun x => f x = g x) l -> mapo f l = mapo g l.
Proof. induction 1 as [|x l H _ IH]; simpl; [reflexivity|]. rewrite H, IH. reflexivity. Qed.

Lemma mapo_map {A B C} (f : B -> option C) (g : A -> B) (l : list A) :
  mapo f (map g l) = mapo (fun x => f (g x)) l.
Proof. induction l as [|x l IH]; simpl; [reflexivity|]. rewrite IH. reflexivity. Qed.

Lemma mapo_length {A B} (f : A -> option B) (l : list A) (r : list B) :
  mapo f l = Some r -> List.length r = List.length l.
Proof.
  revert r. induction l as [|x l IH]; simpl; intros r H.
  - inversion H. reflexivity.
  - destruct (f x); [|discriminate]. destruct (mapo f l); [|discriminate]. inversion H. simpl. rewrite (IH l0); reflexivity.
Qed.

Lemma mapo_all_some {A B} (f : A -> option B) (g : A -> B) (l : list A) :
  Forall (fun x => f x = Some (g x)) l -> mapo f l = Some (map g l).
Proof. induction 1 as [|x l H _ IH]; simpl; [reflexivity|]. rewrite H, IH. reflexivity. Qed.

Lemma Forall_impl2 {A} (P Q R : A -> Prop) (l : list A) :
  (forall x, P x -> Q x -> R x) -> Forall P l -> Forall Q l -> Forall R l.
Proof.
  intros H HP. induction HP as [|x l Hx _ IH]; intros HQ; [constructor|].
  inversion HQ; subst. constructor; auto.
Qed.

Lemma forallb_Forall {A} (f : A -> bool) (l : list A) : forallb f l = true <-> Forall (fun x => f x = true) l.
Proof.
  induction l as [|x l IH]; simpl; split; intros H; try constructor; auto.
  - apply andb_prop in H. tauto.
  - apply IH. apply andb_prop in H. tauto.
  - inversion H; subst. rewrite H2. apply IH. assumption.
Qed.

Lemma flat_map_nil {A B} (f : A -> list B) (l : list A) : flat_map f l = [] <-> Forall (fun x => f x = []) l.
Proof.
  induction l as [|x l IH]; simpl; split; intros H; try constructor; auto.
  - apply app_eq_nil in H. tauto.
  - apply IH. apply app_eq_nil in H. tauto.
  - inversion H; subst. rewrite H2. apply IH. assumption.
Qed.
