(* C18 proofs, part 2: the presented constructor, and the extension as a state machine over any history of
   on_package_loaded events. *)
From Coq Require Import List Arith Bool Lia.
From Verif Require Import Lib.Sexp Model.C18_dataclass Model.C18_session Proofs.C18_dataclass.
Import ListNotations.
Open Scope list_scope. Open Scope nat_scope.

(* ================================================================== (1) the presented constructor *)

Lemma first_init_ext : forall f g l, (forall j, In j l -> f j = g j) -> first_init f l = first_init g l.
Proof.
  intros f g. induction l as [|j r IH]; simpl; intros H; auto.
  rewrite (H j) by auto. destruct (g j); auto.
Qed.

Lemma member_at_eq : forall t e j, py_eval_table t = Some e ->
  (forall b, nth_error t j = Some b -> decorated b = true -> c_hw b = None -> known_gap t e j b = false) ->
  g_member_at t j = py_member_at t e j.
Proof.
  intros t e j Hev H. unfold g_member_at, py_member_at. destruct (nth_error t j) as [b|] eqn:Hb; auto.
  destruct (c_hw b) as [l|] eqn:Hh.
  - destruct (handwritten_init_kept t e j b l Hh) as [-> ->]. reflexivity.
  - destruct (decorated b) eqn:Hd.
    + apply init_eq_cpython_modulo_known; auto.
    + destruct (non_dataclass_untouched t e j b Hd Hh) as [-> ->]. reflexivity.
Qed.

(* Class.parameters = the constructor CPython resolves along __mro__, when every class that can provide it is gap-free *)
Lemma presented_eq_modulo_known : forall t e i c, py_eval_table t = Some e ->
  (forall j b, In j (i :: c_mro c) -> nth_error t j = Some b -> decorated b = true -> c_hw b = None -> known_gap t e j b = false) ->
  g_presented t i c = py_presented t e i c.
Proof.
  intros t e i c Hev H. unfold g_presented, py_presented. apply first_init_ext.
  intros j Hj. apply member_at_eq; [exact Hev|]. intros b Hb Hd Hh. exact (H j b Hj Hb Hd Hh).
Qed.

(* every class of an accepted module has its entry in the environment; a decorated one has a field dictionary *)
Lemma py_eval_entry : forall t e, py_eval_table t = Some e ->
  forall k c, nth_error t k = Some c -> decorated c = true -> exists fl, nth_error e k = Some (Some fl).
Proof.
  intros t e Hev k c Hk Hd. destruct (py_eval_nth t t [] e Hev) as [res [He Hres]]. simpl in He. subst res.
  destruct (Hres k c Hk) as [x [Hx Hs]]. unfold py_step in Hs. unfold decorated in Hd.
  destruct (c_dec c) as [d|]; [|discriminate].
  destruct (py_own t c) as [own|]; [|discriminate].
  destruct (opt_is (d_init d) false || order_ok false (merge f_name (inherited t ([] ++ firstn k e) c) own)); [|discriminate].
  inversion Hs; subst x. eauto.
Qed.

Lemma absent_iff : forall t e j, py_eval_table t = Some e ->
  (g_member_at t j = Absent <-> py_member_at t e j = Absent).
Proof.
  intros t e j Hev. unfold g_member_at, py_member_at. destruct (nth_error t j) as [b|] eqn:Hb; [|tauto].
  unfold g_init_member, py_init_member, init_false. destruct (c_hw b); [split; discriminate|].
  destruct (decorated b) eqn:Hd.
  - destruct (py_eval_entry t e Hev j b Hb Hd) as [fl Hfl]. rewrite Hfl.
    unfold decorated in Hd. destruct (c_dec b) as [d|]; [|discriminate].
    destruct (opt_is (d_init d) false); [tauto|split; discriminate].
  - unfold decorated in Hd. destruct (c_dec b); [discriminate|tauto].
Qed.

(* which class provides the presented constructor never depends on the gaps *)
Lemma presented_provider_eq : forall t e i c, py_eval_table t = Some e ->
  option_map fst (g_presented t i c) = option_map fst (py_presented t e i c).
Proof.
  intros t e i c Hev. unfold g_presented, py_presented. generalize (i :: c_mro c). intros l.
  induction l as [|j r IH]; simpl; auto.
  pose proof (absent_iff t e j Hev) as [H1 H2].
  destruct (g_member_at t j) eqn:Eg; destruct (py_member_at t e j) eqn:Ep; simpl; auto;
    try (specialize (H1 eq_refl); discriminate); try (specialize (H2 eq_refl); discriminate).
Qed.

(* non-vacuity: a diamond whose join inherits the constructor of its SECOND base (the first base is a plain subclass) *)
Definition dia : table :=
  [ mkcls D0 [P0 0] None [];
    mkcls None [] None [0];
    mkcls D0 [P1 1; SAttr 2 AInitVar VPlain] None [0];
    mkcls None [] None [1; 2; 0] ].
Example dia_presented : exists e, py_eval_table dia = Some e /\
  (forall j b, In j (3 :: c_mro (cls_at dia 3)) -> nth_error dia j = Some b -> decorated b = true -> c_hw b = None -> known_gap dia e j b = false) /\
  g_presented dia 3 (cls_at dia 3) = Some (2, Synth [mkp 0 PK false; mkp 1 PK true; mkp 2 PK true]).
Proof.
  exists (env_of dia). split; [reflexivity|]. split; [|reflexivity].
  intros j b Hj Hb Hd _. simpl in Hj.
  destruct Hj as [<-|[<-|[<-|[<-|[]]]]]; vm_compute in Hb; inversion Hb; subst b; vm_compute in Hd |- *; try discriminate; reflexivity.
Qed.

(* ================================================================== (2) the extension as a state machine *)

Lemma lookup_cons : forall {A} k j (v : A) l, lookup k ((j, v) :: l) = if Nat.eqb k j then Some v else lookup k l.
Proof. reflexivity. Qed.

Lemma flat_map_rev_single : forall {A B} (G : A -> list B) l, (forall x, List.length (G x) <= 1) ->
  rev (flat_map G l) = flat_map G (rev l).
Proof.
  intros A B G l HG. induction l as [|x r IH]; simpl; auto.
  rewrite rev_app_distr, IH, flat_map_app. simpl. rewrite app_nil_r. f_equal.
  specialize (HG x). destruct (G x) as [|a [|b q]]; simpl in *; auto; lia.
Qed.

Lemma flat_map_flat_map : forall {A B C} (F : B -> list C) (G : A -> list B) l,
  flat_map F (flat_map G l) = flat_map (fun x => flat_map F (G x)) l.
Proof. intros. induction l as [|x r IH]; simpl; auto. rewrite flat_map_app, IH. reflexivity. Qed.

(* what the loop of _set_dataclass_init collects, stated on indices *)
Definition contrib (t : table) (j : nat) : list param :=
  match nth_error t j with Some b => if decorated b then g_class_params b else [] | None => [] end.

Lemma g_class_params_undec : forall b, decorated b = false -> g_class_params b = [].
Proof. intros b H. unfold g_class_params, decorated in *. destruct (c_dec b); [discriminate|reflexivity]. Qed.

Lemma collect_is_g_collect : forall t j c, nth_error t j = Some c ->
  flat_map (contrib t) (rev (c_mro c) ++ [j]) = g_collect t c.
Proof.
  intros t j c Hj. rewrite flat_map_app. simpl. rewrite app_nil_r. unfold g_collect. f_equal.
  - unfold mro_classes.
    rewrite (flat_map_rev_single (fun j0 => match nth_error t j0 with Some b => [b] | None => [] end)).
    + rewrite flat_map_flat_map. apply flat_map_ext. intros k. unfold contrib.
      destruct (nth_error t k); simpl; auto. rewrite app_nil_r. reflexivity.
    + intros x. destruct (nth_error t x); simpl; lia.
  - unfold contrib. rewrite Hj. destruct (decorated c) eqn:Hd; auto. symmetry. apply g_class_params_undec. auto.
Qed.

Record Inv (t : table) (st : sstate) : Prop := mkInv {
  inv_cache : forall j ps, lookup j (s_cache st) = Some ps -> exists b, nth_error t j = Some b /\ ps = g_class_params b;
  inv_pruned : forall j b, memb j (s_pruned st) = true -> nth_error t j = Some b -> decorated b = true -> lookup j (s_cache st) <> None;
  inv_init : forall j m, lookup j (s_init st) = Some m -> exists c, nth_error t j = Some c /\ c_hw c = None /\ m = g_init_member t c;
  inv_label : forall j, memb j (s_label st) = true -> exists c, nth_error t j = Some c /\ existsb decorated (mro_classes t c) = true
}.

Definition same_rest (a b : sstate) : Prop :=
  s_pruned b = s_pruned a /\ s_init b = s_init a /\ s_label b = s_label a /\ s_processed b = s_processed a.
Definition cache_mono (a b : sstate) : Prop := forall k, lookup k (s_cache a) <> None -> lookup k (s_cache b) <> None.

Lemma same_rest_trans : forall a b c, same_rest a b -> same_rest b c -> same_rest a c.
Proof. unfold same_rest. intros a b c [A1 [A2 [A3 A4]]] [B1 [B2 [B3 B4]]]. repeat split; congruence. Qed.
Lemma same_rest_refl : forall a, same_rest a a.
Proof. unfold same_rest. intros; repeat split; reflexivity. Qed.

Lemma Inv_st0 : forall t, Inv t st0.
Proof. intros t. constructor; simpl; intros; discriminate. Qed.

Lemma params_now_unpruned : forall st j b, memb j (s_pruned st) = false -> params_now st j b = g_class_params b.
Proof. intros st j b H. unfold params_now, live_body, g_class_params. rewrite H. reflexivity. Qed.

Lemma cached_ok : forall t st j b, Inv t st -> nth_error t j = Some b -> decorated b = true ->
  fst (cached st j b) = g_class_params b /\ Inv t (snd (cached st j b)) /\ same_rest st (snd (cached st j b)) /\
  cache_mono st (snd (cached st j b)) /\ lookup j (s_cache (snd (cached st j b))) <> None.
Proof.
  intros t st j b HI Hj Hd. unfold cached. destruct (lookup j (s_cache st)) as [ps|] eqn:El; simpl.
  - destruct (inv_cache t st HI j ps El) as [b' [Hb' Hps]]. rewrite Hj in Hb'. inversion Hb'; subst b'.
    split; [auto|]. split; [auto|]. split; [apply same_rest_refl|]. split; [intros k Hk; exact Hk|]. rewrite El. discriminate.
  - assert (Hnp : memb j (s_pruned st) = false).
    { destruct (memb j (s_pruned st)) eqn:Em; auto. exfalso. apply (inv_pruned t st HI j b Em Hj Hd). auto. }
    rewrite (params_now_unpruned st j b Hnp).
    split; auto. split; [|split; [repeat split; auto|split]].
    + constructor; simpl.
      * intros k ps. destruct (Nat.eqb k j) eqn:E.
        -- apply Nat.eqb_eq in E. subst k. intros H. inversion H. eauto.
        -- apply (inv_cache t st HI).
      * intros k b' Hm Hk Hdk. destruct (Nat.eqb k j); [discriminate|]. apply (inv_pruned t st HI k b'); auto.
      * apply (inv_init t st HI).
      * apply (inv_label t st HI).
    + intros k Hk. simpl. destruct (Nat.eqb k j); [discriminate|auto].
    + rewrite Nat.eqb_refl. discriminate.
Qed.

Lemma collect_ok : forall t l st, Inv t st ->
  fst (collect t st l) = flat_map (contrib t) l /\ Inv t (snd (collect t st l)) /\ same_rest st (snd (collect t st l)) /\
  cache_mono st (snd (collect t st l)) /\
  (forall j b, In j l -> nth_error t j = Some b -> decorated b = true -> lookup j (s_cache (snd (collect t st l))) <> None).
Proof.
  intros t. induction l as [|j r IH]; intros st HI; simpl.
  - split; [reflexivity|]. split; [auto|]. split; [apply same_rest_refl|]. split; [intros k H; exact H|]. intros j b [].
  - unfold contrib at 1. destruct (nth_error t j) as [b|] eqn:Hj.
    + destruct (decorated b) eqn:Hd.
      * destruct (cached_ok t st j b HI Hj Hd) as [Hps [HI1 [Hs1 [Hm1 Hl1]]]].
        destruct (cached st j b) as [ps st1]. simpl in *.
        destruct (IH st1 HI1) as [Hqs [HI2 [Hs2 [Hm2 Hl2]]]].
        destruct (collect t st1 r) as [qs st2]. simpl in *.
        subst ps qs. split; [reflexivity|]. split; [auto|]. split; [eapply same_rest_trans; eauto|].
        split; [intros k Hk; auto|].
        intros k b' [Hk|Hk] Hb' Hd'; [subst k; auto | eapply Hl2; eauto].
      * destruct (IH st HI) as [Hqs [HI2 [Hs2 [Hm2 Hl2]]]]. simpl.
        split; [auto|]. split; [auto|]. split; [auto|]. split; [auto|].
        intros k b' [Hk|Hk] Hb' Hd'; [subst k; congruence | eapply Hl2; eauto].
    + destruct (IH st HI) as [Hqs [HI2 [Hs2 [Hm2 Hl2]]]]. simpl.
      split; [auto|]. split; [auto|]. split; [auto|]. split; [auto|].
      intros k b' [Hk|Hk] Hb' Hd'; [subst k; congruence | eapply Hl2; eauto].
Qed.

(* the class branch of _apply_recursively keeps the invariant ... *)
Lemma memb_cons : forall k j l, memb k (j :: l) = Nat.eqb k j || memb k l.
Proof. reflexivity. Qed.

Definition Done (t : table) (st : sstate) (j : nat) : Prop :=
  forall c, nth_error t j = Some c -> s_member st j c = g_init_member t c /\ s_labelled st j c = g_label t c.

Lemma g_init_member_nohw : forall t c, c_hw c = None ->
  g_init_member t c = if decorated c && negb (init_false c) then Synth (g_reorder (g_collect t c)) else Absent.
Proof.
  intros t c H. unfold g_init_member. rewrite H. destruct (decorated c); simpl; auto. destruct (init_false c); auto.
Qed.

Ltac proj := cbn [s_cache s_pruned s_init s_label s_processed].

Lemma process_spec : forall t st j, Inv t st ->
  Inv t (process t st j) /\ Done t (process t st j) j /\ (forall k, Done t st k -> Done t (process t st j) k) /\
  s_processed (process t st j) = s_processed st.
Proof.
  intros t st j HI. unfold process. destruct (nth_error t j) as [c|] eqn:Hj.
  2:{ split; [auto|]. split; [intros c Hc; congruence|]. split; auto. }
  set (lab := existsb decorated (mro_classes t c)).
  set (sa := if lab then mkst (s_cache st) (s_pruned st) (s_init st) (j :: s_label st) (s_processed st) else st).
  assert (HIa : Inv t sa).
  { unfold sa. destruct lab eqn:El; auto. constructor; proj.
    - apply (inv_cache t st HI). - apply (inv_pruned t st HI). - apply (inv_init t st HI).
    - intros k. rewrite memb_cons. destruct (Nat.eqb k j) eqn:E.
      + apply Nat.eqb_eq in E. subst k. intros _. eauto.
      + simpl. apply (inv_label t st HI). }
  assert (Hsa : s_cache sa = s_cache st /\ s_pruned sa = s_pruned st /\ s_init sa = s_init st /\ s_processed sa = s_processed st).
  { unfold sa. destruct lab; simpl; auto. }
  destruct Hsa as [Hc0 [Hp0 [Hi0 Hpr0]]].
  assert (Hlab_j : memb j (s_label sa) = lab).
  { unfold sa. destruct lab eqn:El; simpl.
    - rewrite Nat.eqb_refl. reflexivity.
    - destruct (memb j (s_label st)) eqn:Em; auto.
      destruct (inv_label t st HI j Em) as [c' [Hc' Hx]]. rewrite Hj in Hc'. inversion Hc'; subst c'. fold lab in Hx. congruence. }
  assert (Hlab_k : forall k, k <> j -> memb k (s_label sa) = memb k (s_label st)).
  { intros k Hk. unfold sa. destruct lab; simpl; auto. apply Nat.eqb_neq in Hk. rewrite Hk. reflexivity. }
  assert (Hkeep_a : forall k, Done t st k -> k <> j -> Done t sa k).
  { intros k HD Hk c' Hc'. destruct (HD c' Hc') as [H1 H2]. unfold s_member, s_labelled in *. rewrite Hi0, (Hlab_k k Hk). auto. }
  destruct (has_init sa j c) eqn:Hh.
  - (* an __init__ is already there: only the label *)
    assert (HDj : Done t sa j).
    { intros c' Hc'. rewrite Hj in Hc'. inversion Hc'; subst c'. split.
      - unfold s_member, has_init in *. destruct (c_hw c) eqn:Ehw.
        + unfold g_init_member. rewrite Ehw. reflexivity.
        + destruct (lookup j (s_init sa)) as [m|] eqn:El; [|discriminate].
          destruct (inv_init t sa HIa j m El) as [c' [Hc'' [_ Hm]]]. rewrite Hj in Hc''. inversion Hc''; subst c'. auto.
      - unfold s_labelled, g_label. rewrite Hlab_j. reflexivity. }
    split; [exact HIa|]. split; [exact HDj|]. split; [|exact Hpr0].
    intros k HD. destruct (Nat.eq_dec k j) as [->|Hk]; auto.
  - (* synthesise *)
    assert (Hhw : c_hw c = None /\ lookup j (s_init sa) = None).
    { unfold has_init in Hh. destruct (c_hw c); [discriminate|]. destruct (lookup j (s_init sa)); [discriminate|auto]. }
    destruct Hhw as [Hhw Hnone].
    destruct (collect_ok t (rev (c_mro c) ++ [j]) sa HIa) as [Hps [HI1 [Hs1 [Hm1 Hl1]]]].
    destruct (collect t sa (rev (c_mro c) ++ [j])) as [ps s1]. simpl in *.
    rewrite (collect_is_g_collect t j c Hj) in Hps. subst ps.
    destruct Hs1 as [Sp [Si [Sl Spr]]].
    set (syn := decorated c && negb (init_false c)).
    set (s2 := if syn then mkst (s_cache s1) (s_pruned s1) ((j, Synth (g_reorder (g_collect t c))) :: s_init s1) (s_label s1) (s_processed s1) else s1).
    assert (H2c : s_cache s2 = s_cache s1 /\ s_pruned s2 = s_pruned s1 /\ s_label s2 = s_label s1 /\ s_processed s2 = s_processed s1).
    { unfold s2. destruct syn; simpl; auto. }
    destruct H2c as [C2 [P2 [L2 PR2]]].
    assert (Hinit2 : forall k, lookup k (s_init s2) = if Nat.eqb k j then (if syn then Some (Synth (g_reorder (g_collect t c))) else None) else lookup k (s_init st)).
    { intros k. unfold s2. destruct syn; simpl.
      - destruct (Nat.eqb k j); auto. rewrite Si, Hi0. reflexivity.
      - rewrite Si. destruct (Nat.eqb k j) eqn:E; [|rewrite Hi0; reflexivity]. apply Nat.eqb_eq in E. subst k. exact Hnone. }
    split; [|split; [|split]].
    + (* invariant *)
      constructor; proj.
      * rewrite C2. apply (inv_cache t s1 HI1).
      * intros k b. rewrite C2, P2, memb_cons. destruct (Nat.eqb k j) eqn:E; simpl.
        -- apply Nat.eqb_eq in E. subst k. intros _ Hb Hd. apply (Hl1 j b); auto. apply in_or_app. right. left. auto.
        -- apply (inv_pruned t s1 HI1).
      * intros k m. rewrite Hinit2. destruct (Nat.eqb k j) eqn:E.
        -- apply Nat.eqb_eq in E. subst k. destruct syn eqn:Es; [|discriminate]. intros H. inversion H.
           exists c. repeat split; auto. rewrite (g_init_member_nohw t c Hhw). fold syn. rewrite Es. reflexivity.
        -- apply (inv_init t st HI).
      * rewrite L2, Sl. apply (inv_label t sa HIa).
    + (* this class is done *)
      intros c' Hc'. rewrite Hj in Hc'. inversion Hc'; subst c'. split.
      * unfold s_member; proj. rewrite Hhw, Hinit2, Nat.eqb_refl, (g_init_member_nohw t c Hhw). fold syn. destruct syn; reflexivity.
      * unfold s_labelled, g_label; proj. rewrite L2, Sl, Hlab_j. reflexivity.
    + (* the others stay done *)
      intros k HD. destruct (Nat.eq_dec k j) as [->|Hk].
      * intros c' Hc'. rewrite Hj in Hc'. inversion Hc'; subst c'. split.
        -- unfold s_member; proj. rewrite Hhw, Hinit2, Nat.eqb_refl, (g_init_member_nohw t c Hhw). fold syn. destruct syn; reflexivity.
        -- unfold s_labelled, g_label; proj. rewrite L2, Sl, Hlab_j. reflexivity.
      * intros c' Hc'. destruct (HD c' Hc') as [H1 H2]. apply Nat.eqb_neq in Hk. split.
        -- unfold s_member in *; proj. rewrite Hinit2, Hk. auto.
        -- unfold s_labelled in *; proj. rewrite L2, Sl, Hlab_k; auto. apply Nat.eqb_neq. auto.
    + proj. rewrite PR2, Spr. auto.
Qed.

(* ... so does a whole walk; with pairwise distinct unseen canonical paths nothing is skipped *)
Lemma Inv_processed : forall t st p, Inv t st -> Inv t (mkst (s_cache st) (s_pruned st) (s_init st) (s_label st) p).
Proof. intros t st p [A B C D]. constructor; simpl; auto. Qed.
Lemma Done_processed : forall t st p k, Done t st k -> Done t (mkst (s_cache st) (s_pruned st) (s_init st) (s_label st) p) k.
Proof. intros t st p k H c Hc. destruct (H c Hc). split; auto. Qed.

Lemma memb_false_notin : forall k l, memb k l = false <-> ~ In k l.
Proof.
  intros k l. unfold memb. split.
  - intros H Hin. assert (existsb (Nat.eqb k) l = true) by (apply existsb_exists; exists k; split; auto; apply Nat.eqb_refl). congruence.
  - intros H. destruct (existsb (Nat.eqb k) l) eqn:E; auto. apply existsb_exists in E. destruct E as [x [Hx Hk]].
    apply Nat.eqb_eq in Hk. subst x. contradiction.
Qed.

Lemma walk_spec : forall t paths ev st, Inv t st ->
  NoDup (map (fun j => nth j paths 0) ev) -> (forall j, In j ev -> ~ In (nth j paths 0) (s_processed st)) ->
  Inv t (walk t paths st ev) /\ (forall k, Done t st k -> Done t (walk t paths st ev) k) /\
  (forall j, In j ev -> Done t (walk t paths st ev) j).
Proof.
  intros t paths. induction ev as [|j r IH]; intros st HI Hnd Hfresh; simpl.
  - split; [auto|]. split; [auto|]. intros j [].
  - assert (Hm : memb (nth j paths 0) (s_processed st) = false) by (apply memb_false_notin; apply Hfresh; left; auto).
    rewrite Hm. destruct (process_spec t st j HI) as [HI1 [HDj [Hkeep Hpr]]].
    set (s1 := process t st j) in *.
    set (s1' := mkst (s_cache s1) (s_pruned s1) (s_init s1) (s_label s1) (nth j paths 0 :: s_processed s1)).
    simpl in Hnd. apply NoDup_cons_iff in Hnd. destruct Hnd as [Hnotin Hnd].
    destruct (IH s1' (Inv_processed t s1 _ HI1) Hnd) as [HI2 [Hkeep2 Hdone2]].
    { intros k Hk. unfold s1'. simpl. intros [H|H].
      - apply Hnotin. rewrite H. apply (in_map (fun j0 => nth j0 paths 0)). auto.
      - rewrite Hpr in H. apply (Hfresh k); auto. right. auto. }
    split; [exact HI2|]. split.
    + intros k HD. apply Hkeep2. apply Done_processed. auto.
    + intros k [Hk|Hk].
      * subst k. apply Hkeep2. apply Done_processed. auto.
      * apply Hdone2. auto.
Qed.

Lemma event_spec : forall t paths ev st, Inv t st -> NoDup (map (fun j => nth j paths 0) ev) ->
  Inv t (event false false t paths st ev) /\ (forall k, Done t st k -> Done t (event false false t paths st ev) k) /\
  (forall j, In j ev -> Done t (event false false t paths st ev) j).
Proof.
  intros t paths ev st HI Hnd. unfold event.
  destruct (walk_spec t paths ev (mkst (s_cache st) (s_pruned st) (s_init st) (s_label st) []) (Inv_processed t st [] HI) Hnd) as [H1 [H2 H3]].
  { intros j _ []. }
  split; [exact H1|]. split; [|exact H3]. intros k HD. apply H2. apply Done_processed. auto.
Qed.

Lemma session_from : forall t paths evs st, Inv t st ->
  (forall ev, In ev evs -> NoDup (map (fun j => nth j paths 0) ev)) ->
  let fin := fold_left (event false false t paths) evs st in
  Inv t fin /\ (forall k, Done t st k -> Done t fin k) /\ (forall ev j, In ev evs -> In j ev -> Done t fin j).
Proof.
  intros t paths. induction evs as [|ev r IH]; intros st HI Hnd; simpl.
  - split; [auto|]. split; [auto|]. intros ev j [].
  - destruct (event_spec t paths ev st HI (Hnd ev (or_introl eq_refl))) as [HI1 [Hk1 Hd1]].
    destruct (IH _ HI1 (fun ev' H => Hnd ev' (or_intror H))) as [HI2 [Hk2 Hd2]].
    split; [exact HI2|]. split; [intros k HD; apply Hk2; apply Hk1; exact HD|].
    intros ev' j [He|He] Hj; [subst ev'; apply Hk2; apply Hd1; auto | eapply Hd2; eauto].
Qed.

(* THE THEOREM: whatever was loaded before through the same extension object, in whatever walk order, every class an event
   has walked over carries exactly the stateless result (g_init_member / g_label of Model/C18_dataclass.v). *)
Theorem session_transparent : forall t paths evs,
  (forall ev, In ev evs -> NoDup (map (fun j => nth j paths 0) ev)) ->
  forall ev j c, In ev evs -> In j ev -> nth_error t j = Some c ->
  s_member (session t paths evs) j c = g_init_member t c /\ s_labelled (session t paths evs) j c = g_label t c.
Proof.
  intros t paths evs Hnd ev j c Hev Hj Hc.
  destruct (session_from t paths evs st0 (Inv_st0 t) Hnd) as [_ [_ H]]. apply (H ev j Hev Hj c Hc).
Qed.

(* and hence equals CPython's, modulo the known gaps *)
Theorem session_eq_cpython_modulo_known : forall t e paths evs,
  py_eval_table t = Some e ->
  (forall ev, In ev evs -> NoDup (map (fun j => nth j paths 0) ev)) ->
  forall ev j c, In ev evs -> In j ev -> nth_error t j = Some c ->
  decorated c = true -> c_hw c = None -> known_gap t e j c = false ->
  s_member (session t paths evs) j c = py_init_member e j c.
Proof.
  intros t e paths evs Hpy Hnd ev j c Hev Hj Hc Hd Hh Hg.
  destruct (session_transparent t paths evs Hnd ev j c Hev Hj Hc) as [-> _].
  apply init_eq_cpython_modulo_known; auto.
Qed.

(* ---- sensitivity: the two plausible variants of the machine break the statement (so the flags matter) ---- *)
(* a package with a dataclass that has an InitVar pseudo-field, then a package deriving from it *)
Definition two_pkgs : table := [ mkcls D0 [P0 0; SAttr 1 AInitVar VPlain] None []; mkcls D0 [P1 2] None [0] ].
Example session_two_pkgs :
  s_member (session two_pkgs [0; 1] [[0]; [1]]) 1 (cls_at two_pkgs 1) = Synth [mkp 0 PK false; mkp 1 PK true; mkp 2 PK true] /\
  g_init_member two_pkgs (cls_at two_pkgs 1) = Synth [mkp 0 PK false; mkp 1 PK true; mkp 2 PK true].
Proof. vm_compute. split; reflexivity. Qed.
Example cache_is_load_bearing :
  s_member (session_gen true false two_pkgs [0; 1] [[0]; [1]]) 1 (cls_at two_pkgs 1) = Synth [mkp 0 PK false; mkp 2 PK true].
Proof. vm_compute. reflexivity. Qed.
(* the subclass walked BEFORE its base (another module of the same package): still right, the base is computed from unpruned members *)
Example child_first : s_member (session two_pkgs [0; 1] [[1; 0]]) 1 (cls_at two_pkgs 1) = Synth [mkp 0 PK false; mkp 1 PK true; mkp 2 PK true] /\
                      s_member (session two_pkgs [0; 1] [[1; 0]]) 0 (cls_at two_pkgs 0) = Synth [mkp 0 PK false; mkp 1 PK true].
Proof. vm_compute. split; reflexivity. Qed.
(* two versions of one package: distinct class objects 0 and 1, same canonical path 7 *)
Definition two_versions : table := [ mkcls D0 [P0 0] None []; mkcls D0 [P0 0; P1 1] None [] ].
Example processed_must_be_per_event :
  s_member (session two_versions [7; 7] [[0]; [1]]) 1 (cls_at two_versions 1) = Synth [mkp 0 PK false; mkp 1 PK true] /\
  s_member (session_gen false true two_versions [7; 7] [[0]; [1]]) 1 (cls_at two_versions 1) = Absent.
Proof. vm_compute. split; reflexivity. Qed.
