(* C02 proofs about the container of models.py: the position-based algorithms refine a position-free
   abstract list for every operation sequence; lookup by name = first match in iteration order; deletions
   shift positions and leave every other name's lookup alone; duplicate-freedom is an invariant of
   add / del / well-named setitem (and is needed: refutations); bound-method view. *)
From Coq Require Import List ZArith String Ascii Bool Arith Lia.
From Verif Require Import Lib.Sexp Model.C02_kinds Model.C02_params Model.C02_container Proofs.C02_params.
Import ListNotations.
Open Scope string_scope.
Open Scope list_scope.
Open Scope nat_scope.

(* ---------- refinement: concrete algorithms = abstract list functions ---------- *)
Lemma find_param_find n l : find_param n l = find (name_is n) l.
Proof. induction l as [|p r IH]; simpl; [reflexivity|]. destruct (name_is n p); auto. Qed.

Lemma find_index_from_shift n l i :
  find_index_from n l i = option_map (fun j => i + j) (find_index_from n l 0).
Proof.
  revert i; induction l as [|p r IH]; intros i; simpl; [reflexivity|].
  destruct (name_is n p).
  - simpl. f_equal. lia.
  - rewrite (IH (S i)), (IH 1). destruct (find_index_from n r 0); simpl; [f_equal; lia|reflexivity].
Qed.

Lemma find_index_cons n p r :
  find_index n (p :: r) = if name_is n p then Some 0 else option_map S (find_index n r).
Proof.
  unfold find_index; simpl. destruct (name_is n p); [reflexivity|].
  rewrite find_index_from_shift. destruct (find_index_from n r 0); reflexivity.
Qed.

Lemma find_index_lt n l j : find_index n l = Some j -> j < List.length l.
Proof.
  revert j; induction l as [|p r IH]; intros j; [discriminate|].
  rewrite find_index_cons. destruct (name_is n p).
  - intros H; inversion H; simpl; lia.
  - destruct (find_index n r) as [j'|]; simpl; [|discriminate].
    intros H; inversion H; subst. specialize (IH j' eq_refl). simpl. lia.
Qed.

Lemma find_index_nth n l j : find_index n l = Some j ->
  exists p, nth_error l j = Some p /\ name_is n p = true /\ find_param n l = Some p /\
            (forall j' q, j' < j -> nth_error l j' = Some q -> name_is n q = false).
Proof.
  revert j; induction l as [|p r IH]; intros j; [discriminate|].
  rewrite find_index_cons. simpl. destruct (name_is n p) eqn:E.
  - intros H; inversion H; subst. exists p. repeat split; auto. intros j' q Hlt; lia.
  - destruct (find_index n r) as [j'|]; simpl; [|discriminate].
    intros H; inversion H; subst. destruct (IH j' eq_refl) as [q [H1 [H2 [H3 H4]]]].
    exists q. repeat split; auto.
    intros [|j''] q' Hlt Hn; simpl in Hn.
    + inversion Hn; subst; exact E.
    + apply (H4 j'' q'); [lia|exact Hn].
Qed.

Lemma find_index_none n l : find_index n l = None -> find_param n l = None.
Proof.
  induction l as [|p r IH]; [reflexivity|]. rewrite find_index_cons. simpl.
  destruct (name_is n p); [discriminate|]. destruct (find_index n r); [discriminate|]. auto.
Qed.

Lemma find_param_index n l : find_param n l = None -> find_index n l = None.
Proof.
  induction l as [|p r IH]; [reflexivity|]. rewrite find_index_cons. simpl.
  destruct (name_is n p); [discriminate|]. intros H. rewrite (IH H). reflexivity.
Qed.

Lemma del_by_name n l :
  match find_index n l with Some j => Some (del_nth j l) | None => None end = remove_first (name_is n) l.
Proof.
  induction l as [|p r IH]; [reflexivity|]. rewrite find_index_cons. simpl.
  destruct (name_is n p); [reflexivity|]. rewrite <- IH. destruct (find_index n r); reflexivity.
Qed.

Lemma set_by_name n q l :
  match find_index n l with Some j => Some (set_nth j q l) | None => None end = replace_first (name_is n) q l.
Proof.
  induction l as [|p r IH]; [reflexivity|]. rewrite find_index_cons. simpl.
  destruct (name_is n p); [reflexivity|]. rewrite <- IH. destruct (find_index n r); reflexivity.
Qed.

Lemma set_nth_split j q l : j < List.length l -> set_nth j q l = firstn j l ++ q :: skipn (S j) l.
Proof.
  revert j; induction l as [|x r IH]; intros j H; simpl in H; [lia|].
  destruct j; simpl; [reflexivity|]. f_equal. apply IH. lia.
Qed.

Lemma del_nth_split j l : j < List.length l -> del_nth j l = firstn j l ++ skipn (S j) l.
Proof.
  revert j; induction l as [|x r IH]; intros j H; simpl in H; [lia|].
  destruct j; simpl; [reflexivity|]. f_equal. apply IH. lia.
Qed.

Lemma py_index_position i l : py_index i (List.length l) = a_position i l.
Proof.
  unfold py_index, a_position. destruct (Z.leb_spec 0 i).
  - destruct (Z.ltb_spec i (Z.of_nat (List.length l))); destruct (Nat.ltb_spec (Z.to_nat i) (List.length l));
      try reflexivity; exfalso; lia.
  - destruct (Z.leb_spec (- Z.of_nat (List.length l)) i); destruct (Nat.leb_spec (Z.to_nat (- i)) (List.length l));
      try reflexivity; try (exfalso; lia). f_equal. lia.
Qed.

Lemma a_position_lt i l j : a_position i l = Some j -> j < List.length l.
Proof.
  unfold a_position. destruct (Z.leb_spec 0 i).
  - destruct (Nat.ltb_spec (Z.to_nat i) (List.length l)); intros E; inversion E; subst; lia.
  - destruct (Nat.leb_spec (Z.to_nat (- i)) (List.length l)); intros E; inversion E; subst; lia.
Qed.

Lemma getitem_refines k l : c_getitem k l = a_getitem k l.
Proof.
  destruct k as [i|s]; simpl.
  - rewrite py_index_position. reflexivity.
  - rewrite find_param_find. reflexivity.
Qed.

Lemma setitem_refines k p l : c_setitem k p l = a_setitem k p l.
Proof.
  destruct k as [i|s]; simpl.
  - rewrite py_index_position. destruct (a_position i l) as [j|] eqn:E; [|reflexivity].
    rewrite set_nth_split by (eapply a_position_lt; eauto). reflexivity.
  - rewrite <- set_by_name. destruct (find_index (lstrip_star s) l); reflexivity.
Qed.

Lemma delitem_refines k l : c_delitem k l = a_delitem k l.
Proof.
  destruct k as [i|s]; simpl.
  - rewrite py_index_position. destruct (a_position i l) as [j|] eqn:E; [|reflexivity].
    rewrite del_nth_split by (eapply a_position_lt; eauto). reflexivity.
  - rewrite <- del_by_name. destruct (find_index (lstrip_star s) l); reflexivity.
Qed.

Lemma contains_refines s l : c_contains s l = a_contains s l.
Proof.
  unfold c_contains, a_contains. rewrite find_param_find.
  induction l as [|p r IH]; simpl; [reflexivity|]. destruct (name_is (lstrip_star s) p); auto.
Qed.

Lemma add_refines p l : c_add p l = a_add p l.
Proof. unfold c_add, a_add. rewrite contains_refines. reflexivity. Qed.

Lemma step_refines l o : c_step l o = a_step l o.
Proof.
  destruct o; simpl; try reflexivity.
  - rewrite getitem_refines; reflexivity.
  - rewrite setitem_refines; reflexivity.
  - rewrite delitem_refines; reflexivity.
  - rewrite contains_refines; reflexivity.
  - rewrite add_refines; reflexivity.
Qed.

(* every operation sequence, from every initial content (duplicates included), behaves like the abstract list:
   same observation at every step (results and raised errors) and same final content *)
Theorem container_refines_list : forall os l, run_ops c_step l os = run_ops a_step l os.
Proof.
  induction os as [|o r IH]; intros l; simpl; [reflexivity|].
  rewrite step_refines. destruct (a_step l o) as [l' b]. rewrite IH. reflexivity.
Qed.

(* ---------- lookup by name = first match in iteration order; name and index agree ---------- *)
Lemma name_is_true n p : name_is n p = true <-> pname p = n.
Proof. unfold name_is. apply String.eqb_eq. Qed.
Lemma name_is_false n p : name_is n p = false <-> pname p <> n.
Proof. unfold name_is. apply String.eqb_neq. Qed.

Theorem get_by_name_first_match s l p :
  c_getitem (KStr s) l = Ok p <->
  exists i, nth_error l i = Some p /\ pname p = lstrip_star s /\
            (forall j q, j < i -> nth_error l j = Some q -> pname q <> lstrip_star s).
Proof.
  simpl. split.
  - destruct (find_param (lstrip_star s) l) as [q|] eqn:E; [|discriminate].
    intros H; inversion H; subst q.
    destruct (find_index (lstrip_star s) l) as [j|] eqn:Ei.
    + destruct (find_index_nth _ _ _ Ei) as [q [H1 [H2 [H3 H4]]]].
      rewrite E in H3; inversion H3; subst q.
      exists j. split; [exact H1|]. split; [apply name_is_true; exact H2|].
      intros j' q' Hlt Hn. apply name_is_false. eapply H4; eauto.
    + apply find_index_none in Ei. congruence.
  - intros [i [H1 [H2 H3]]].
    revert i H1 H3. induction l as [|x r IH]; intros i H1 H3.
    + destruct i; discriminate.
    + simpl. destruct i as [|i]; simpl in H1.
      * inversion H1; subst x. apply name_is_true in H2. rewrite H2. reflexivity.
      * assert (Hx : name_is (lstrip_star s) x = false).
        { apply name_is_false. apply (H3 0 x); [lia|reflexivity]. }
        rewrite Hx. apply (IH i H1). intros j q Hlt Hn. apply (H3 (S j) q); [lia|exact Hn].
Qed.

Theorem get_by_name_eq_get_by_index s l :
  match find_index (lstrip_star s) l with
  | Some j => c_getitem (KStr s) l = c_getitem (KInt (Z.of_nat j)) l /\ j < List.length l
  | None => c_getitem (KStr s) l = Err "KeyError" /\ c_contains s l = false
  end.
Proof.
  destruct (find_index (lstrip_star s) l) as [j|] eqn:E.
  - pose proof (find_index_lt _ _ _ E) as Hlt.
    destruct (find_index_nth _ _ _ E) as [p [H1 [_ [H3 _]]]].
    split; [|exact Hlt]. simpl. rewrite H3. unfold py_index.
    destruct (Z.leb_spec 0 (Z.of_nat j)); [|lia].
    destruct (Z.ltb_spec (Z.of_nat j) (Z.of_nat (List.length l))); [|lia].
    rewrite Nat2Z.id, H1. reflexivity.
  - apply find_index_none in E. unfold c_contains. simpl. rewrite E. auto.
Qed.

Theorem contains_iff_get s l : c_contains s l = true <-> exists p, c_getitem (KStr s) l = Ok p.
Proof.
  unfold c_contains. simpl. destruct (find_param (lstrip_star s) l) as [p|]; split; intros H; eauto; try discriminate.
  destruct H as [p H]; discriminate.
Qed.

(* negative subscripts count from the end *)
Theorem get_by_index_range i l :
  (exists p, c_getitem (KInt i) l = Ok p) <-> (- Z.of_nat (List.length l) <= i < Z.of_nat (List.length l))%Z.
Proof.
  simpl. unfold py_index. destruct (Z.leb_spec 0 i).
  - destruct (Z.ltb_spec i (Z.of_nat (List.length l))).
    + destruct (nth_error l (Z.to_nat i)) eqn:E.
      * split; [lia|eauto].
      * apply nth_error_None in E. lia.
    + split; [intros [p Hp]; discriminate|lia].
  - destruct (Z.leb_spec (- Z.of_nat (List.length l)) i).
    + destruct (nth_error l (Z.to_nat (Z.of_nat (List.length l) + i))) eqn:E.
      * split; [lia|eauto].
      * apply nth_error_None in E. lia.
    + split; [intros [p Hp]; discriminate|lia].
Qed.

Theorem get_negative_index i l : (0 <= i < Z.of_nat (List.length l))%Z ->
  c_getitem (KInt (i - Z.of_nat (List.length l))) l = c_getitem (KInt i) l.
Proof.
  intros H. simpl. unfold py_index.
  destruct (Z.leb_spec 0 (i - Z.of_nat (List.length l))); [lia|].
  destruct (Z.leb_spec (- Z.of_nat (List.length l)) (i - Z.of_nat (List.length l))); [|lia].
  destruct (Z.leb_spec 0 i); [|lia]. destruct (Z.ltb_spec i (Z.of_nat (List.length l))); [|lia].
  replace (Z.of_nat (List.length l) + (i - Z.of_nat (List.length l)))%Z with i by lia. reflexivity.
Qed.

(* ---------- deletion ---------- *)
Lemma nth_error_del_nth j l j' :
  nth_error (del_nth j l) j' = if j' <? j then nth_error l j' else nth_error l (S j').
Proof.
  revert j j'; induction l as [|x r IH]; intros j j'.
  - simpl. destruct j; destruct (j' <? _); destruct j'; reflexivity.
  - destruct j as [|j]; simpl.
    + reflexivity.
    + destruct j' as [|j']; simpl; [reflexivity|]. rewrite IH.
      change (S j' <? S j) with (j' <? j). reflexivity.
Qed.

Lemma find_del_nth t j l :
  (forall p, nth_error l j = Some p -> name_is t p = false) ->
  find_param t (del_nth j l) = find_param t l.
Proof.
  revert j; induction l as [|x r IH]; intros j H; [destruct j; reflexivity|].
  destruct j as [|j]; simpl.
  - rewrite (H x eq_refl). reflexivity.
  - destruct (name_is t x); [reflexivity|]. apply IH. intros p Hp. apply H. exact Hp.
Qed.

Lemma length_del_nth j l : j < List.length l -> S (List.length (del_nth j l)) = List.length l.
Proof.
  revert j; induction l as [|x r IH]; intros j H; simpl in H; [lia|].
  destruct j; simpl; [reflexivity|]. rewrite IH by lia. reflexivity.
Qed.

Definition deleted_position (k : key) (l : list param) : option nat :=
  match k with KInt i => py_index i (List.length l) | KStr s => find_index (lstrip_star s) l end.

Lemma delitem_position k l l' : c_delitem k l = Ok l' ->
  exists j, deleted_position k l = Some j /\ j < List.length l /\ l' = del_nth j l.
Proof.
  destruct k as [i|s]; simpl.
  - destruct (py_index i (List.length l)) as [j|] eqn:E; [|discriminate]. intros H; inversion H.
    exists j. repeat split; auto. rewrite py_index_position in E. eapply a_position_lt; eauto.
  - destruct (find_index (lstrip_star s) l) as [j|] eqn:E; [|discriminate]. intros H; inversion H.
    exists j. repeat split; auto. eapply find_index_lt; eauto.
Qed.

(* a successful deletion removes exactly one position: the length drops by one, earlier positions keep their
   element, later ones move down by one (this is what an unmaintained name->position cache gets wrong) *)
Theorem delitem_shifts_positions k l l' : c_delitem k l = Ok l' ->
  exists j, deleted_position k l = Some j /\ S (List.length l') = List.length l /\
    forall j', nth_error l' j' = if j' <? j then nth_error l j' else nth_error l (S j').
Proof.
  intros H. destruct (delitem_position _ _ _ H) as [j [H1 [H2 H3]]]. subst l'.
  exists j. split; [exact H1|]. split; [apply length_del_nth; exact H2|]. intros j'. apply nth_error_del_nth.
Qed.

(* ... and every lookup by a name other than the deleted element's own still answers the same, for every list *)
Theorem delitem_keeps_other_names k l l' t : c_delitem k l = Ok l' ->
  (forall j p, deleted_position k l = Some j -> nth_error l j = Some p -> pname p <> lstrip_star t) ->
  c_getitem (KStr t) l' = c_getitem (KStr t) l /\ c_contains t l' = c_contains t l.
Proof.
  intros H Hn. destruct (delitem_position _ _ _ H) as [j [H1 [H2 H3]]]. subst l'.
  assert (E : find_param (lstrip_star t) (del_nth j l) = find_param (lstrip_star t) l).
  { apply find_del_nth. intros p Hp. apply name_is_false. eapply Hn; eauto. }
  unfold c_contains. simpl. rewrite E. auto.
Qed.

Corollary delitem_by_name_keeps_other_names s t l l' :
  c_delitem (KStr s) l = Ok l' -> lstrip_star t <> lstrip_star s ->
  c_getitem (KStr t) l' = c_getitem (KStr t) l /\ c_contains t l' = c_contains t l.
Proof.
  intros H Hne. apply (delitem_keeps_other_names _ _ _ _ H).
  intros j p Hj Hp. simpl in Hj. destruct (find_index_nth _ _ _ Hj) as [q [H1 [H2 _]]].
  rewrite H1 in Hp; inversion Hp; subst q. apply name_is_true in H2. congruence.
Qed.

Theorem delitem_by_name_fails_iff_absent s l :
  c_delitem (KStr s) l = Err "KeyError" <-> c_contains s l = false.
Proof.
  unfold c_contains. simpl. destruct (find_index (lstrip_star s) l) as [j|] eqn:E.
  - destruct (find_index_nth _ _ _ E) as [p [_ [_ [H3 _]]]]. rewrite H3. split; discriminate.
  - rewrite (find_index_none _ _ E). split; reflexivity.
Qed.

(* ---------- duplicate names ---------- *)
Lemma existsb_names n l : existsb (String.eqb n) (names_of l) = existsb (name_is n) l.
Proof.
  induction l as [|p r IH]; simpl; [reflexivity|]. rewrite IH. unfold name_is. rewrite String.eqb_sym. reflexivity.
Qed.

Lemma find_param_existsb n l : match find_param n l with Some _ => true | None => false end = existsb (name_is n) l.
Proof. induction l as [|p r IH]; simpl; [reflexivity|]. destruct (name_is n p); auto. Qed.

Lemma existsb_del_nth f j (l : list param) : existsb f l = false -> existsb f (del_nth j l) = false.
Proof.
  revert j; induction l as [|x r IH]; intros j H; [destruct j; reflexivity|].
  simpl in H. apply orb_false_iff in H. destruct H as [H1 H2].
  destruct j; simpl; [exact H2|]. rewrite H1. simpl. apply IH. exact H2.
Qed.

Lemma nodup_del_nth j l : nodupb (names_of l) = true -> nodupb (names_of (del_nth j l)) = true.
Proof.
  revert j; induction l as [|x r IH]; intros j H; [destruct j; reflexivity|].
  simpl in H. apply andb_prop in H. destruct H as [H1 H2].
  destruct j; simpl; [exact H2|].
  rewrite (IH j H2), andb_true_r. apply negb_true_iff in H1. apply negb_true_iff.
  rewrite existsb_names in *. apply existsb_del_nth. exact H1.
Qed.

Theorem delitem_keeps_nodup k l l' :
  nodupb (names_of l) = true -> c_delitem k l = Ok l' -> nodupb (names_of l') = true.
Proof.
  intros Hn H. destruct (delitem_position _ _ _ H) as [j [_ [_ H3]]]. subst l'. apply nodup_del_nth. exact Hn.
Qed.

(* with distinct names a deleted name is gone *)
Theorem delitem_by_name_then_absent s l l' :
  nodupb (names_of l) = true -> c_delitem (KStr s) l = Ok l' -> c_contains s l' = false.
Proof.
  intros Hn H. simpl in H. destruct (find_index (lstrip_star s) l) as [j|] eqn:E; [|discriminate].
  inversion H; subst l'. clear H. unfold c_contains. rewrite find_param_existsb.
  revert j E Hn. induction l as [|x r IH]; intros j E Hn; [discriminate|].
  rewrite find_index_cons in E. simpl in Hn. apply andb_prop in Hn. destruct Hn as [H1 H2].
  destruct (name_is (lstrip_star s) x) eqn:Ex.
  - inversion E; subst j. simpl. apply name_is_true in Ex. rewrite <- Ex.
    rewrite <- existsb_names. apply negb_true_iff in H1. exact H1.
  - destruct (find_index (lstrip_star s) r) as [j'|] eqn:E'; simpl in E; [|discriminate].
    inversion E; subst j. simpl. rewrite Ex. simpl. apply (IH j' eq_refl H2).
Qed.

(* the hypothesis is needed and reachable: the constructor and setitem accept duplicates *)
Theorem delitem_by_name_then_absent_needs_nodup :
  exists l l', c_delitem (KStr "a") l = Ok l' /\ c_contains "a" l' = true.
Proof.
  exists [mkParam "a" None PK DNone; mkParam "a" (Some 1%Z) PK DNone], [mkParam "a" (Some 1%Z) PK DNone].
  split; reflexivity.
Qed.

Lemma names_app l1 l2 : names_of (l1 ++ l2) = names_of l1 ++ names_of l2.
Proof. apply map_app. Qed.

Lemma nodupb_snoc l n : nodupb l = true -> existsb (String.eqb n) l = false -> nodupb (l ++ [n]) = true.
Proof.
  induction l as [|x r IH]; simpl; intros H1 H2; [reflexivity|].
  apply andb_prop in H1. destruct H1 as [Ha Hb]. apply orb_false_iff in H2. destruct H2 as [Hc Hd].
  rewrite (IH Hb Hd), andb_true_r. apply negb_true_iff. rewrite existsb_app. simpl.
  apply negb_true_iff in Ha. rewrite Ha. simpl. rewrite String.eqb_sym, Hc. reflexivity.
Qed.

(* add: refuses a present name, otherwise appends; keeps names distinct when the new name carries no star *)
Theorem add_spec p l :
  (c_contains (pname p) l = true /\ c_add p l = Err "ValueError") \/
  (c_contains (pname p) l = false /\ c_add p l = Ok (l ++ [p])).
Proof. unfold c_add. destruct (c_contains (pname p) l); auto. Qed.

Theorem add_keeps_nodup p l l' :
  no_star (pname p) = true -> nodupb (names_of l) = true -> c_add p l = Ok l' ->
  nodupb (names_of l') = true /\ c_getitem (KStr (pname p)) l' = Ok p.
Proof.
  unfold c_add, c_contains, no_star. intros Hs Hn. apply String.eqb_eq in Hs. rewrite Hs.
  destruct (find_param (pname p) l) eqn:E; [discriminate|]. intros H; inversion H; subst l'. split.
  - rewrite names_app. apply nodupb_snoc; [exact Hn|]. rewrite existsb_names, <- find_param_existsb, E. reflexivity.
  - simpl. rewrite Hs. clear Hn H. induction l as [|x r IH]; simpl in *.
    + unfold name_is. rewrite String.eqb_refl. reflexivity.
    + destruct (name_is (pname p) x); [discriminate|]. apply IH. exact E.
Qed.

(* a starred own name can never be found again: add's membership test strips, the stored name does not *)
Theorem add_starred_name_unfindable :
  exists p l', c_add p [] = Ok l' /\ c_getitem (KStr (pname p)) l' = Err "KeyError" /\ c_add p l' = Ok (l' ++ [p]).
Proof. exists (mkParam "*a" None VP DNone), [mkParam "*a" None VP DNone]. repeat split; reflexivity. Qed.

(* setitem by name: replaces the first match in place or appends; the new element is found under that name when
   it carries that name (the code does not check it) *)
Lemma find_set_nth_same n j q l : find_index n l = Some j -> name_is n q = true -> find_param n (set_nth j q l) = Some q.
Proof.
  revert j; induction l as [|x r IH]; intros j E Hq; [discriminate|].
  rewrite find_index_cons in E. destruct (name_is n x) eqn:Ex.
  - inversion E; subst j. simpl. rewrite Hq. reflexivity.
  - destruct (find_index n r) as [j'|] eqn:E'; simpl in E; [|discriminate]. inversion E; subst j.
    simpl. rewrite Ex. apply IH; auto.
Qed.

Lemma find_app_none n l q : find_param n l = None -> find_param n (l ++ [q]) = if name_is n q then Some q else None.
Proof. induction l as [|x r IH]; simpl; [reflexivity|]. destruct (name_is n x); [discriminate|]. exact IH. Qed.

Lemma length_set_nth j q l : List.length (set_nth j q l) = List.length l.
Proof. revert j; induction l as [|x r IH]; intros j; destruct j; simpl; auto. Qed.

Theorem setitem_by_name_then_get s q l l' :
  c_setitem (KStr s) q l = Ok l' -> pname q = lstrip_star s ->
  c_getitem (KStr s) l' = Ok q /\
  List.length l' = (if c_contains s l then List.length l else S (List.length l)).
Proof.
  intros H Hq. apply name_is_true in Hq. simpl in H. unfold c_contains. simpl.
  destruct (find_index (lstrip_star s) l) as [j|] eqn:E; inversion H; subst l'; clear H.
  - rewrite (find_set_nth_same _ _ _ _ E Hq).
    destruct (find_index_nth _ _ _ E) as [p [_ [_ [H3 _]]]]. rewrite H3. split; [reflexivity|].
    apply length_set_nth.
  - apply find_index_none in E. rewrite (find_app_none _ _ _ E), Hq, E. split; [reflexivity|].
    rewrite app_length. simpl. lia.
Qed.

Theorem setitem_name_mismatch_unfindable :
  exists s q l l', c_setitem (KStr s) q l = Ok l' /\ c_getitem (KStr s) l' = Err "KeyError".
Proof.
  exists "a", (mkParam "b" None PK DNone), [mkParam "a" None PK DNone], [mkParam "b" None PK DNone].
  split; reflexivity.
Qed.

Lemma existsb_set_nth_other n j q l :
  name_is n q = false -> existsb (name_is n) l = false -> existsb (name_is n) (set_nth j q l) = false.
Proof.
  revert j; induction l as [|x r IH]; intros j Hq H; [destruct j; reflexivity|].
  simpl in H. apply orb_false_iff in H. destruct H as [H1 H2].
  destruct j; simpl; [rewrite Hq, H2; reflexivity|]. rewrite H1. simpl. apply IH; auto.
Qed.

Theorem setitem_by_name_keeps_nodup s q l l' :
  nodupb (names_of l) = true -> pname q = lstrip_star s -> c_setitem (KStr s) q l = Ok l' ->
  nodupb (names_of l') = true.
Proof.
  intros Hn Hq H. simpl in H. destruct (find_index (lstrip_star s) l) as [j|] eqn:E; inversion H; subst l'; clear H.
  - revert j E Hn. induction l as [|x r IH]; intros j E Hn; [discriminate|].
    rewrite find_index_cons in E. simpl in Hn. apply andb_prop in Hn. destruct Hn as [H1 H2].
    destruct (name_is (lstrip_star s) x) eqn:Ex.
    + inversion E; subst j. simpl. rewrite H2, andb_true_r. apply name_is_true in Ex. rewrite Hq, <- Ex. exact H1.
    + destruct (find_index (lstrip_star s) r) as [j'|] eqn:E'; simpl in E; [|discriminate]. inversion E; subst j.
      simpl. rewrite (IH j' eq_refl H2), andb_true_r. apply negb_true_iff. apply negb_true_iff in H1.
      rewrite existsb_names in *. apply existsb_set_nth_other; [|exact H1].
      apply name_is_false. apply name_is_false in Ex. congruence.
  - rewrite names_app. apply nodupb_snoc; [exact Hn|]. simpl. rewrite Hq.
    rewrite existsb_names, <- find_param_existsb, (find_index_none _ _ E). reflexivity.
Qed.

(* ---------- the bound-method view ---------- *)
Theorem bound_eq_cpython ps : griffe_bound ps = cpython_bound ps.
Proof. destruct ps as [|p r]; [reflexivity|]. simpl. destruct (pkind p); reflexivity. Qed.

(* for every definition: dropping the first parameter from what Griffe reports = CPython's signature of the
   bound method; the remaining parameters are found by name exactly as in CPython's mapping, the dropped one is gone *)
Theorem bound_view_of_definition a ps :
  wf a = true -> get_parameters a = Ok ps ->
  griffe_bound ps = cpython_bound (cpython_signature a) /\
  (forall b, griffe_bound ps = Ok b ->
     (forall n, no_star n = true ->
        c_getitem (KStr n) b = match cpython_by_name n b with Some p => Ok p | None => Err "KeyError" end) /\
     (forall p r n, ps = p :: r -> b = r -> pname p <> lstrip_star n ->
        c_getitem (KStr n) b = c_getitem (KStr n) ps) /\
     (forall p r, ps = p :: r -> b = r -> nodupb (names_of ps) = true -> no_star (pname p) = true ->
        c_contains (pname p) b = false)).
Proof.
  intros Hwf Hg. rewrite (parameters_eq_cpython a Hwf) in Hg. inversion Hg; subst ps. clear Hg.
  split; [apply bound_eq_cpython|]. intros b Hb. split; [|split].
  - intros n Hn. unfold no_star in Hn. apply String.eqb_eq in Hn. simpl. rewrite Hn, find_param_find. reflexivity.
  - intros p r n Hps Hbr Hne. subst b. rewrite Hps. simpl.
    assert (E : name_is (lstrip_star n) p = false) by (apply name_is_false; exact Hne). rewrite E. reflexivity.
  - intros p r Hps Hbr Hnd Hs. subst b. rewrite Hps in Hnd. simpl in Hnd. apply andb_prop in Hnd. destruct Hnd as [H1 _].
    unfold c_contains. rewrite find_param_existsb.
    apply negb_true_iff in H1. rewrite existsb_names in H1.
    unfold no_star in Hs. apply String.eqb_eq in Hs. rewrite Hs. exact H1.
Qed.

(* ---------- non-vacuity ---------- *)
Example container_ops_example :
  let self := mkParam "self" None PK DNone in let a := mkParam "a" (Some 1%Z) PK (DExpr 5) in
  let r := mkParam "r" None VP (DStr "()") in let k := mkParam "k" None KO DNone in
  run_ops c_step [self; a; r; k]
    [ODel (KStr "self"); OGet (KStr "a"); OGet (KStr "*r"); OGet (KInt (-1)); OContains "self"; OGet (KStr "self");
     OAdd a; OSet (KStr "z") (mkParam "z" None KO DNone); ODel (KInt 7); OLen] =
  ([BUnit None; BParam (Ok a); BParam (Ok r); BParam (Ok k); BBool false; BParam (Err "KeyError");
    BUnit (Some "ValueError"); BUnit None; BUnit (Some "IndexError"); BLen 4],
   [a; r; k; mkParam "z" None KO DNone]).
Proof. reflexivity. Qed.

(* the hypotheses of delitem_keeps_other_names / delitem_by_name_then_absent are satisfiable: the usual `del parameters["self"]` *)
Example delete_self_example :
  let l := [mkParam "self" None PK DNone; mkParam "a" None PK DNone; mkParam "b" None KO (DExpr 1)] in
  nodupb (names_of l) = true /\
  c_delitem (KStr "self") l = Ok [mkParam "a" None PK DNone; mkParam "b" None KO (DExpr 1)] /\
  deleted_position (KStr "self") l = Some 0 /\
  c_delitem (KInt 0) l = c_delitem (KStr "self") l.
Proof. repeat split; reflexivity. Qed.

Example bound_view_example :
  let a := mkArgs [mkArg "self" None] [mkArg "x" (Some 3%Z)] None [mkArg "k" None] [Some 9%Z] None [7%Z] in
  wf a = true /\
  get_parameters a = Ok [mkParam "self" None PO DNone; mkParam "x" (Some 3%Z) PK (DExpr 7); mkParam "k" None KO (DExpr 9)] /\
  griffe_bound [mkParam "self" None PO DNone; mkParam "x" (Some 3%Z) PK (DExpr 7); mkParam "k" None KO (DExpr 9)] =
    Ok [mkParam "x" (Some 3%Z) PK (DExpr 7); mkParam "k" None KO (DExpr 9)] /\
  cpython_bound [mkParam "k" None KO DNone] = Err "ValueError" /\
  cpython_bound [mkParam "r" None VP (DStr "()")] = Ok [mkParam "r" None VP (DStr "()")].
Proof. repeat split; reflexivity. Qed.
