(* C10 proofs, part 7: the path conditions regenerated from _function_incompatibilities (Gen/C10_guards.v) are the documented
   rules, and the parameter rules written over them (fdiff_code, what the harness runs) are fdiff_m, the definition all
   theorems are stated over. *)
From Coq Require Import List Arith Bool Lia.
From Verif Require Import Lib.Sexp Model.C10_kinds Gen.C10_tables Gen.C10_rules Gen.C10_guards Model.C10_diff Model.C10_defaults
  Model.C10_ext Model.C10_hist Model.C10_code Proofs.C10_diff.
Import ListNotations.
Open Scope list_scope. Open Scope nat_scope.

(* ---- each regenerated path condition says what the documented rule says (finite check over kinds and flags) ---- *)
Ltac by_cases ok nk := destruct ok, nk; repeat match goal with b : bool |- _ => destruct b end; reflexivity.

Lemma rule_removed_spec ok nk oreq nreq present sw inc same differ :
  rule_removed ok nk oreq nreq present sw inc same differ = negb present && negb sw.
Proof. by_cases ok nk. Qed.
Lemma rule_required_spec ok nk oreq nreq present sw inc same differ :
  rule_required ok nk oreq nreq present sw inc same differ = present && (nreq && negb oreq).
Proof. by_cases ok nk. Qed.
Lemma rule_moved_spec ok nk oreq nreq present sw inc same differ :
  rule_moved ok nk oreq nreq present sw inc same differ = present && (is_pos ok && is_pos nk && negb same).
Proof. by_cases ok nk. Qed.
Lemma rule_kind_spec ok nk oreq nreq present sw inc same differ :
  rule_kind ok nk oreq nreq present sw inc same differ = present && (negb (kind_eqb ok nk) && inc).
Proof. by_cases ok nk. Qed.
Lemma rule_default_spec ok nk oreq nreq present sw inc same differ :
  rule_default ok nk oreq nreq present sw inc same differ =
  present && (negb oreq && negb nreq && negb (is_var ok) && negb (is_var nk) && differ).
Proof. by_cases ok nk. Qed.
Lemma rule_added_spec ok nk oreq nreq present sw inc same differ :
  rule_added ok nk oreq nreq present sw inc same differ = negb present && nreq.
Proof. by_cases ok nk. Qed.

Theorem path_conditions ok nk oreq nreq present sw inc same differ :
  rule_removed ok nk oreq nreq present sw inc same differ = negb present && negb sw /\
  rule_required ok nk oreq nreq present sw inc same differ = present && (nreq && negb oreq) /\
  rule_moved ok nk oreq nreq present sw inc same differ = present && (is_pos ok && is_pos nk && negb same) /\
  rule_kind ok nk oreq nreq present sw inc same differ = present && (negb (kind_eqb ok nk) && inc) /\
  rule_default ok nk oreq nreq present sw inc same differ =
    present && (negb oreq && negb nreq && negb (is_var ok) && negb (is_var nk) && differ) /\
  rule_added ok nk oreq nreq present sw inc same differ = negb present && nreq.
Proof.
  split; [apply rule_removed_spec|]. split; [apply rule_required_spec|]. split; [apply rule_moved_spec|].
  split; [apply rule_kind_spec|]. split; [apply rule_default_spec|apply rule_added_spec].
Qed.

(* ---- hence the rules over the path conditions are the hand-written table rules ---- *)
Lemma rules_old_eq new oi op : rules_old new oi op = per_old new oi op.
Proof.
  unfold rules_old, per_old.
  rewrite rule_removed_spec, rule_required_spec, rule_moved_spec, rule_kind_spec, rule_default_spec.
  destruct (find (pname op) new) as [np|]; simpl.
  - reflexivity.
  - destruct (swallowed (pkind op) (has_kind VP new) (has_kind VK new)); reflexivity.
Qed.

Lemma olds_code_eq new : forall old i, olds_code new i old = olds new i old.
Proof. induction old as [|p r IH]; intros i; simpl; [reflexivity|]. rewrite rules_old_eq, IH. reflexivity. Qed.

Lemma added_code_eq old new : added_code old new = added old new.
Proof.
  unfold added_code, added. apply flat_map_ext. intros np. rewrite rule_added_spec.
  destruct (find (pname np) old); simpl; [reflexivity|]. destruct (required np); reflexivity.
Qed.

Theorem fdiff_code_eq old new : fdiff_code old new = fdiff_m old new.
Proof.
  unfold fdiff_code, fdiff_m, fdiff_g, fdiff. rewrite olds_code_eq, added_code_eq, app_assoc. reflexivity.
Qed.

(* non-vacuity: every path condition fires on some input *)
Example rules_fire :
  fdiff_code [mk 0 PK None; mk 1 PK (Some 1); mk 2 KO (Some 1); mk 3 KO None] [mk 1 PK None; mk 0 PO None; mk 2 KO (Some 2); mk 4 KO None]
  = [Moved 0; ChKind 0; ChReq 1; Moved 1; ChDef 2; Removed 3; AddedReq 4] ++ collide collision_kind
      [mk 0 PK None; mk 1 PK (Some 1); mk 2 KO (Some 1); mk 3 KO None] [mk 1 PK None; mk 0 PO None; mk 2 KO (Some 2); mk 4 KO None].
Proof. rewrite fdiff_code_eq. reflexivity. Qed.
