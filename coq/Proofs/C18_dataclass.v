(* C18 proofs: Griffe's synthesised dataclass __init__ vs CPython's, for all class tables. *)
From Coq Require Import List Arith Bool Lia.
From Verif Require Import Lib.Sexp Model.C18_dataclass.
Import ListNotations.
Open Scope list_scope. Open Scope nat_scope.

(* ------------------------------------------------------------------ small list facts *)
Lemma existsb_false_forall : forall {A} (f : A -> bool) l, existsb f l = false -> forall x, In x l -> f x = false.
Proof.
  intros A f l H x Hin. destruct (f x) eqn:E; auto.
  assert (existsb f l = true) by (apply existsb_exists; exists x; auto). congruence.
Qed.

Lemma filter_map_comm : forall {A B} (f : A -> B) (P : B -> bool) l,
  filter P (map f l) = map f (filter (fun x => P (f x)) l).
Proof. intros A B f P l. induction l as [|x r IH]; simpl; auto. destruct (P (f x)); simpl; rewrite IH; auto. Qed.

Lemma flat_map_filter_if : forall {A B} (d : A -> bool) (f : A -> list B) l,
  flat_map (fun b => if d b then f b else []) l = flat_map f (filter d l).
Proof. intros A B d f l. induction l as [|x r IH]; simpl; auto. destruct (d x); simpl; rewrite IH; auto. Qed.

Lemma flat_map_ext_in : forall {A B} (f g : A -> list B) l, (forall x, In x l -> f x = g x) -> flat_map f l = flat_map g l.
Proof. intros A B f g l H. induction l as [|x r IH]; simpl; auto. rewrite H by (left; auto). rewrite IH; auto. intros; apply H; right; auto. Qed.

Lemma flat_map_map_filter : forall {A B C} (h : B -> C) (P : B -> bool) (f : A -> list B) l,
  flat_map (fun x => map h (filter P (f x))) l = map h (filter P (flat_map f l)).
Proof.
  intros A B C h P f l. induction l as [|x r IH]; simpl; auto.
  rewrite IH, filter_app, map_app. auto.
Qed.

(* ------------------------------------------------------------------ dict semantics *)
Section DictFacts.
  Variable A : Type.
  Variable key : A -> name.

  Lemma In_upd : forall m x y, In y (upd key m x) -> In y m \/ y = x.
  Proof.
    induction m as [|z r IH]; simpl; intros x y H.
    - destruct H as [H|[]]; auto.
    - destruct (Nat.eqb (key z) (key x)).
      + destruct H as [H|H]; auto.
      + destruct H as [H|H]; auto. destruct (IH _ _ H); auto.
  Qed.

  Variable P : A -> bool.

  Lemma upd_filter_true : forall m x, P x = true ->
    (forall y, In y m -> key y = key x -> P y = true) ->
    upd key (filter P m) x = filter P (upd key m x).
  Proof.
    induction m as [|z r IH]; simpl; intros x Hx Hc.
    - rewrite Hx. auto.
    - destruct (Nat.eqb (key z) (key x)) eqn:E.
      + apply Nat.eqb_eq in E. assert (Hz : P z = true) by (apply Hc; auto).
        rewrite Hz. simpl. rewrite Hx. apply Nat.eqb_eq in E. rewrite E. auto.
      + simpl. destruct (P z) eqn:Hz; simpl.
        * rewrite E. rewrite IH; auto.
        * apply IH; auto.
  Qed.

  Lemma upd_filter_false : forall m x, P x = false ->
    (forall y, In y m -> key y = key x -> P y = false) ->
    filter P (upd key m x) = filter P m.
  Proof.
    induction m as [|z r IH]; simpl; intros x Hx Hc.
    - rewrite Hx. auto.
    - destruct (Nat.eqb (key z) (key x)) eqn:E.
      + apply Nat.eqb_eq in E. assert (Hz : P z = false) by (apply Hc; auto).
        simpl. rewrite Hx, Hz. auto.
      + simpl. destruct (P z) eqn:Hz; simpl; rewrite IH; auto.
  Qed.

  Lemma merge_filter : forall l m,
    (forall x y, In x (m ++ l) -> In y (m ++ l) -> key x = key y -> P x = P y) ->
    merge key (filter P m) (filter P l) = filter P (merge key m l).
  Proof.
    unfold merge. induction l as [|x l IH]; simpl; intros m Hc; auto.
    assert (Hm : forall y, In y m -> key y = key x -> P y = P x).
    { intros y Hy Hk. apply Hc; auto; apply in_or_app; [left; auto | right; left; auto]. }
    assert (Hc' : forall a b, In a (upd key m x ++ l) -> In b (upd key m x ++ l) -> key a = key b -> P a = P b).
    { intros a b Ha Hb. apply Hc.
      - apply in_app_or in Ha. apply in_or_app. destruct Ha as [Ha|Ha]; [|right; right; auto].
        destruct (In_upd _ _ _ Ha) as [H|H]; [left; auto | right; left; auto].
      - apply in_app_or in Hb. apply in_or_app. destruct Hb as [Hb|Hb]; [|right; right; auto].
        destruct (In_upd _ _ _ Hb) as [H|H]; [left; auto | right; left; auto]. }
    remember (P x) as px eqn:Hx. symmetry in Hx. destruct px; simpl.
    - rewrite (upd_filter_true m x Hx Hm). apply IH; auto.
    - rewrite <- (IH _ Hc'). rewrite (upd_filter_false m x Hx Hm). auto.
  Qed.

  Lemma consistent_spec : forall l, consistent key P l = true ->
    forall x y, In x l -> In y l -> key x = key y -> P x = P y.
  Proof.
    unfold consistent. intros l H x y Hx Hy Hk.
    rewrite forallb_forall in H. specialize (H x Hx). rewrite forallb_forall in H. specialize (H y Hy).
    apply Nat.eqb_eq in Hk. rewrite Hk in H. simpl in H. apply eqb_prop in H. auto.
  Qed.

  Lemma dedup_filter : forall l, consistent key P l = true ->
    dedup key (filter P l) = filter P (dedup key l).
  Proof.
    intros l H. unfold dedup. change (@nil A) with (filter P []) at 1. apply merge_filter.
    simpl. apply consistent_spec; auto.
  Qed.
End DictFacts.

Lemma upd_map : forall {A B} (ka : A -> name) (kb : B -> name) (f : A -> B), (forall x, kb (f x) = ka x) ->
  forall m x, upd kb (map f m) (f x) = map f (upd ka m x).
Proof.
  intros A B ka kb f Hk. induction m as [|z r IH]; simpl; intros x; auto.
  rewrite !Hk. destruct (Nat.eqb (ka z) (ka x)); simpl; auto. rewrite IH; auto.
Qed.

Lemma merge_map : forall {A B} (ka : A -> name) (kb : B -> name) (f : A -> B), (forall x, kb (f x) = ka x) ->
  forall l m, merge kb (map f m) (map f l) = map f (merge ka m l).
Proof.
  intros A B ka kb f Hk. unfold merge. induction l as [|x l IH]; simpl; intros m; auto.
  rewrite (upd_map ka kb f Hk). apply IH.
Qed.

Lemma dedup_map : forall {A B} (ka : A -> name) (kb : B -> name) (f : A -> B), (forall x, kb (f x) = ka x) ->
  forall l, dedup kb (map f l) = map f (dedup ka l).
Proof. intros. unfold dedup. change (@nil B) with (map f []). apply merge_map; auto. Qed.

(* ------------------------------------------------------------------ one class body *)
Lemma scan_agree : forall inhf body kw seen own,
  py_scan inhf kw seen body = Some own ->
  g2_scan inhf body = false -> g7_scan body = false ->
  g_scan kw body = map to_param (filter in_init own).
Proof.
  intros inhf. induction body as [|s r IH]; intros kw seen own Hpy H2 H7.
  - simpl in Hpy. inversion Hpy. reflexivity.
  - destruct s as [n a v | n p | n].
    + (* SAttr *)
      destruct a.
      * (* ANone *)
        simpl in Hpy. simpl.
        assert (Hr : py_scan inhf kw seen r = Some own) by (destruct v; congruence).
        apply (IH kw seen own Hr).
        -- destruct v; simpl in H2; auto.
        -- simpl in H7; auto.
      * (* APlain *)
        destruct v as [| | fa].
        -- simpl in Hpy, H2, H7. apply orb_false_iff in H2. destruct H2 as [Hn H2]. rewrite Hn in Hpy.
           destruct (py_scan inhf kw seen r) as [o|] eqn:Er; simpl in Hpy; [|discriminate]. inversion Hpy; subst own.
           simpl. rewrite andb_true_r. rewrite (IH kw seen o Er H2 H7). unfold to_param at 2. simpl. destruct kw; reflexivity.
        -- simpl in Hpy, H2, H7.
           destruct (py_scan inhf kw seen r) as [o|] eqn:Er; simpl in Hpy; [|discriminate]. inversion Hpy; subst own.
           simpl. rewrite andb_true_r. rewrite (IH kw seen o Er H2 H7). unfold to_param at 2. simpl. destruct kw; reflexivity.
        -- simpl in Hpy, H2, H7.
           destruct (fa_default fa && fa_factory fa) eqn:Eb; [discriminate|].
           destruct (py_scan inhf kw seen r) as [o|] eqn:Er; simpl in Hpy; [|discriminate]. inversion Hpy; subst own.
           specialize (IH kw seen o Er H2 H7).
           simpl. unfold in_init at 1. simpl. unfold opt_is in *.
           destruct (fa_init fa) as [[|]|] eqn:Ei; simpl; rewrite IH; auto;
             unfold to_param at 2; simpl;
             (destruct (fa_kw fa) as [[|]|] eqn:Ek; destruct kw; simpl in *;
              rewrite (orb_comm (fa_factory fa)); reflexivity).
      * (* AClassVar *)
        simpl in H2, H7.
        assert (Hr : exists f o, py_scan inhf kw seen r = Some o /\ own = f :: o /\ f_type f = FClassVar).
        { simpl in Hpy. destruct v as [| | fa].
          - destruct (py_scan inhf kw seen r) as [o|]; simpl in Hpy; [|discriminate]. inversion Hpy. eauto.
          - destruct (py_scan inhf kw seen r) as [o|]; simpl in Hpy; [|discriminate]. inversion Hpy. eauto.
          - destruct ((fa_factory fa || match fa_kw fa with Some _ => true | None => false end) || fa_default fa && fa_factory fa); [discriminate|].
            destruct (py_scan inhf kw seen r) as [o|]; simpl in Hpy; [|discriminate]. inversion Hpy. eauto. }
        destruct Hr as [f [o [Er [Ho Hf]]]]. subst own.
        simpl. unfold in_init at 1. rewrite Hf.
        apply (IH kw seen o Er).
        -- destruct v; auto.
        -- auto.
      * (* AInitVar *)
        destruct v as [| | fa].
        -- simpl in Hpy, H2, H7. apply orb_false_iff in H2. destruct H2 as [Hn H2]. rewrite Hn in Hpy.
           destruct (py_scan inhf kw seen r) as [o|] eqn:Er; simpl in Hpy; [|discriminate]. inversion Hpy; subst own.
           simpl. rewrite andb_true_r. rewrite (IH kw seen o Er H2 H7). unfold to_param at 2. simpl. destruct kw; reflexivity.
        -- simpl in Hpy, H2, H7.
           destruct (py_scan inhf kw seen r) as [o|] eqn:Er; simpl in Hpy; [|discriminate]. inversion Hpy; subst own.
           simpl. rewrite andb_true_r. rewrite (IH kw seen o Er H2 H7). unfold to_param at 2. simpl. destruct kw; reflexivity.
        -- simpl in Hpy, H2, H7.
           destruct (fa_factory fa || fa_default fa && fa_factory fa) eqn:Eb; [discriminate|].
           destruct (py_scan inhf kw seen r) as [o|] eqn:Er; simpl in Hpy; [|discriminate]. inversion Hpy; subst own.
           specialize (IH kw seen o Er H2 H7).
           simpl. unfold in_init at 1. simpl. unfold opt_is in *.
           destruct (fa_init fa) as [[|]|] eqn:Ei; simpl; rewrite IH; auto;
             unfold to_param at 2; simpl;
             (destruct (fa_kw fa) as [[|]|] eqn:Ek; destruct kw; simpl in *;
              rewrite (orb_comm (fa_factory fa)); reflexivity).
      * (* AKwOnly *)
        simpl in Hpy, H2, H7. destruct seen; [discriminate|].
        simpl. apply (IH true true own Hpy).
        -- destruct v; auto.
        -- auto.
    + (* SDef *) simpl in *. apply (IH kw seen own Hpy); auto.
    + (* SAnnProp *) simpl in H7. discriminate.
Qed.

(* ------------------------------------------------------------------ one class *)
Lemma class_agree : forall t b own,
  decorated b = true -> py_own t b = Some own ->
  hw_assigns b = false ->
  g2_scan (inh t b) (c_body b) = false -> g7_scan (c_body b) = false ->
  g_class_params b = map to_param (filter in_init own).
Proof.
  intros t b own Hd Hown H4 H2 H7.
  unfold g_class_params, py_own, decorated in *.
  destruct (c_dec b) as [d|]; [|discriminate].
  assert (Hb : g_body b = c_body b).
  { unfold g_body, hw_assigns in *. destruct (c_hw b) as [[|n l]|]; simpl; try discriminate; apply app_nil_r. }
  rewrite Hb. eapply scan_agree; eauto.
Qed.

(* every class of an accepted module was accepted *)
Lemma py_eval_own : forall t todo e e', py_eval t e todo = Some e' ->
  forall c, In c todo -> exists own, py_own t c = Some own.
Proof.
  intros t. induction todo as [|x r IH]; simpl; intros e e' H c Hin; [contradiction|].
  destruct (py_step t e x) as [o|] eqn:Es; [|discriminate].
  destruct Hin as [Hin|Hin].
  - subst x. unfold py_step in Es. unfold py_own in *. destruct (c_dec c) as [d|]; [|eauto].
    destruct (py_scan (inh t c) (opt_is (d_kw d) true) false (c_body c)); [eauto|discriminate].
  - eapply IH; eauto.
Qed.

Lemma mro_classes_in : forall t c b, In b (mro_classes t c) -> In b t.
Proof.
  intros t c b H. unfold mro_classes in H. apply in_flat_map in H. destruct H as [j [_ H]].
  destruct (nth_error t j) as [x|] eqn:E; [|contradiction]. destruct H as [H|[]]. subst. eapply nth_error_In; eauto.
Qed.

Lemma chain_in : forall t c b, In c t -> In b (chain t c) -> In b t /\ decorated b = true.
Proof.
  intros t c b Hc H. unfold chain in H. apply filter_In in H. destruct H as [H Hd]. split; auto.
  apply in_app_or in H. destruct H as [H|[H|[]]].
  - apply in_rev in H. eapply mro_classes_in; eauto.
  - subst; auto.
Qed.

Lemma g_collect_chain : forall t c, g_collect t c = flat_map g_class_params (chain t c).
Proof.
  intros t c. unfold g_collect, chain. rewrite flat_map_filter_if, filter_app, flat_map_app. f_equal.
  simpl. unfold g_class_params at 1, decorated. destruct (c_dec c) eqn:E; simpl.
  - unfold g_class_params. rewrite E. rewrite app_nil_r. auto.
  - auto.
Qed.

(* ------------------------------------------------------------------ equality of records via the boolean tests *)
Lemma fld_eqb_eq : forall a b, fld_eqb a b = true -> a = b.
Proof.
  intros [n1 t1 i1 k1 d1] [n2 t2 i2 k2 d2]. unfold fld_eqb. simpl. intros H.
  repeat (apply andb_true_iff in H; destruct H as [H ?]).
  apply Nat.eqb_eq in H. apply eqb_prop in H0. apply eqb_prop in H1. apply eqb_prop in H2.
  subst. destruct t1, t2; try discriminate; reflexivity.
Qed.
Lemma list_eqb_eq : forall {A} (eqb : A -> A -> bool), (forall a b, eqb a b = true -> a = b) ->
  forall l m, list_eqb eqb l m = true -> l = m.
Proof.
  intros A eqb H. induction l as [|x l IH]; destruct m as [|y m]; simpl; intros E; try discriminate; auto.
  apply andb_true_iff in E. destruct E as [E1 E2]. f_equal; auto.
Qed.

(* ------------------------------------------------------------------ the main theorem *)
Lemma known_gap_false : forall t e i c, known_gap t e i c = false ->
  G2 t c = false /\ G3 t c = false /\ G4 t c = false /\ G6 t e i c = false /\ G7 t c = false.
Proof.
  intros t e i c H. unfold known_gap, gaps in H. simpl in H.
  repeat (apply orb_false_iff in H; destruct H as [? H]). repeat split; auto.
Qed.

Lemma init_eq_cpython_modulo_known : forall t e i c,
  py_eval_table t = Some e -> nth_error t i = Some c ->
  decorated c = true -> c_hw c = None ->
  known_gap t e i c = false ->
  g_init_member t c = py_init_member e i c.
Proof.
  intros t e i c Hev Hnth Hdec Hhw Hgap.
  apply known_gap_false in Hgap. destruct Hgap as [H2 [H3 [H4 [H6 H7]]]].
  assert (Hin : In c t) by (eapply nth_error_In; eauto).
  (* CPython's fields are the flat collection *)
  unfold G6 in H6. destruct (nth_error e i) as [[fl|]|] eqn:Ee; try discriminate.
  apply negb_false_iff in H6. apply (list_eqb_eq fld_eqb fld_eqb_eq) in H6. subst fl.
  unfold g_init_member, py_init_member. rewrite Hhw, Hdec, Ee.
  unfold init_false. unfold decorated in Hdec. destruct (c_dec c) as [d|] eqn:Ed; [|discriminate].
  destruct (opt_is (d_init d) false); [reflexivity|].
  f_equal.
  (* Griffe's collected list, class by class *)
  rewrite g_collect_chain.
  assert (Hcls : forall b, In b (chain t c) -> g_class_params b = map to_param (filter in_init (own_or_nil t b))).
  { intros b Hb. destruct (chain_in t c b Hin Hb) as [Hbt Hbd].
    destruct (py_eval_own t t [] e Hev b Hbt) as [own Hown].
    unfold own_or_nil. rewrite Hown. apply (class_agree t b own Hbd Hown).
    - apply (existsb_false_forall _ _ H4 b Hb).
    - apply (existsb_false_forall _ _ H2 b Hb).
    - apply (existsb_false_forall _ _ H7 b Hb). }
  rewrite (flat_map_ext_in _ _ _ Hcls). rewrite flat_map_map_filter.
  unfold G3 in H3. apply negb_false_iff in H3.
  unfold g_reorder, py_params, flat_fields.
  set (L := flat_map (own_or_nil t) (chain t c)) in *.
  rewrite (dedup_map f_name p_name to_param) by reflexivity.
  rewrite (dedup_filter fld f_name in_init L H3).
  rewrite !filter_map_comm. f_equal; f_equal; apply filter_ext; intros f; unfold is_pk, is_ko, to_param; simpl; destruct (f_kw f); reflexivity.
Qed.

(* ------------------------------------------------------------------ the easy parts of the property *)
Lemma non_dataclass_untouched : forall t e i c, decorated c = false -> c_hw c = None ->
  g_init_member t c = Absent /\ py_init_member e i c = Absent.
Proof.
  intros t e i c Hd Hh. unfold g_init_member, py_init_member, decorated in *. rewrite Hh.
  destruct (c_dec c); [discriminate|]. split; reflexivity.
Qed.

(* the label is exactly dataclasses.is_dataclass, hand-written __init__ or not *)
Lemma label_eq_is_dataclass : forall t c, g_label t c = py_is_dataclass t c.
Proof. reflexivity. Qed.

(* the sentence of the property: a class inheriting a dataclass is labelled as one *)
Lemma inherited_label : forall t c b, In b (mro_classes t c) -> decorated b = true -> g_label t c = true.
Proof.
  intros t c b Hin Hd. unfold g_label. apply orb_true_iff. right. apply existsb_exists. eauto.
Qed.

Lemma handwritten_init_kept : forall t e i c l, c_hw c = Some l ->
  g_init_member t c = Handwritten /\ py_init_member e i c = Handwritten.
Proof. intros t e i c l H. unfold g_init_member, py_init_member. rewrite H. split; reflexivity. Qed.

(* ------------------------------------------------------------------ witnesses: the unqualified statement is false *)
Definition env_of (t : table) : env := match py_eval_table t with Some e => e | None => [] end.
Definition cls_at (t : table) (i : nat) : cls := nth i t (mkcls None [] None []).
Definition D0 := Some (mkdec None None).
Definition P0 (n : name) := SAttr n APlain VNone.
Definition P1 (n : name) := SAttr n APlain VPlain.
Definition FA i k d f o := VField (mkfa i k d f o).

Definition w2 : table := [mkcls D0 [P1 0] None []; mkcls D0 [P0 0; P1 1] None [0]].
Definition w3 : table := [mkcls D0 [P1 0] None []; mkcls D0 [SAttr 0 APlain (FA (Some false) None true false false); P1 1] None [0]].
Definition w4 : table := [mkcls D0 [P0 0] (Some [80]) []; mkcls D0 [P1 1] None [0]].
Definition w6 : table := [mkcls D0 [P0 0] None []; mkcls D0 [P1 0] None [0]; mkcls D0 [P1 1] None [0]; mkcls D0 [] None [2; 1; 0]].
Definition w7 : table := [mkcls D0 [SAnnProp 0] None []].

(* a decorated class without hand-written __init__, in a module CPython accepts, on which the two constructors differ,
   and which satisfies exactly the k-th gap predicate; flags = [G2; G3; G4; G6; G7] *)
Definition refutes (t : table) (i : nat) (flags : list bool) : Prop :=
  exists e c, py_eval_table t = Some e /\ nth_error t i = Some c /\ decorated c = true /\ c_hw c = None /\
              g_init_member t c <> py_init_member e i c /\ gaps t e i c = flags.

Ltac refute t i := exists (env_of t), (cls_at t i); vm_compute; repeat split; try reflexivity; discriminate.

Lemma refuted_F2 : refutes w2 1 [true; false; false; false; false].
Proof. refute w2 1. Qed.
Lemma refuted_F3 : refutes w3 1 [false; true; false; false; false].
Proof. refute w3 1. Qed.
Lemma refuted_F4 : refutes w4 1 [false; false; true; false; false].
Proof. refute w4 1. Qed.
Lemma refuted_F6 : refutes w6 3 [false; false; false; true; false].
Proof. refute w6 3. Qed.
Lemma refuted_F7 : refutes w7 0 [false; false; false; false; true].
Proof. refute w7 0. Qed.

(* the witnesses of the repaired defects F1, F5, F8 are gap-free now, so the main theorem covers them; computed here as well *)
Definition x1 : table := [mkcls (Some (mkdec (Some false) None)) [P1 0] None []; mkcls D0 [P1 1] None [0]].
Definition x5 : table := [mkcls (Some (mkdec None (Some true))) [SAttr 0 APlain (FA None (Some false) true false false); P1 1] None []].
Definition x8 : table := [mkcls D0 [SAttr 0 APlain (FA None None false false false)] None []].
Example repaired_F1 : known_gap x1 (env_of x1) 1 (cls_at x1 1) = false /\ known_gap x1 (env_of x1) 0 (cls_at x1 0) = false /\
  g_init_member x1 (cls_at x1 0) = Absent /\ g_init_member x1 (cls_at x1 1) = Synth [mkp 0 PK true; mkp 1 PK true].
Proof. vm_compute. repeat split; reflexivity. Qed.
Example repaired_F5 : known_gap x5 (env_of x5) 0 (cls_at x5 0) = false /\
  g_init_member x5 (cls_at x5 0) = Synth [mkp 0 PK true; mkp 1 KO true].
Proof. vm_compute. repeat split; reflexivity. Qed.
Example repaired_F8 : known_gap x8 (env_of x8) 0 (cls_at x8 0) = false /\
  g_init_member x8 (cls_at x8 0) = Synth [mkp 0 PK false].
Proof. vm_compute. repeat split; reflexivity. Qed.

(* ------------------------------------------------------------------ non-vacuity: gap-free hierarchies with all ingredients *)
Definition ok1 : table :=
  [ mkcls D0 [P0 0; SAttr 1 AInitVar VPlain; SAttr 2 APlain (FA None None false true false);
              SAttr 90 AKwOnly VNone; P1 3; SAttr 4 AClassVar VPlain; SDef 7 true] None [];
    mkcls None [SAttr 5 ANone VPlain; SDef 6 false] None [0];
    mkcls (Some (mkdec (Some true) (Some true))) [P0 8; SAttr 1 APlain VPlain; SAttr 9 APlain (FA (Some false) None true false true)] None [1; 0];
    mkcls D0 [P1 10; SAttr 3 APlain (FA None (Some true) true false false)] (Some []) [2; 1; 0];
    mkcls D0 [P1 11] None [3; 2; 1; 0] ].

Example ok1_gap_free : exists e, py_eval_table ok1 = Some e /\ known_gap ok1 e 4 (cls_at ok1 4) = false /\ linear ok1 = true /\
  g_init_member ok1 (cls_at ok1 4) =
    Synth [mkp 0 PK false; mkp 2 PK true; mkp 10 PK true; mkp 11 PK true; mkp 1 KO true; mkp 3 KO true; mkp 8 KO false].
Proof. exists (env_of ok1). vm_compute. repeat split; reflexivity. Qed.

(* ------------------------------------------------------------------ single inheritance: F6 cannot happen *)
Lemma NoDup_snoc : forall {A} (l : list A) a, NoDup l -> ~ In a l -> NoDup (l ++ [a]).
Proof.
  intros A l a Hl Ha. apply (NoDup_Add (a := a) (l := l ++ [])).
  - apply Add_app.
  - rewrite app_nil_r. auto.
Qed.
Lemma NoDup_app_l : forall {A} (l m : list A), NoDup (l ++ m) -> NoDup l.
Proof.
  intros A l m. induction l as [|x l IH]; simpl; intros H; [constructor|].
  apply NoDup_cons_iff in H. destruct H as [H1 H2]. constructor; auto. intros Hin. apply H1. apply in_or_app. auto.
Qed.

Section Absorb.
  Variable A : Type.
  Variable key : A -> name.

  Lemma upd_shape : forall m x,
    (In (key x) (map key m) /\ map key (upd key m x) = map key m /\ List.length (upd key m x) = List.length m) \/
    (~ In (key x) (map key m) /\ upd key m x = m ++ [x]).
  Proof.
    induction m as [|z r IH]; simpl; intros x.
    - right. split; auto.
    - destruct (Nat.eqb (key z) (key x)) eqn:E.
      + apply Nat.eqb_eq in E. left. split; auto. simpl. rewrite E. auto.
      + apply Nat.eqb_neq in E. destruct (IH x) as [[Hi [Hm Hl]]|[Hn He]].
        * left. split; auto. simpl. rewrite Hm, Hl. auto.
        * right. split. { intros [H|H]; auto. } rewrite He. auto.
  Qed.

  Lemma upd_nodup : forall m x, NoDup (map key m) -> NoDup (map key (upd key m x)).
  Proof.
    intros m x H. destruct (upd_shape m x) as [[_ [Hm _]]|[Hn He]].
    - rewrite Hm. auto.
    - rewrite He, map_app. simpl. apply NoDup_snoc; auto.
  Qed.

  Lemma merge_nodup : forall o m, NoDup (map key m) -> NoDup (map key (merge key m o)).
  Proof. unfold merge. induction o as [|x o IH]; simpl; intros m H; auto. apply IH. apply upd_nodup; auto. Qed.

  Lemma upd_app_notin : forall done m y, ~ In (key y) (map key done) -> upd key (done ++ m) y = done ++ upd key m y.
  Proof.
    induction done as [|d done IH]; simpl; intros m y H; auto.
    destruct (Nat.eqb (key d) (key y)) eqn:E.
    - apply Nat.eqb_eq in E. exfalso. apply H. left. auto.
    - rewrite IH; auto.
  Qed.

  Lemma absorb_aligned : forall l' m' done,
    map key m' = map key l' -> NoDup (map key (done ++ l')) ->
    fold_left (upd key) l' (done ++ m') = done ++ l'.
  Proof.
    induction l' as [|y l' IH]; intros m' done Hk Hn.
    - destruct m'; [reflexivity|discriminate].
    - destruct m' as [|z m']; [discriminate|]. simpl in Hk. inversion Hk as [[Hzy Hrest]].
      assert (Hnotin : ~ In (key y) (map key done)).
      { rewrite map_app in Hn. simpl in Hn. apply NoDup_remove_2 in Hn. intros Hin. apply Hn. apply in_or_app. auto. }
      simpl. rewrite upd_app_notin by auto. simpl. apply Nat.eqb_eq in Hzy. rewrite Hzy.
      replace (done ++ y :: m') with ((done ++ [y]) ++ m') by (rewrite <- app_assoc; reflexivity).
      rewrite IH; auto.
      + rewrite <- app_assoc. reflexivity.
      + rewrite <- app_assoc. simpl. auto.
  Qed.

  Lemma merge_fresh : forall l2 l1, NoDup (map key (l1 ++ l2)) -> fold_left (upd key) l2 l1 = l1 ++ l2.
  Proof.
    induction l2 as [|y l2 IH]; simpl; intros l1 H.
    - rewrite app_nil_r. auto.
    - assert (Hnotin : ~ In (key y) (map key l1)).
      { rewrite map_app in H. simpl in H. apply NoDup_remove_2 in H. intros Hin. apply H. apply in_or_app. auto. }
      destruct (upd_shape l1 y) as [[Hi _]|[_ He]]; [contradiction|].
      rewrite He. rewrite IH.
      + rewrite <- app_assoc. reflexivity.
      + rewrite <- app_assoc. simpl. auto.
  Qed.

  Lemma absorb_prefix : forall m l1 l2, map key m = map key l1 -> NoDup (map key (l1 ++ l2)) ->
    merge key m (l1 ++ l2) = l1 ++ l2.
  Proof.
    intros m l1 l2 Hk Hn. unfold merge. rewrite fold_left_app.
    assert (H1 : fold_left (upd key) l1 m = l1).
    { apply (absorb_aligned l1 m []); auto. simpl. rewrite map_app in Hn. apply NoDup_app_l in Hn. auto. }
    rewrite H1. apply merge_fresh. auto.
  Qed.

  Lemma merge_prefix_keys : forall o m, map key (firstn (List.length m) (merge key m o)) = map key m.
  Proof.
    unfold merge. induction o as [|x o IH]; simpl; intros m.
    - rewrite firstn_all. auto.
    - specialize (IH (upd key m x)). destruct (upd_shape m x) as [[_ [Hm Hl]]|[_ He]].
      + rewrite Hl, Hm in IH. auto.
      + rewrite He in *. rewrite app_length in IH. simpl in IH.
        set (Y := fold_left (upd key) o (m ++ [x])) in *.
        assert (Hf : firstn (List.length m) Y = firstn (List.length m) (firstn (List.length m + 1) Y)).
        { rewrite firstn_firstn. f_equal. lia. }
        rewrite Hf, <- firstn_map, IH, map_app, firstn_app, map_length, Nat.sub_diag. simpl.
        rewrite app_nil_r. rewrite <- (map_length key m). apply firstn_all.
  Qed.

  Lemma merge_absorb : forall m o, NoDup (map key m) -> merge key m (merge key m o) = merge key m o.
  Proof.
    intros m o Hn. set (X := merge key m o).
    assert (H : merge key m (firstn (List.length m) X ++ skipn (List.length m) X) =
                firstn (List.length m) X ++ skipn (List.length m) X).
    { apply absorb_prefix.
      - symmetry. apply merge_prefix_keys.
      - rewrite firstn_skipn. apply merge_nodup. auto. }
    rewrite firstn_skipn in H. auto.
  Qed.
End Absorb.

Definition flat_mro (t : table) (c : cls) : list fld :=
  dedup f_name (flat_map (own_or_nil t) (filter decorated (rev (mro_classes t c)))).
Definition Gj (t : table) (E : env) (j : nat) : list fld :=
  match getattr_fields t E j with Some fl => fl | None => [] end.
Definition good (t : table) (E : env) (k : nat) (b : cls) : Prop :=
  nth_error E k = Some (if decorated b then Some (flat_fields t b) else None).

Lemma flat_fields_dec : forall t c, decorated c = true ->
  flat_fields t c = merge f_name (flat_mro t c) (own_or_nil t c).
Proof.
  intros t c H. unfold flat_fields, flat_mro, chain, dedup, merge.
  rewrite filter_app. simpl. rewrite H. rewrite flat_map_app, fold_left_app. simpl. rewrite app_nil_r. reflexivity.
Qed.
Lemma flat_fields_undec : forall t c, decorated c = false -> flat_fields t c = flat_mro t c.
Proof.
  intros t c H. unfold flat_fields, flat_mro, chain. rewrite filter_app. simpl. rewrite H, app_nil_r. reflexivity.
Qed.
Lemma mro_classes_cons : forall t c j r b, c_mro c = j :: r -> nth_error t j = Some b -> c_mro b = r ->
  mro_classes t c = b :: mro_classes t b.
Proof. intros t c j r b Hc Hj Hb. unfold mro_classes. rewrite Hc, Hb. simpl. rewrite Hj. reflexivity. Qed.
Lemma flat_mro_cons : forall t c j r b, c_mro c = j :: r -> nth_error t j = Some b -> c_mro b = r ->
  flat_mro t c = flat_fields t b.
Proof.
  intros t c j r b Hc Hj Hb. unfold flat_mro, flat_fields, chain.
  rewrite (mro_classes_cons t c j r b Hc Hj Hb). simpl. reflexivity.
Qed.
Lemma flat_mro_nodup : forall t c, NoDup (map f_name (flat_mro t c)).
Proof. intros. unfold flat_mro, dedup. apply merge_nodup. simpl. constructor. Qed.

Lemma inherited_cons : forall t E c j r b, c_mro c = j :: r -> c_mro b = r ->
  inherited t E c = merge f_name (inherited t E b) (Gj t E j).
Proof.
  intros t E c j r b Hc Hb. unfold inherited. rewrite Hc, Hb. simpl. rewrite fold_left_app. simpl.
  unfold Gj. destruct (getattr_fields t E j); reflexivity.
Qed.

(* one step up a single-inheritance chain *)
Lemma inherited_linear_step : forall t E x j r b,
  c_mro x = j :: r -> nth_error t j = Some b -> c_mro b = r ->
  Gj t E j = flat_fields t b -> inherited t E b = flat_mro t b ->
  inherited t E x = flat_mro t x.
Proof.
  intros t E x j r b Hx Hj Hb HG HI.
  rewrite (inherited_cons t E x j r b Hx Hb), HG, HI, (flat_mro_cons t x j r b Hx Hj Hb).
  destruct (decorated b) eqn:Hd.
  - rewrite (flat_fields_dec t b Hd). apply merge_absorb. apply flat_mro_nodup.
  - rewrite (flat_fields_undec t b Hd).
    change (flat_mro t b) with (merge f_name (flat_mro t b) []) at 2 3.
    apply merge_absorb. apply flat_mro_nodup.
Qed.

Lemma list_eqb_nat_eq : forall l m, list_eqb Nat.eqb l m = true -> l = m.
Proof. apply list_eqb_eq. intros a b H. apply Nat.eqb_eq. auto. Qed.

Lemma linear_chain_inv : forall t E n,
  (forall k b, k < n -> nth_error t k = Some b -> good t E k b /\ linear_at t k b = true) ->
  forall j, j < n -> forall b, nth_error t j = Some b ->
  Gj t E j = flat_fields t b /\ inherited t E b = flat_mro t b.
Proof.
  intros t E n Hall j. induction j as [j IH] using lt_wf_ind. intros Hjn b Hb.
  destruct (Hall j b Hjn Hb) as [Hgood Hlin]. unfold good in Hgood. unfold linear_at in Hlin.
  destruct (c_mro b) as [|j' r] eqn:Hm.
  - split.
    + unfold Gj, getattr_fields. rewrite Hb, Hm. simpl. rewrite Hgood.
      destruct (decorated b) eqn:Hd; auto.
      rewrite (flat_fields_undec t b Hd). unfold flat_mro, mro_classes. rewrite Hm. reflexivity.
    + unfold inherited, flat_mro, mro_classes. rewrite Hm. reflexivity.
  - apply andb_true_iff in Hlin. destruct Hlin as [Hlt Hr]. apply Nat.ltb_lt in Hlt.
    destruct (nth_error t j') as [b'|] eqn:Hb'; [|discriminate]. apply list_eqb_nat_eq in Hr.
    destruct (IH j' Hlt (Nat.lt_trans _ _ _ Hlt Hjn) b' Hb') as [HG' HI'].
    assert (HI : inherited t E b = flat_mro t b).
    { apply (inherited_linear_step t E b j' r b'); auto. }
    split; auto.
    unfold Gj, getattr_fields. rewrite Hb, Hm. simpl. rewrite Hgood.
    destruct (decorated b) eqn:Hd; auto.
    rewrite (flat_fields_undec t b Hd), (flat_mro_cons t b j' r b' Hm Hb' (eq_sym Hr)), <- HG'.
    unfold Gj, getattr_fields. rewrite Hb', <- Hr. reflexivity.
Qed.

(* the environment after the module ran: entry k is the result of executing class k in the environment of its predecessors *)
Lemma py_eval_nth : forall t todo e0 e, py_eval t e0 todo = Some e ->
  exists res, e = e0 ++ res /\
    forall k c, nth_error todo k = Some c ->
      exists x, nth_error res k = Some x /\ py_step t (e0 ++ firstn k res) c = Some x.
Proof.
  intros t. induction todo as [|c r IH]; simpl; intros e0 e H.
  - inversion H. exists []. rewrite app_nil_r. split; auto. intros k c Hk. destruct k; discriminate.
  - destruct (py_step t e0 c) as [x|] eqn:Es; [|discriminate].
    destruct (IH _ _ H) as [res [He Hres]]. exists (x :: res). split.
    + rewrite He, <- app_assoc. reflexivity.
    + intros k c' Hk. destruct k as [|k]; simpl in *.
      * inversion Hk; subst c'. exists x. rewrite app_nil_r. auto.
      * destruct (Hres k c' Hk) as [y [Hy Hs]]. exists y. split; auto.
        rewrite <- app_assoc in Hs. exact Hs.
Qed.

Lemma nth_error_firstn_lt : forall {A} (l : list A) n k, k < n -> nth_error (firstn n l) k = nth_error l k.
Proof.
  intros A l. induction l as [|x l IH]; intros n k H.
  - rewrite firstn_nil. reflexivity.
  - destruct n; [lia|]. destruct k; simpl; auto. apply IH. lia.
Qed.

Lemma linear_from_nth : forall t l s, linear_from t s l = true ->
  forall k b, nth_error l k = Some b -> linear_at t (s + k) b = true.
Proof.
  intros t. induction l as [|c r IH]; simpl; intros s H k b Hk.
  - destruct k; discriminate.
  - apply andb_true_iff in H. destruct H as [H1 H2]. destruct k; simpl in Hk.
    + inversion Hk; subst. rewrite Nat.add_0_r. auto.
    + rewrite <- Nat.add_succ_comm. apply (IH (S s) H2 k b Hk).
Qed.

Lemma eval_linear_good : forall t e, py_eval_table t = Some e -> linear t = true ->
  forall n k b, k < n -> nth_error t k = Some b -> good t e k b.
Proof.
  intros t e Hev Hlin.
  assert (Hlinat : forall k b, nth_error t k = Some b -> linear_at t k b = true).
  { intros k b Hk. apply (linear_from_nth t t 0 Hlin k b Hk). }
  destruct (py_eval_nth t t [] e Hev) as [res [He Hres]]. simpl in He. subst res.
  induction n as [|n IHn]; intros k b Hk Hb; [lia|].
  destruct (Nat.eq_dec k n) as [->|Hne]; [|apply IHn; auto; lia].
  destruct (Hres n b Hb) as [x [Hx Hs]]. simpl in Hs.
  unfold good. rewrite Hx. f_equal.
  set (E := firstn n e) in *.
  assert (HallE : forall k' b', k' < n -> nth_error t k' = Some b' -> good t E k' b' /\ linear_at t k' b' = true).
  { intros k' b' Hlt Hb'. split; auto. unfold good, E. rewrite nth_error_firstn_lt by auto. apply IHn; auto. }
  unfold py_step in Hs. unfold decorated.
  destruct (c_dec b) as [d|] eqn:Ed; [|inversion Hs; reflexivity].
  destruct (py_own t b) as [own|] eqn:Eo; [|discriminate].
  assert (Hd : decorated b = true) by (unfold decorated; rewrite Ed; reflexivity).
  assert (HI : inherited t E b = flat_mro t b).
  { pose proof (Hlinat n b Hb) as Hl. unfold linear_at in Hl. destruct (c_mro b) as [|j' r] eqn:Hm.
    - unfold inherited, flat_mro, mro_classes. rewrite Hm. reflexivity.
    - apply andb_true_iff in Hl. destruct Hl as [Hlt Hr]. apply Nat.ltb_lt in Hlt.
      destruct (nth_error t j') as [b'|] eqn:Hb'; [|discriminate]. apply list_eqb_nat_eq in Hr.
      destruct (linear_chain_inv t E n HallE j' Hlt b' Hb') as [HG' HI'].
      apply (inherited_linear_step t E b j' r b'); auto. }
  rewrite HI in Hs. rewrite (flat_fields_dec t b Hd). unfold own_or_nil. rewrite Eo.
  destruct (opt_is (d_init d) false || order_ok false (merge f_name (flat_mro t b) own)); [|discriminate].
  inversion Hs. reflexivity.
Qed.

Lemma fld_eqb_refl : forall a, fld_eqb a a = true.
Proof. intros [n ty i k d]. unfold fld_eqb. simpl. rewrite Nat.eqb_refl, !eqb_reflx. destruct ty; reflexivity. Qed.
Lemma list_eqb_refl : forall {A} (eqb : A -> A -> bool), (forall a, eqb a a = true) -> forall l, list_eqb eqb l l = true.
Proof. intros A eqb H. induction l; simpl; auto. rewrite H, IHl. reflexivity. Qed.

(* with single inheritance CPython's accumulated field dictionary IS the flat collection: G6 is impossible *)
Lemma single_inheritance_flat : forall t e, py_eval_table t = Some e -> linear t = true ->
  forall i c, nth_error t i = Some c -> decorated c = true -> G6 t e i c = false.
Proof.
  intros t e Hev Hlin i c Hc Hd. pose proof (eval_linear_good t e Hev Hlin (S i) i c (Nat.lt_succ_diag_r i) Hc) as Hg.
  unfold good in Hg. unfold G6. rewrite Hg, Hd. rewrite (list_eqb_refl fld_eqb fld_eqb_refl). reflexivity.
Qed.

Lemma init_eq_cpython_single_inheritance : forall t e i c,
  py_eval_table t = Some e -> linear t = true -> nth_error t i = Some c ->
  decorated c = true -> c_hw c = None ->
  G2 t c = false -> G3 t c = false -> G4 t c = false -> G7 t c = false ->
  g_init_member t c = py_init_member e i c.
Proof.
  intros t e i c Hev Hlin Hc Hd Hh H2 H3 H4 H7.
  apply init_eq_cpython_modulo_known; auto.
  unfold known_gap, gaps. simpl. rewrite H2, H3, H4, H7, (single_inheritance_flat t e Hev Hlin i c Hc Hd). reflexivity.
Qed.
